"""Reference grammar of the PICO-8 Lua dialect picotool parses, written from the Lua 5.2 manual (section 9) plus the
PICO-8 extensions (compound assignment, != , short `if (c) ...` to end of line, `?` print, `//` comments, glyph names) --
independent of pico8/lua/parser.py.  It GENERATES programs together with the tree each one denotes, and lays each
program out in several ways.  Used only by the BOUNDED stand-ins of C08 / C09 / C10 / C14 (never counted as proved).

Normal form of a tree (nf): nested tuples; an expression is ('exp', [items in source order]) where an item is
('op', text) or an operand nf -- operators and operands in SOURCE ORDER (the property does not ask for precedence).
"""
import random

SB, SE = object(), object()          # short-if begin / end markers in the token stream (the statement must stay on one line)


class Gen:
    def __init__(self, rnd, binops, unops):
        self.r = rnd
        self.binops = [b for b in binops]
        self.unops = [u for u in unops]
        self.nid = 0
        self.in_short = 0            # > 0 while generating the inside of a short-if (no nested short-if: outside the dialect)

    # ------------------------------------------------------------------ expressions
    def name(self):
        return self.r.choice([b'a', b'b', b'foo', b'x1', b'_y', b't', b'\x80\x81', b'obj'])

    def atom(self, vararg=False):
        k = self.r.randrange(9 if vararg else 8)
        if k == 0:
            return [b'nil'], ('nil',)
        if k == 1:
            return [b'true'], ('true',)
        if k == 2:
            return [b'false'], ('false',)
        if k == 3:
            t = self.r.choice([b'1', b'42', b'1.5', b'.5', b'0x1f', b'0b101', b'1e3'])
            return [t], ('num', t)
        if k == 4:
            t = self.r.choice([b'"s"', b"'q'", b'[[long]]', b'""'])
            return [t], ('str', t)
        if k == 8:
            return [b'...'], ('dots',)
        n = self.name()
        return [n], ('name', n)

    def prefixexp(self, depth, vararg=False):
        """Name or ( exp ), followed by suffixes."""
        if self.r.random() < 0.15 and depth > 0:
            t, e = self.exp(depth - 1, vararg)
            toks, nf = [b'('] + t + [b')'], ('paren', e)
        else:
            n = self.name()
            toks, nf = [n], ('name', n)
        for _ in range(self.r.randrange(0, 3) if depth > 0 else 0):
            k = self.r.randrange(6)
            if k == 0:
                t, e = self.exp(depth - 1, vararg)
                toks, nf = toks + [b'['] + t + [b']'], ('index', nf, e)
            elif k == 1:
                n = self.name()
                toks, nf = toks + [b'.', n], ('attr', nf, n)
            elif k == 2:
                t, a = self.args(depth - 1, vararg)
                toks, nf = toks + t, ('call', nf, a)
            elif k == 3:
                n = self.name()
                form = self.r.randrange(4)
                if form == 0:                    # obj:method"s"  /  obj:method[[s]]
                    sa = self.r.choice([b'"s"', b'[[x]]', b"'q'"])
                    toks, nf = toks + [b':', n, sa], ('mcall', nf, n, ('sarg', sa))
                elif form == 1:                  # obj:method{...}
                    t, tb = self.table(depth - 1, vararg)
                    toks, nf = toks + [b':', n] + t, ('mcall', nf, n, ('targ', tb))
                else:
                    t, a = self.args(depth - 1, vararg)
                    toks, nf = toks + [b':', n] + t, ('mcall', nf, n, a)
            elif k == 4:
                s = self.r.choice([b'"s"', b'[[x]]'])
                toks, nf = toks + [s], ('call', nf, ('sarg', s))
            else:
                t, tb = self.table(depth - 1, vararg)
                toks, nf = toks + t, ('call', nf, ('targ', tb))
        return toks, nf

    def args(self, depth, vararg=False):
        n = self.r.randrange(0, 4)
        toks, es = [b'('], []
        for i in range(n):
            t, e = self.exp(depth, vararg)
            toks += ([b','] if i else []) + t
            es.append(e)
        return toks + [b')'], ('args', es)

    def table(self, depth, vararg=False):
        toks, fs = [b'{'], []
        n = self.r.randrange(0, 4)
        for i in range(n):
            if i:
                toks.append(self.r.choice([b',', b';']))
            k = self.r.randrange(3)
            t, e = self.exp(depth, vararg)
            if k == 0:
                toks += t
                fs.append(('fexp', e))
            elif k == 1:
                nm = self.name()
                toks += [nm, b'='] + t
                fs.append(('fname', nm, e))
            else:
                t2, e2 = self.exp(depth, vararg)
                toks += [b'['] + t2 + [b']', b'='] + t
                fs.append(('fkey', e2, e))
        if n and self.r.random() < 0.3:
            toks.append(b',')
        return toks + [b'}'], ('table', fs)

    def function(self, depth):
        t, fb = self.funcbody(depth)
        return [b'function'] + t, ('func', fb)

    def funcbody(self, depth):
        n = self.r.randrange(0, 4)
        dots = self.r.random() < 0.3
        names = [self.name() for _ in range(n)]
        toks = [b'(']
        for i, nm in enumerate(names):
            toks += ([b','] if i else []) + [nm]
        if dots:
            toks += ([b','] if names else []) + [b'...']
        toks.append(b')')
        bt, b = self.block(depth, in_loop=False, vararg=dots, top=False)
        return toks + bt + [b'end'], (tuple(names), dots, b)

    def operand(self, depth, vararg=False):
        k = self.r.random()
        if depth <= 0 or k < 0.45:
            t, nf = self.atom(vararg)
            return t, [nf]
        if k < 0.7:
            t, nf = self.prefixexp(depth, vararg)
            return t, [nf]
        if k < 0.8:
            t, nf = self.table(depth - 1, vararg)
            return t, [nf]
        if k < 0.88:
            t, nf = self.function(depth - 1)
            return t, [nf]
        u = self.r.choice(self.unops)
        t, items = self.operand(depth - 1, vararg)
        return [u] + t, [('op', u)] + items

    def exp(self, depth, vararg=False):
        toks, items = self.operand(depth, vararg)
        for _ in range(self.r.randrange(0, 3) if depth > 0 else 0):
            b = self.r.choice(self.binops)
            t, it = self.operand(depth - 1, vararg)
            toks += [b] + t
            items += [('op', b)] + it
        return toks, ('exp', items)

    def var(self, depth):
        """An assignable prefixexp: Name, or prefixexp followed by [exp] or .Name."""
        if depth <= 0 or self.r.random() < 0.5:
            n = self.name()
            return [n], ('name', n)
        while True:
            t, p = self.prefixexp(depth - 1)
            if t[0] != b'(':            # a statement starting with '(' is ambiguous with a call of the previous expression
                break
        if self.r.random() < 0.5:
            n = self.name()
            return t + [b'.', n], ('attr', p, n)
        t2, e = self.exp(depth - 1)
        return t + [b'['] + t2 + [b']'], ('index', p, e)

    def explist(self, depth, vararg=False, lo=1, hi=3):
        toks, es = [], []
        for i in range(self.r.randrange(lo, hi + 1)):
            t, e = self.exp(depth, vararg)
            toks += ([b','] if i else []) + t
            es.append(e)
        return toks, es

    # ------------------------------------------------------------------ statements
    KINDS = ('assign', 'compound', 'call', 'do', 'while', 'repeat', 'if', 'fornum', 'forin', 'function', 'localfunction', 'local',
             'goto', 'label', 'shortif', 'print', 'parencall', 'parenassign')

    def _paren_prefix(self, depth, vararg):
        t, e = self.exp(max(depth - 1, 0), vararg)
        toks, nf = [b'('] + t + [b')'], ('paren', e)
        if self.r.random() < 0.4:
            n = self.name()
            toks, nf = toks + [b'.', n], ('attr', nf, n)
        return toks, nf

    def stat(self, depth, in_loop=False, vararg=False, kind=None, in_shortif=False):
        kind = kind or self.r.choice(self.KINDS)
        if kind in ('do', 'while', 'repeat', 'if', 'fornum', 'forin', 'function', 'localfunction') and depth <= 0:
            kind = 'assign'
        if kind == 'shortif' and (in_shortif or depth <= 0 or self.in_short):
            kind = 'assign'
        if kind in ('parencall', 'parenassign') and (in_shortif or self.in_short):
            kind = 'assign'
        if kind == 'parencall':
            # a statement that begins with '(' : prefixexp ::= '(' exp ')'.  After a statement that ends in an expression it would read
            # as a call of that expression, so it is always written behind an explicit empty statement ';'
            toks, nf = self._paren_prefix(depth, vararg)
            if self.r.random() < 0.3:
                n = self.name()
                t, a = self.args(max(depth - 1, 0), vararg)
                return [b';'] + toks + [b':', n] + t, ('callstat', ('mcall', nf, n, a))
            t, a = self.args(max(depth - 1, 0), vararg)
            return [b';'] + toks + t, ('callstat', ('call', nf, a))
        if kind == 'parenassign':
            toks, nf = self._paren_prefix(depth, vararg)
            if self.r.random() < 0.5:
                n = self.name()
                toks, v = toks + [b'.', n], ('attr', nf, n)
            else:
                t2, e = self.exp(max(depth - 1, 0))
                toks, v = toks + [b'['] + t2 + [b']'], ('index', nf, e)
            t, es = self.explist(depth, vararg)
            return [b';'] + toks + [b'='] + t, ('assign', [v], b'=', es)
        if kind == 'assign':
            n = self.r.randrange(1, 4)
            toks, vs = [], []
            for i in range(n):
                t, v = self.var(depth)
                toks += ([b','] if i else []) + t
                vs.append(v)
            t, es = self.explist(depth, vararg)
            return toks + [b'='] + t, ('assign', vs, b'=', es)
        if kind == 'compound':
            t, v = self.var(depth)
            op = self.r.choice([b'+=', b'-=', b'*=', b'/=', b'%=', b'..='])
            t2, e = self.exp(depth, vararg)
            return t + [op] + t2, ('assign', [v], op, [e])
        if kind == 'call':
            while True:
                t, p = self.prefixexp(max(depth, 1), vararg)
                if p[0] in ('call', 'mcall') and t[0] != b'(':
                    return t, ('callstat', p)
        if kind == 'print':
            s = self.r.choice([b'"hi"', b'[[x]]'])
            return [b'?', s], ('callstat', ('call', ('name', b'?'), ('sarg', s)))
        if kind == 'do':
            bt, b = self.block(depth - 1, in_loop, vararg, top=False)
            return [b'do'] + bt + [b'end'], ('do', b)
        if kind == 'while':
            t, e = self.exp(depth - 1, vararg)
            bt, b = self.block(depth - 1, True, vararg, top=False)
            return [b'while'] + t + [b'do'] + bt + [b'end'], ('while', e, b)
        if kind == 'repeat':
            bt, b = self.block(depth - 1, True, vararg, top=False)
            t, e = self.exp(depth - 1, vararg)
            return [b'repeat'] + bt + [b'until'] + t, ('repeat', b, e)
        if kind == 'if':
            t, e = self.exp(depth - 1, vararg)
            bt, b = self.block(depth - 1, in_loop, vararg, top=False)
            toks, pairs = [b'if'] + t + [b'then'] + bt, [(e, b)]
            for _ in range(self.r.randrange(0, 2)):
                t, e = self.exp(depth - 1, vararg)
                bt, b = self.block(depth - 1, in_loop, vararg, top=False)
                toks += [b'elseif'] + t + [b'then'] + bt
                pairs.append((e, b))
            if self.r.random() < 0.5:
                bt, b = self.block(depth - 1, in_loop, vararg, top=False)
                toks += [b'else'] + bt
                pairs.append((None, b))
            return toks + [b'end'], ('if', pairs, False)
        if kind == 'shortif':
            self.in_short += 1
            try:
                return self._shortif(depth, in_loop, vararg)
            finally:
                self.in_short -= 1
        if kind == 'fornum':
            n = self.name()
            t1, e1 = self.exp(depth - 1, vararg)
            t2, e2 = self.exp(depth - 1, vararg)
            toks = [b'for', n, b'='] + t1 + [b','] + t2
            e3 = None
            if self.r.random() < 0.4:
                t3, e3 = self.exp(depth - 1, vararg)
                toks += [b','] + t3
            bt, b = self.block(depth - 1, True, vararg, top=False)
            return toks + [b'do'] + bt + [b'end'], ('fornum', n, e1, e2, e3, b)
        if kind == 'forin':
            names = [self.name() for _ in range(self.r.randrange(1, 4))]
            toks = [b'for']
            for i, nm in enumerate(names):
                toks += ([b','] if i else []) + [nm]
            t, es = self.explist(depth - 1, vararg)
            bt, b = self.block(depth - 1, True, vararg, top=False)
            return toks + [b'in'] + t + [b'do'] + bt + [b'end'], ('forin', tuple(names), es, b)
        if kind == 'function':
            path = [self.name() for _ in range(self.r.randrange(1, 4))]
            toks = [b'function']
            for i, nm in enumerate(path):
                toks += ([b'.'] if i else []) + [nm]
            meth = None
            if self.r.random() < 0.3:
                meth = self.name()
                toks += [b':', meth]
            t, fb = self.funcbody(depth - 1)
            return toks + t, ('function', tuple(path), meth, fb)
        if kind == 'localfunction':
            n = self.name()
            t, fb = self.funcbody(depth - 1)
            return [b'local', b'function', n] + t, ('localfunction', n, fb)
        if kind == 'local':
            names = [self.name() for _ in range(self.r.randrange(1, 4))]
            toks = [b'local']
            for i, nm in enumerate(names):
                toks += ([b','] if i else []) + [nm]
            if self.r.random() < 0.7:
                t, es = self.explist(depth, vararg)
                return toks + [b'='] + t, ('local', tuple(names), es)
            return toks, ('local', tuple(names), None)
        if kind == 'goto':
            n = self.name()
            return [b'goto', n], ('goto', n)
        if kind == 'label':
            n = self.name()
            return [b'::' + n + b'::'], ('label', n)
        raise ValueError(kind)

    def _shortif(self, depth, in_loop, vararg):
        if True:
            t, e = self.exp(depth - 1, vararg)
            n = self.r.randrange(1, 3)
            bt, sts = [], []
            for i in range(n):
                k = self.r.choice(('assign', 'compound', 'call', 'print', 'local') if i < n - 1 or self.r.random() < 0.7 else ('return', 'break', 'goto'))
                st, s = self.laststat(depth - 1, vararg) if k in ('return', 'break') else self.stat(depth - 1, in_loop, vararg, kind=k, in_shortif=True)
                if k == 'break' or k == 'return':
                    pass
                bt += st
                sts.append(s)
            toks = [SB, b'if', b'('] + t + [b')'] + bt
            pairs = [(e, ('block', sts))]
            if self.r.random() < 0.35:
                st, s = self.stat(depth - 1, in_loop, vararg, kind=self.r.choice(('assign', 'call', 'compound')), in_shortif=True)
                toks += [b'else'] + st
                pairs.append((None, ('block', [s])))
            return toks + [SE], ('if', pairs, True)

    def laststat(self, depth, vararg=False, in_loop=True):
        if self.r.random() < 0.4:
            return [b'break'], ('break',)
        if self.r.random() < 0.5:
            return [b'return'], ('return', None)
        t, es = self.explist(depth, vararg)
        return [b'return'] + t, ('return', es)

    def block(self, depth, in_loop=False, vararg=False, top=True, kinds=None):
        n = self.r.randrange(0 if not top else 1, 4)
        toks, sts = [], []
        for i in range(n):
            k = kinds[i % len(kinds)] if kinds else None
            t, s = self.stat(depth, in_loop, vararg, kind=k)
            toks += [('STAT',)] + t
            sts.append(s)
        if self.r.random() < 0.25 and not top:
            t, s = self.laststat(depth, vararg)
            toks += [('STAT',)] + t
            sts.append(s)
        return toks, ('block', sts)


def programs(rnd, binops, unops, count, depth=3):
    """Yield (token stream with markers, nf).  Systematic part: every statement kind first/middle/last in a block and
    inside every block-bearing statement; then random programs."""
    g = Gen(rnd, binops, unops)
    for k in Gen.KINDS:
        for _ in range(3):
            t, s = g.stat(depth, kind=k)
            yield [('STAT',)] + t, ('block', [s])
        for pos in range(3):
            kinds = ['assign', 'call', 'local']
            kinds[pos] = k
            yield g.block(depth - 1, kinds=kinds)
        for outer in ('do', 'while', 'repeat', 'if', 'fornum', 'forin', 'function'):
            t0, s0 = g.stat(1, kind=k)
            if outer == 'do':
                t, s = [b'do', ('STAT',)] + t0 + [b'end'], ('do', ('block', [s0]))
            elif outer == 'while':
                t, s = [b'while', b'a', b'do', ('STAT',)] + t0 + [b'end'], ('while', ('exp', [('name', b'a')]), ('block', [s0]))
            elif outer == 'repeat':
                t, s = [b'repeat', ('STAT',)] + t0 + [b'until', b'a'], ('repeat', ('block', [s0]), ('exp', [('name', b'a')]))
            elif outer == 'if':
                t, s = [b'if', b'a', b'then', ('STAT',)] + t0 + [b'else', ('STAT',)] + t0 + [b'end'], \
                    ('if', [(('exp', [('name', b'a')]), ('block', [s0])), (None, ('block', [s0]))], False)
            elif outer == 'fornum':
                t, s = [b'for', b'i', b'=', b'1', b',', b'2', b'do', ('STAT',)] + t0 + [b'end'], \
                    ('fornum', b'i', ('exp', [('num', b'1')]), ('exp', [('num', b'2')]), None, ('block', [s0]))
            elif outer == 'forin':
                t, s = [b'for', b'k', b'in', b't', b'do', ('STAT',)] + t0 + [b'end'], ('forin', (b'k',), [('exp', [('name', b't')])], ('block', [s0]))
            else:
                t, s = [b'function', b'f', b'(', b')', ('STAT',)] + t0 + [b'end'], ('function', (b'f',), None, ((), False, ('block', [s0])))
            yield [('STAT',)] + t + [('STAT',), b'x', b'=', b'1'], ('block', [s, ('assign', [('name', b'x')], b'=', [('exp', [('num', b'1')])])])
    for _ in range(count):
        yield g.block(depth)


# ------------------------------------------------------------------------------------------------ layouts

def layouts(stream):
    """[(layout name, source bytes)] for one token stream."""
    out = []

    def render(sep_tok, sep_stat, comments=False, semis=False, final_nl=True):
        buf, in_short, first = [], False, True
        for t in stream:
            if t is SB:
                in_short = True
                continue
            if t is SE:
                in_short = False
                buf.append(b'\n')           # a short-if ends with its line
                first = True
                continue
            if t == ('STAT',):
                if buf and not in_short and not first:
                    if semis:
                        buf.append(b';')
                    buf.append(sep_stat if not in_short else b' ')
                    first = True
                continue
            if not first:
                if comments and len(buf) % 7 == 3:
                    buf.append(b' --[[c]] ')        # a block comment may sit inside a short-if line as well
                else:
                    buf.append(b' ' if in_short else sep_tok)
            buf.append(t)
            first = False
        s = b''.join(buf)
        s = s.rstrip(b'\n')
        if comments:
            s += b' -- end'
        return s + (b'\n' if final_nl else b'')
    out.append(('one statement per line', render(b' ', b'\n')))
    out.append(('one line', render(b' ', b' ')))
    out.append(('token per line', render(b'\n', b'\n')))
    out.append(('comments', render(b' ', b'\n', comments=True)))
    out.append(('semicolons', render(b' ', b'\n', semis=True)))
    out.append(('no final newline', render(b' ', b'\n', final_nl=False)))
    return out
