"""LexSpec: the lexical grammar of Lua 5.2 with PICO-8's extensions, written from the Lua reference manual (section 3.1)
and the PICO-8 manual -- independent of picotool's matcher table.  Token classes are regular languages; the first
token of a text is decided by MAXIMAL MUNCH over all classes, a reserved word winning over a name of the same length.

Where the public descriptions disagree or are silent the spec ADMITS both readings (so the check never demands more
than the property states):
  * a decimal numeral directly followed by '..'      ('1..x': Lua rejects, PICO-8 reads 1 .. x)
  * a hex/binary numeral with a trailing '.'          ('0x1.')
  * the operator SET is the dialect picotool implements (read from the real table); what is specified is that the
    LONGEST operator is taken.
"""
NAME = rb'[A-Za-z_\x80-\xff][A-Za-z0-9_\x80-\xff]*'

KEYWORDS = (b'and', b'break', b'do', b'else', b'elseif', b'end', b'false', b'for', b'function', b'goto', b'if', b'in',
            b'local', b'nil', b'not', b'or', b'repeat', b'return', b'then', b'true', b'until', b'while')

NUMBER = (rb'[0-9]+(\.[0-9]*)?([eE][+-]?[0-9]+)?',           # 3   3.   3.14   3e10   3.5e-2  3e+2
          rb'\.[0-9]+([eE][+-]?[0-9]+)?',                     # .5  .5e3
          rb'0[xX][0-9a-fA-F]+(\.[0-9a-fA-F]*)?',             # 0xA  0xA.8  (0xA. admitted)
          rb'0[xX]\.[0-9a-fA-F]+',                            # 0x.8
          rb'0[bB][01]+(\.[01]*)?',                           # 0b101  0b1.1
          rb'0[bB]\.[01]+')
# readings that are ALSO accepted (never required)
NUMBER_ADMITTED = (rb'[0-9]+',                                # '1' in '1..x'
                   rb'0[xX][0-9a-fA-F]+', rb'0[bB][01]+')      # '0x1' in '0x1.'

COMMENT = (rb'--[^\n]*', rb'//[^\n]*')
SPACE = (rb'[ \t]+',)
NEWLINE = (rb'\r\n', rb'\n', rb'\r')
LABEL = (rb'::' + NAME + rb'::',)
QUESTION = (rb'\?',)                                           # PICO-8 print shorthand, a name for the parser

# decimal numerals as PICO-8 reads them: a '.' directly followed by another '.' is not part of the numeral
NUMBER_PICO8 = (rb'[0-9]+(\.(?!\.)[0-9]*)?([eE][+-]?[0-9]+)?',) + NUMBER[1:]
# same, but a hex/binary numeral does not take a trailing '.' (admitted second reading)
NUMBER_NO_TRAILING_DOT = (NUMBER_PICO8[0], NUMBER[1], rb'0[xX][0-9a-fA-F]+(\.[0-9a-fA-F]+)?', NUMBER[3],
                          rb'0[bB][01]+(\.[01]+)?', NUMBER[5])
