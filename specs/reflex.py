"""Reference tokenizer written from LexSpec / StringSpec (pure python, no picotool code): used by the BOUNDED
native differential runs (token kinds, extents, positions, decoded strings, numeric values, chunk independence)."""
import re
from specs import lexspec as LS

_NAME = re.compile(LS.NAME)
_NUM = [re.compile(p) for p in LS.NUMBER_NO_TRAILING_DOT]     # the admitted reading that takes no trailing dot
_SIMPLE = [('comment', re.compile(p)) for p in LS.COMMENT] + [('space', re.compile(p)) for p in LS.SPACE] + \
          [('newline', re.compile(p)) for p in LS.NEWLINE] + [('label', re.compile(p)) for p in LS.LABEL] + \
          [('name', re.compile(p)) for p in LS.QUESTION]
ESC = {ord('a'): 7, ord('b'): 8, ord('f'): 12, ord('n'): 10, ord('r'): 13, ord('t'): 9, ord('v'): 11, ord('\\'): 92,
       ord('"'): 34, ord("'"): 39, 10: 10,
       ord('*'): 1, ord('#'): 2, ord('-'): 3, ord('|'): 4, ord('+'): 5, ord('^'): 6}     # PICO-8 P8SCII control escapes


class Outside(Exception):
    """The text uses something outside the dialect (e.g. an unknown escape)."""


def number_value(t):
    s = t.decode('ascii').lower()
    if s.startswith(('0x', '0b')):
        base = 16 if s[1] == 'x' else 2
        ip, _, fp = s[2:].partition('.')
        v = float(int(ip, base)) if ip else 0.0
        if fp:
            v += int(fp, base) / float(base ** len(fp))
        return v
    return float(s)


def denote(body):
    """Bytes denoted by the inside of a quoted string literal (StringSpec)."""
    out, i = bytearray(), 0
    while i < len(body):
        c = body[i]
        if c != 92:
            out.append(c)
            i += 1
            continue
        i += 1
        if i >= len(body):
            raise Outside('dangling backslash')
        c = body[i]
        if 48 <= c <= 57:
            j = i
            while j < len(body) and j < i + 3 and 48 <= body[j] <= 57:
                j += 1
            v = int(body[i:j])
            if v > 255:
                raise Outside('decimal escape > 255')
            out.append(v)
            i = j
        elif c == ord('x'):
            h = body[i + 1:i + 3]
            if len(h) != 2 or not re.fullmatch(rb'[0-9a-fA-F]{2}', h):
                raise Outside('bad \\x escape')
            out.append(int(h, 16))
            i += 3
        elif c in ESC:
            out.append(ESC[c])
            i += 1
        else:
            raise Outside('escape \\%c' % c)
    return bytes(out)


def tokenize(src, symbols):
    """[(kind, text, line, col, value)] ; line/col 0-based, lines end at '\\n'."""
    symbols = sorted(symbols, key=len, reverse=True)
    toks, i, line, col = [], 0, 0, 0
    n = len(src)
    while i < n:
        value = None
        if src.startswith(b'--[[', i):
            j = src.find(b']]', i + 4)
            if j < 0:
                raise Outside('unterminated long comment')
            kind, end = 'comment', j + 2
        elif re.match(rb'\[=*\[', src[i:]):
            m = re.match(rb'\[(=*)\[', src[i:])
            close = b']' + m.group(1) + b']'
            j = src.find(close, i + m.end())
            if j < 0:
                raise Outside('unterminated long string')
            kind, end = 'string', j + len(close)
            value = src[i + m.end():j]
        elif src[i] in b'"\'':
            q, j = src[i], i + 1
            while True:
                if j >= n:
                    raise Outside('unterminated string')
                if src[j] == 92:
                    j += 2
                    continue
                if src[j] == q:
                    break
                j += 1
            kind, end = 'string', j + 1
            value = denote(src[i + 1:j])
        else:
            line_end = src.find(b'\n', i)
            chunk = src[i:] if line_end < 0 else src[i:line_end + 1]
            best = None
            for k, rx in _SIMPLE:
                m = rx.match(chunk)
                if m and m.end() > 0 and (best is None or m.end() > best[1]):
                    best = (k, m.end())
            for rx in _NUM:
                m = rx.match(chunk)
                if m and (best is None or m.end() > best[1]):
                    best = ('number', m.end())
            m = _NAME.match(chunk)
            if m and (best is None or m.end() > best[1]):
                best = ('keyword' if m.group(0) in LS.KEYWORDS else 'name', m.end())
            for s in symbols:
                if chunk.startswith(s):
                    if best is None or len(s) > best[1]:
                        best = ('symbol', len(s))
                    break
            if best is None:
                raise Outside('no token at %d' % i)
            kind, end = best[0], i + best[1]
            if kind == 'number':
                value = number_value(src[i:end])
        text = src[i:end]
        toks.append((kind, text, line, col, value))
        for c in text:
            if c == 10:
                line, col = line + 1, 0
            else:
                col += 1
        i = end
    return toks
