"""Hand-written programs of the dialect (valid by the Lua 5.2 grammar plus the PICO-8 extensions picotool parses), one statement per
line: shapes that random generation reaches only by luck -- every shape behind a defect found so far is here.  Used by the BOUNDED runs
of C08 / C09 / C10 next to the generated programs (never counted as proved)."""

PROGRAMS = [
    # parenthesised prefixes of calls / indexes / method calls (a statement that begins with '(' stands behind an empty statement)
    b';(f or g)(x)\n',
    b';((a) == b)()\n',
    b';((a).t == b)()\n',
    b';(((a)) == (b))()\n',
    b';(-(a))()\n',
    b';(not (a) or b)()\n',
    b';(#(t))()\n',
    b';(((a) + b) * c).x = 1\n',
    b';((f) or (g))[1] = 2\n',
    b';( (a) .. (b) ):upper()\n',
    b';("abc"):upper()\n',
    b';((f or g))(x)\n',
    b';( ( f or g ) ) ( x )\n',
    b';(function()\nx = 2\nend)()\n',
    b'do\n;(h)()\nend\n',
    b'x = (f or g)(y)\n',
    b'x = ((a) == b)\n',
    b'x = ((a))\n',
    b'x = (a)(b)(c)\n',
    b'x = f((a) == (b), (c))\n',
    b'return (f)(x)\n',
    # call forms
    b'a:b"s"\n', b"a:b's'\n", b'a:b[[x]]\n', b'a:b{1, 2}\n', b'a.b.c:d(e).f[g] = h\n', b'f{...}\n', b'f"s".x()\n', b'f[[s]]:m()\n',
    b'f()()()\n', b'f(g(h(1)))\n', b'a.b["c"].d()\n', b't[ [[k]] ] = 1\n', b't[{}] = 1\n',
    # tables
    b't = {1, 2; 3, [k]=v, n=1,}\n', b't = {}\n', b't = {{}, {{}}}\n', b't = {f(), (f())}\n', b't = {[1]=1; [2]=2;}\n', b't = {a=1, b={c=2}}\n',
    b't = {\n1,\n2,\n}\n', b't = {\nf = function()\nx = 1\nend,\n}\n',
    # functions
    b'x = function(a, b, ...)\nreturn ...\nend\n', b'local function f(...)\nreturn ...\nend\n', b'function a.b.c:d(e)\nreturn self\nend\n',
    b'function f()\nend\n', b'function f(a)\nreturn\nend\n', b'function f()\nreturn;\nend\n', b'function f() return 1, 2, 3 end\n',
    # control flow, labels, loops
    b'::l::\ngoto l\n', b'for i=1,2,3 do\nend\n', b'for i = 1, 2 do\nbreak\nend\n', b'for k, v, w in pairs(t) do\nend\n',
    b'while a do\nbreak\nend\n', b'repeat\nlocal x = 1\nuntil x\n', b'do\nend\n', b'do\ndo\ndo\nx = 1\nend\nend\nend\n',
    b'if a then\nelseif b then\nelseif c then\nelse\nend\n', b'if a then\nx = 1\nend\n', b'if a then x = 1 else y = 2 end\n',
    # short if (line scoped)
    b'if (x) a = 1\nb = 2\n', b'if (x) a = 1 else b = 2\nc = 3\n', b'if (x) a = 1 -- note\nb = 2\n', b'if (x) return\n', b'if (x) a = 1 b = 2\nc = 3\n',
    b'if (f(x)) g(y)\nz = 1\n', b'if ((a)) b = (c)\nd = 1\n', b'while a do\nif (b) break\nend\n', b'if (x) ?"s"\ny = 1\n',
    # assignments and operators
    b'a, b, c = 1, 2, 3\n', b'local a, b, c = f()\n', b'local x\n', b'x += 1\n', b'x ..= "s"\n', b't.a.b -= 2\n', b't[i] *= 2\n',
    b'x = a - -b\n', b'x = - - a\n', b'x = not not a\n', b'x = a .. b .. c\n', b'x = 1 .. 2\n', b'x = a != b\n', b'x = a ~= b\n', b'x = #t + -1\n',
    b'x = a and b or c\n', b'x = (a and b) or (c and d)\n', b'x = a < b == c\n', b'x = 2 ^ -3 ^ 2\n', b'x = a % b // c\n' if False else b'x = a % b\n',
    # numbers and strings
    b'x = 0x1f + 0x.8 + 0b101 + 1e5 + 1.5e-2 + .5 + 1.\n', b'x = "a\\"b" .. \'c\\\'d\' .. [[e]] .. [==[f]]g]==]\n', b'x = "\\065\\x41\\n"\n',
    b'x = \x80\x81 + 1\n',
    # comments and empty statements
    b'-- only a comment\n', b'x = 1 -- trailing\n', b'--[[ block ]] x = 1\n', b'x = --[[ inline ]] 1\n', b'// c style\nx = 1\n',
    b'--[[ multi\nline ]]\nx = 1\n', b';\n', b';;\n', b'x = 1;\n', b'x = 1; y = 2;\n', b';x = 1\n', b'x = 1\n;\ny = 2\n',
    b'?"hello"\n',
]
