"""Witness programs for token adjacency (C01).  'No fusion' is only demanded for pairs of token classes that can stand
next to each other in SOME program of the dialect; this module generates small programs, written from the Lua 5.2
grammar + the PICO-8 extensions picotool implements, that put many class pairs next to each other.  A program counts
only if the REAL parser accepts it and consumes it to the last token (checked natively on every run), so a pair
wrongly listed here is dropped, never alarmed on.  Operators are passed in from the real parser tables.

The same programs are the corpus of the BOUNDED native run (minify -> reference tokenizer -> compare)."""

VALUES = [b'a', b'a.b', b'a[1]', b'f()', b'f(1)', b'(a)', b'{}', b'{1}', b'1', b'1.5', b'1.', b'.5', b'0x1f', b'0x1.8', b'0x.8',
          b'0b101', b'0b.1', b'1e5', b'1.5e-2', b'"s"', b"'s'", b'[[s]]', b'[=[s]=]', b'nil', b'true', b'false',
          b'function() end', b'a:m()', b'f"s"', b'f[[s]]', b'f{}', b'\x80\x81', b'?"s"']


def programs(binops, unops):
    """Yield byte programs.  binops / unops: operator spellings (bytes) of the real parser."""
    out = []

    def add(p):
        out.append(p if p.endswith(b'\n') else p + b'\n')
    seps = [b' ', b'']
    for v in VALUES:
        add(b'x = ' + v)
        add(b'x=' + v)
        add(b'return ' + v)
        add(b'f(' + v + b', ' + v + b')')
        add(b't = {' + v + b', k = ' + v + b'; [' + v + b'] = ' + v + b'}')
        add(b't[ ' + v + b' ] = ' + v)
        add(b'x = {' + v + b'}')
        add(b'x = ( ' + v + b' )')
        add(b'if ' + v + b' then x = ' + v + b' end')
        add(b'if (' + v + b') x = ' + v)
        add(b'if (' + v + b') x = ' + v + b' else y = ' + v)
        add(b'while ' + v + b' do x = ' + v + b' end')
        add(b'repeat x = ' + v + b' until ' + v)
        add(b'for i = ' + v + b', ' + v + b', ' + v + b' do end')
        add(b'for k, v in ' + v + b' do end')
        add(b'local x, y = ' + v + b', ' + v)
        add(b'x = ' + v + b' y = ' + v)
        add(b'x = ' + v + b'; y = ' + v)
        add(b'x += ' + v)
        add(b'x ..= ' + v)
        for u in unops:
            for sp in seps + [b' ' if u.isalpha() else b'']:
                add(b'x = ' + u + b' ' + v)
                add(b'x = ' + u + sp + v if not (u.isalpha() and sp == b'') else b'x = ' + u + b' ' + v)
    # string literals whose VALUE has a byte the writer must escape, followed by each kind of continuation (a digit extends a
    # decimal escape, a hex digit an \x escape): the writer re-spells strings, the value must survive
    for q in (b'"', b"'"):
        for byte in list(range(0, 16)) + [34, 39, 92, 127, 255]:
            for cont in (b'', b'0', b'7', b'8', b'9', b'a', b'f', b' ', b'\\n'):
                add(b'x = ' + q + (b'\\%03d' % byte) + cont + q)
        for lit in (b'a\\nb', b'\\\\', b'\\x41', b'\\65', b'\\065', b'\\9', b'\\0', b'tab\\there', b'\\x0a8', b'\\1\\2\\3', b'\\0001', b'\\a\\b\\f\\r\\t\\v'):
            add(b'x = ' + q + lit + q)
            add(b'f(' + q + lit + q + b', 8)')
    for b in binops:
        for v in VALUES:
            add(b'x = ' + v + b' ' + b + b' a')
            add(b'x = a ' + b + b' ' + v)
            add(b'x = ' + v + b' ' + b + b' ' + v)
            for u in unops:
                add(b'x = ' + v + b' ' + b + b' ' + u + b' ' + v)
        for b2 in binops:
            add(b'x = a ' + b + b' b ' + b2 + b' c')
    for u in unops:
        for u2 in unops:
            add(b'x = ' + u + b' ' + u2 + b' a')
    add(b'function f(...) return ... end')
    add(b'function f(...) local a, b = ... .. "x", "y" .. ... return a .. ... end')
    add(b'function f(...) x = {...} y = f(...) z = ... == nil end')
    add(b'function f(a, b, ...) return a, b, ... end')
    add(b'function a.b.c:m(x) return self end')
    add(b'local function f() end')
    add(b'local f = function(a) return a end')
    add(b'goto done ::done::')
    add(b'::top:: x = 1 goto top')
    add(b'do local x = 1 end do end')
    add(b'while true do break end')
    add(b'for i = 1, 2 do if i then break end end')
    add(b'if a then elseif b then else end')
    add(b'if a then x = 1 elseif b then x = 2 else x = 3 end x = 4')
    add(b'f() g() h()')
    add(b'f()\ng()\n')
    add(b'a.b.c = 1 a.b["k"].d = 2 a[1][2] = 3')
    add(b'a:m(1):n(2).k = 3')
    add(b'f{1}{2}"s"[[t]]')
    add(b'x = t[ [[k]] ]')
    add(b'x = t[ [=[k]=] ]')
    add(b'x = {[ [[k]] ] = 1}')
    add(b'x = a - -b')
    add(b'x = a - - -b')
    add(b'x = a .. ...')
    add(b'x = a .. .5')
    add(b'x = 1. .. "s"')
    add(b'x = 1 .. 2')
    add(b'x = "a" .. "b" .. [[c]]')
    add(b'x = #t + #"s"')
    add(b'x = not not a')
    add(b'x = - - a')
    add(b'?"hi"\n?x\n')
    add(b'if (a) ?"s"\nx = 1')
    add(b'if (a) x = 1 y = 2\nz = 3')
    add(b'if (a) x = 1 else y = 2\nz = 3')
    add(b'if (a) return\nx = 1')
    add(b'-- title\n-- author\nx = 1 -- trailing\ny = 2 // other\n')
    add(b'--[[ block ]] x = 1 --[[ in ]] y = 2')
    add(b'x = 1 --[[ multi\nline ]] y = 2')
    add(b'x = [[multi\nline]] y = "a\\\nb"')
    add(b'x = "\\0001" y = "\\x41\\65\\n\\"" z = \'\\\'\'')
    add(b'a, b = b, a')
    add(b'a, b.c, d[1] = 1, 2, 3')
    add(b'local a <const> = 1' if False else b'local a = 1')
    add(b'x = a and b or c')
    add(b'x = a<b y = a>b z = a<=b w = a>=b v = a~=b u = a!=b t = a==b')
    add(b'x = a<<b y = a>>b z = a>>>b w = a<<>b v = a>><b u = a^^b')
    add(b'x = a\\b y = a&b z = a|b w = ~a v = @a u = %a t = $a')
    add(b'x = a%b y = a^b z = a*b w = a/b')
    add(b'x=1;;y=2;')
    add(b'return')
    add(b'return;')
    add(b'x = function(...) end')
    add(b'x = {f = function() end, [1] = 2; 3}')
    add(b'x = {a, b; c}')
    add(b'\x80 = \x81\x82 + \xff')
    seen, res = set(), []
    for p in out:
        if p not in seen:
            seen.add(p)
            res.append(p)
    return res


# Tokens that cannot be the LAST token of a statement or of an expression list in any program of the dialect (binary and
# unary operators, openers, separators, assignment).  A line break right after one of them cannot end a short-if, a `?`
# statement or any other line-scoped construct, so the property does not require it to be kept.  Deliberately
# conservative: a token missing here only makes the check stricter where the current code is strict anyway.
NO_STATEMENT_END = (b'+', b'-', b'*', b'/', b'%', b'^', b'#', b'&', b'|', b'^^', b'~', b'<<', b'>>', b'>>>', b'<<>', b'>><', b'\\',
                    b'==', b'~=', b'!=', b'<=', b'>=', b'<', b'>', b'=', b'(', b'{', b'[', b';', b':', b',', b'.', b'..',
                    b'+=', b'-=', b'*=', b'/=', b'%=', b'..=', b'@', b'$')
NO_STATEMENT_END_KEYWORDS = (b'and', b'or', b'not')
