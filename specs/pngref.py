"""Reference PNG reader (8-bit RGBA, non-interlaced: signature, chunk CRCs, zlib, the five scan-line filters) and the PICO-8
steganographic unpack (2 bits per A,R,G,B channel), written from the PNG specification and the PICO-8 cart format --
independent of pypng and of pico8/game/formatter/p8png.py.  Used by the BOUNDED native runs of C04 and C16."""
import struct
import zlib


def png_decode(data):
    """independent PNG decoder: 8-bit RGBA, non-interlaced"""
    assert data[:8] == b'\x89PNG\r\n\x1a\n', 'signature'
    pos, idat, hdr = 8, b'', None
    while pos < len(data):
        ln, typ = struct.unpack('>I4s', data[pos:pos+8])
        body = data[pos+8:pos+8+ln]
        crc = struct.unpack('>I', data[pos+8+ln:pos+12+ln])[0]
        assert zlib.crc32(typ + body) & 0xffffffff == crc, 'crc of %r' % typ
        if typ == b'IHDR': hdr = struct.unpack('>IIBBBBB', body)
        elif typ == b'IDAT': idat += body
        elif typ == b'IEND': break
        pos += 12 + ln
    w, h, depth, ctype, comp, flt, inter = hdr
    assert (depth, ctype, inter) == (8, 6, 0), 'not RGBA8 non-interlaced: %r' % (hdr,)
    raw = zlib.decompress(idat)
    bpp, stride = 4, w * 4
    rows, prev, p = [], bytearray(stride), 0
    for y in range(h):
        f = raw[p]; line = bytearray(raw[p+1:p+1+stride]); p += 1 + stride
        for i in range(stride):
            a = line[i-bpp] if i >= bpp else 0
            b = prev[i]
            c = prev[i-bpp] if i >= bpp else 0
            if f == 1: line[i] = (line[i] + a) & 255
            elif f == 2: line[i] = (line[i] + b) & 255
            elif f == 3: line[i] = (line[i] + ((a + b) >> 1)) & 255
            elif f == 4:
                pa, pb, pc = abs(b - c), abs(a - c), abs(a + b - 2 * c)
                pr = a if pa <= pb and pa <= pc else (b if pb <= pc else c)
                line[i] = (line[i] + pr) & 255
        rows.append(line); prev = line
    return w, h, rows
def mem_from_pixels(w, h, rows):
    out = bytearray()
    for y in range(h):
        for x in range(w):
            r, g, b, a = rows[y][4*x:4*x+4]
            out.append(((a & 3) << 6) | ((r & 3) << 4) | ((g & 3) << 2) | (b & 3))
    return out
