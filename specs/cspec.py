"""CSpec: the PICO-8 ':c:' compressed-code format, written from the format description (not from picotool).

Code area:  ':c:\\0'  len_hi len_lo  0 0  <stream>  (zero padded).   The stream is a list of items:
   literal      one byte c, 1 <= c <= 59          -> one text byte TABLE[c]
   escaped      0x00, b                            -> one text byte b
   block        c >= 60, d                         -> ln = (d >> 4) + 2 bytes copied from off = (c - 60) * 16 + (d & 15)
                                                     bytes back, BYTE BY BYTE (so the source may overlap the destination);
                                                     well formed iff 3 <= ln <= 17 and 1 <= off <= bytes produced so far
A stream is described declaratively by its item boundaries: BO(j) / BP(j) = stream / text offset where item j starts
(j = 0..m).  Because the first byte of an item determines its kind and size, the item code is prefix free: any
decoder started at a boundary follows exactly these boundaries, so the description is unique.
"""
from pyvc.values import AND, OR, NOT, implies, ite, forall, SSeq


def repeats(T):
    """rep(a, l, o)  :<=>  T[a+k] == T[a+k-o] for all 0 <= k < l   (byte-by-byte copy, overlap allowed)."""
    return lambda a, l, o: forall(0, l, lambda k: T.get(a + k) == T.get(a + k - o))


def item_ok(S, T, tbl, bo, bp, bo2, bp2, rep=None):
    """Item at stream offset bo (ending at bo2) produces T[bp:bp2]."""
    rep = rep or repeats(T)
    c = S.get(bo)
    d = S.get(bo + 1)
    lit = AND(c >= 1, c <= 59, bo2 == bo + 1, bp2 == bp + 1, T.get(bp) == tbl(c))
    esc = AND(c == 0, bo2 == bo + 2, bp2 == bp + 1, T.get(bp) == d)
    off = (c - 60) * 16 + d % 16
    ln = d // 16 + 2
    blk = AND(c >= 60, bo2 == bo + 2, bp2 == bp + ln, ln >= 3, ln <= 17, off >= 1, off <= bp, rep(bp, ln, off))
    return OR(lit, esc, blk)


def well_formed(S, n, T, tl, m, BO, BP, tbl, rep=None):
    """S[0:n] is a well-formed stream of m items denoting the text T[0:tl]."""
    return AND(m >= 0, BO(0) == 0, BP(0) == 0, BO(m) == n, BP(m) == tl,
               forall(0, m, lambda j: AND(item_ok(S, T, tbl, BO(j), BP(j), BO(j + 1), BP(j + 1), rep),
                                          BO(j) >= 0, BP(j) >= 0, BO(j + 1) <= n, BP(j + 1) <= tl), 'j'))


FUTURE1 = b'if(_update60)_update=function()_update60()_update60()end'
FUTURE2 = b'if(_update60)_update=function()_update60()_update_buttons()_update60()end'


def unsuffix_len(T, n):
    """Length of the text once the 0.1.7-compatibility suffix PICO-8 appends (and the newline before it) is removed."""
    def ends(n0, suf):
        k = len(suf)
        return AND(n0 >= k, *[T.get(n0 - k + i) == suf[i] for i in range(k)])

    def cut(n0, suf):
        n1 = n0 - len(suf)
        return ite(ends(n0, suf), ite(AND(n1 >= 1, T.get(n1 - 1) == 10), n1 - 1, n1), n0)
    return cut(cut(n, FUTURE1), FUTURE2)


def decode(stream, table):
    """Independent reference decoder (plain python): (text, BO, BP), or None if the stream is not well formed."""
    S = list(stream)
    T, BO, BP, i = [], [0], [0], 0
    while i < len(S):
        c = S[i]
        if c == 0:
            if i + 1 >= len(S):
                return None
            T.append(S[i + 1])
            i += 2
        elif c <= 59:
            T.append(table[c])
            i += 1
        else:
            if i + 1 >= len(S):
                return None
            off, ln = (c - 60) * 16 + (S[i + 1] & 15), (S[i + 1] >> 4) + 2
            if not (3 <= ln <= 17 and 1 <= off <= len(T)):
                return None
            for _ in range(ln):
                T.append(T[len(T) - off])
            i += 2
        BO.append(i)
        BP.append(len(T))
    return bytes(T), BO, BP
