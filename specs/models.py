"""Plain models of the documented section semantics (C17) -- written from the PICO-8 memory
layout and the accessor documentation, independent of the accessor code.

All functions work on engine values (SInt / SSeq) and on plain python ints.
"""
from pyvc.values import ite, AND, OR, NOT, SSeq, seq_of

TRANSPARENT = 16


# ---------------------------------------------------------------- sprite sheet: 128x128 4-bit pixels
def nib(b, h):
    """Nibble h (0 = low = left pixel, 1 = high = right pixel) of byte b."""
    return ite(h == 0, b % 16, (b // 16) % 16) if not isinstance(h, int) else (b % 16 if h == 0 else (b // 16) % 16)


def pixel(gfx, x, y):
    """Pixel (x, y), 0 <= x, y < 128, of the sheet stored in the 8192 gfx bytes."""
    b = gfx.get(y * 64 + x // 2)
    return ite(x % 2 == 0, b % 16, (b // 16) % 16)


def sprite_pixel(gfx, id, r, c):
    """Pixel at row r / column c of the sprite whose top-left tile is `id`; off-sheet = 0."""
    ty = id // 16 + r // 8
    tx = id % 16 + c // 8
    off = OR(tx > 15, ty > 15)
    return ite(off, 0, pixel(gfx, ite(off, 0, tx * 8 + c % 8), ite(off, 0, ty * 8 + r % 8)))


def sprite_row(gfx, id, r, ncols):
    return seq_of(ncols, lambda c: sprite_pixel(gfx, id, r, c), 'bytes')


def painted_nibble(old, sprite, fx, fy, x, y, rows_done, cur_cols=None):
    """New value of sheet pixel (x, y) after painting rows [0, rows_done) of `sprite` (and, if
    cur_cols is given, columns [0, cur_cols) of row `rows_done`) with its top-left at (fx, fy).
    Pixels falling outside the sheet are clipped simply because no (x, y) < 128 maps to them."""
    r = y - fy
    c = x - fx
    inrow = AND(r >= 0, r < rows_done)
    if cur_cols is not None:
        inrow = OR(inrow, AND(r == rows_done, c < cur_cols, r >= 0, r < sprite.n))
    rr = ite(AND(r >= 0, r < sprite.n), r, 0)
    row = sprite.get(rr)
    row = row if isinstance(row, SSeq) else SSeq.of(row)
    cc = ite(AND(c >= 0, c < row.n), c, 0)
    val = row.get(cc)
    hit = AND(inrow, r >= 0, r < sprite.n, c >= 0, c < row.n, NOT(val == TRANSPARENT))
    return ite(hit, val, old)


def painted_byte(gfx0, sprite, fx, fy, loc, rows_done, cur_cols=None):
    y = loc // 64
    x0 = (loc % 64) * 2
    b = gfx0.get(loc)
    lo = painted_nibble(b % 16, sprite, fx, fy, x0, y, rows_done, cur_cols)
    hi = painted_nibble((b // 16) % 16, sprite, fx, fy, x0 + 1, y, rows_done, cur_cols)
    return lo + hi * 16


# ---------------------------------------------------------------- map: 128x64 cells, rows 32..63 in gfx
def map_cell(mapd, gfxd, x, y):
    if gfxd is None:
        return mapd.get(y * 128 + x)
    low = y <= 31
    return ite(low, mapd.get(ite(low, y * 128 + x, 0)), gfxd.get(ite(low, 4096, 4096 + (y - 32) * 128 + x)))


# ---------------------------------------------------------------- sfx notes: 16-bit little-endian words
def note_word(sfx, id, note):
    return sfx.get(id * 68 + note * 2) + sfx.get(id * 68 + note * 2 + 1) * 256


def word_fields(w):
    """(pitch, waveform 0..15, volume, effect) of a note word:
    pitch | (wf&7)<<6 | vol<<9 | eff<<12 | (wf>>3)<<15."""
    pitch = w % 64
    wf = (w // 64) % 8 + ((w // 32768) % 2) * 8
    vol = (w // 512) % 8
    eff = (w // 4096) % 8
    return pitch, wf, vol, eff


def fields_word(pitch, wf, vol, eff):
    return pitch + (wf % 8) * 64 + vol * 512 + eff * 4096 + (wf // 8) * 32768
