"""P8Spec / PngSpec: the PICO-8 on-disk formats, written from the format description
(PICO-8 manual 'cartridge data', the .p8 text layout and the .p8.png steganography), NOT from picotool.

.p8 sections
  __gfx__/__label__ : 128 rows of 128 pixel digits in SCREEN ORDER: pixel 2k of a row is the LOW nibble of byte k,
                      pixel 2k+1 the HIGH nibble.
  __gff__, __map__  : plain hex, 128 bytes (256 digits) per row, high digit first.
  __sfx__           : per pattern 168 digits: 4 header bytes (editor mode, speed, loop start, loop end), then 32 notes
                      of five digits  pp w v e ; memory holds the 64 note bytes first, then the 4 header bytes; a note
                      is the 16-bit little-endian word  pitch | (w&7)<<6 | v<<9 | e<<12 | (w>>3)<<15.
  __music__         : per pattern 'ff cccccccc': ff = flag byte (bit0 loop begin, bit1 loop end, bit2 stop), then the
                      four channel bytes with bit 7 cleared; in memory the three flags are bit 7 of channel bytes 0,1,2.
.p8.png             : byte b of cart memory at offset o = y*160 + x is spread over pixel (x, y): the two low bits of
                      A,R,G,B hold b>>6, b>>4, b>>2, b (each &3); memory = gfx 0x0000 | map 0x2000 | gff 0x3000 |
                      music 0x3100 | sfx 0x3200 | code 0x4300 | version 0x8000.
"""
from pyvc.values import ite, AND, OR, NOT, SSeq, seq_of
from specs.models import note_word, word_fields

NL = 10


def hexd(n):
    """ASCII code of lower-case hex digit n (0..15)."""
    return ite(n < 10, n + 48, n + 87)


def hi(b):
    return (b // 16) % 16


def lo(b):
    return b % 16


def hex_row(data, row, per_row):
    """Plain hex row: 2*per_row digits (high digit first) + newline."""
    def ch(j):
        jj = ite(j == 2 * per_row, 0, j)                            # the newline column reads no data
        b = data.get(row * per_row + jj // 2)
        return ite(j == 2 * per_row, NL, hexd(ite(j % 2 == 0, hi(b), lo(b))))
    return seq_of(2 * per_row + 1, ch, 'bytes')


def hex_rows(data, per_row):
    return seq_of(data.n // per_row, lambda r: hex_row(data, r, per_row), 'list')


def gfx_row(data, row):
    """128 pixel digits in screen order + newline (pixel 2k = LOW nibble of byte k)."""
    def ch(j):
        jj = ite(j == 128, 0, j)
        b = data.get(row * 64 + jj // 2)
        return ite(j == 128, NL, hexd(ite(j % 2 == 0, lo(b), hi(b))))
    return seq_of(129, ch, 'bytes')


def gfx_rows(data):
    return seq_of(data.n // 64, lambda r: gfx_row(data, r), 'list')


def sfx_row(data, id):
    """8 header digits + 32 x 5 note digits + newline = 169 chars."""
    def ch(j):
        hj = ite(j < 8, j, 0)
        hb = data.get(id * 68 + 64 + hj // 2)                      # header bytes follow the 64 note bytes
        head = hexd(ite(j % 2 == 0, hi(hb), lo(hb)))
        q = ite(AND(j >= 8, j < 168), j - 8, 0)
        note, d = q // 5, q % 5
        pitch, wf, vol, eff = word_fields(note_word(data, id, note))
        body = hexd(ite(d == 0, pitch // 16, ite(d == 1, pitch % 16, ite(d == 2, wf, ite(d == 3, vol, eff)))))
        return ite(j == 168, NL, ite(j < 8, head, body))
    return seq_of(169, ch, 'bytes')


def sfx_rows(data):
    return seq_of(64, lambda r: sfx_row(data, r), 'list')


def music_row(data, id):
    """'ff cccccccc\\n' (12 chars)."""
    def bit7(b):
        return (b // 128) % 2
    c = [data.get(id * 4 + k) for k in range(4)]
    flags = bit7(c[0]) + bit7(c[1]) * 2 + bit7(c[2]) * 4

    def ch(j):
        k = (j - 3) // 2
        cb = ite(k == 0, c[0], ite(k == 1, c[1], ite(k == 2, c[2], c[3]))) % 128
        digit = ite(j < 2, ite(j == 0, hi(flags), lo(flags)), ite((j - 3) % 2 == 0, hi(cb), lo(cb)))
        return ite(j == 11, NL, ite(j == 2, 32, hexd(digit)))
    return seq_of(12, ch, 'bytes')


def music_rows(data):
    return seq_of(data.n // 4, lambda r: music_row(data, r), 'list')


# ------------------------------------------------------------------ reading direction
def hexv(c):
    """Value of hex digit character c (either case)."""
    return ite(c <= 57, c - 48, ite(c <= 70, c - 55, c - 87))


def is_hex(c):
    return OR(AND(c >= 48, c <= 57), AND(c >= 65, c <= 70), AND(c >= 97, c <= 102))


def bytes_of_hex_rows(lines, per_row):
    return seq_of(lines.n * per_row, lambda i: hexv(lines.get(i // per_row).get(2 * (i % per_row))) * 16 +
                  hexv(lines.get(i // per_row).get(2 * (i % per_row) + 1)), 'bytes')


def bytes_of_gfx_rows(lines):
    # pixel digits in screen order: digit 2k is the LOW nibble of byte k
    return seq_of(lines.n * 64, lambda i: hexv(lines.get(i // 64).get(2 * (i % 64))) +
                  hexv(lines.get(i // 64).get(2 * (i % 64) + 1)) * 16, 'bytes')


# ------------------------------------------------------------------ .p8.png
def png_byte(row, x):
    """Cart byte hidden in pixel x of an RGBA8 row."""
    r, g, b, a = (row.get(x * 4 + k) for k in range(4))
    return (a % 4) * 64 + (r % 4) * 16 + (g % 4) * 4 + (b % 4)


def png_channel(orig, byte, ch):
    """New value of channel ch (0=R,1=G,2=B,3=A) of a pixel carrying `byte`: upper six bits of the label kept."""
    shift = {0: 16, 1: 4, 2: 1, 3: 64}[ch]
    return (orig // 4) * 4 + (byte // shift) % 4


MEMORY_MAP = (('gfx', 0x0000, 0x2000), ('map', 0x2000, 0x3000), ('gff', 0x3000, 0x3100),
              ('music', 0x3100, 0x3200), ('sfx', 0x3200, 0x4300), ('code', 0x4300, 0x8000), ('version', 0x8000, 0x8001))
