"""Counter-model -> concrete inputs -> the REAL function in the REAL interpreter -> contract
clauses evaluated on the observed concrete pre/post state."""
import json
import os
import subprocess
import z3

from . import values as V
from .values import E, SInt, SBool, SSeq, SOpt, Ref, SymErr, toint, tobool
from .execu import State
from .contract import Kit, Result
from . import source

SEQ_CAP = 200000
RUNNER = os.path.join(os.path.dirname(os.path.abspath(__file__)), 'runner312.py')


class ModelView:
    def __init__(self, model):
        self.m = model

    def ev(self, t):
        return self.m.eval(t, model_completion=True)

    def int(self, v):
        if isinstance(v, bool):
            return int(v)
        if isinstance(v, int):
            return v
        if isinstance(v, SBool):
            return int(self.bool(v))
        r = self.ev(toint(v))
        if z3.is_bv_value(r):
            return r.as_signed_long()
        if z3.is_int_value(r):
            return r.as_long()
        r = z3.simplify(r)
        if z3.is_bv_value(r):
            return r.as_signed_long()
        return r.as_long()

    def bool(self, v):
        if isinstance(v, bool):
            return v
        return z3.is_true(z3.simplify(self.ev(tobool(v))))

    def array(self, arr):
        """(default, {index: value}) of an Int/BV-indexed array in the model, or None."""
        def num(t):
            t = z3.simplify(t)
            if z3.is_bv_value(t):
                return t.as_long() if t.size() == 8 else t.as_signed_long()
            if z3.is_int_value(t):
                return t.as_long()
            raise ValueError
        try:
            t = self.ev(arr)
            d = {}
            while True:
                if z3.is_store(t):
                    i, x = num(t.arg(1)), num(t.arg(2))
                    d.setdefault(i, x)
                    t = t.arg(0)
                elif z3.is_K(t):
                    return num(t.arg(0)), d
                elif z3.is_as_array(t):
                    fi = self.m[z3.get_as_array_func(t)]
                    for e in fi.as_list()[:-1]:
                        d.setdefault(num(e[0]), num(e[1]))
                    return num(fi.else_value()), d
                else:
                    return None
        except Exception:
            return None

    def value(self, v):
        """Concrete engine value (python ints / concrete SSeq / tuples / None) of a symbolic value."""
        if v is None or isinstance(v, (str, bytes)):
            return v
        if isinstance(v, bool):
            return v
        if isinstance(v, (int,)):
            return v
        if isinstance(v, SBool):
            return self.bool(v)
        if isinstance(v, SInt):
            return self.int(v)
        if isinstance(v, SOpt):
            return None if self.bool(v.isnone) else self.value(v.val)
        if isinstance(v, tuple):
            return tuple(self.value(x) for x in v)
        if isinstance(v, SSeq):
            n = self.int(v.n)
            if n > SEQ_CAP:
                raise SymErr('counter-model sequence longer than replay cap (%d)' % n)
            if v.arr is not None and n > 32:
                tab = self.array(v.arr)
                if tab is not None:
                    dflt, d = tab
                    return SSeq.of([d.get(i, dflt) for i in range(n)], v.kind)
            items = [self.value(v.get(i)) for i in range(max(0, n))]
            return SSeq.of(items, v.kind)
        if isinstance(v, (Ref, dict)):
            return v
        if type(v).__name__ in ('ClassVal',):
            return v
        if isinstance(v, list):
            return [self.value(x) for x in v]
        raise SymErr('cannot concretise %r' % (v,))


def concrete_state(st, mv):
    c = State()
    for cid, h in st.heap.items():
        if isinstance(h, dict):
            c.heap[cid] = {f: mv.value(x) for f, x in h.items()}
        else:
            c.heap[cid] = mv.value(h)
    return c


def items_of(sq):
    return [sq.get(i) for i in range(sq.n)]


def tree(v, st, seen=None):
    """Tagged tree (see runner312) of a CONCRETE engine value."""
    seen = seen if seen is not None else set()
    if v is None:
        return {'t': 'none'}
    if isinstance(v, bool):
        return {'t': 'bool', 'v': v}
    if isinstance(v, int):
        return {'t': 'int', 'v': v}
    if isinstance(v, bytes):
        return {'t': 'bytes', 'v': v.hex()}
    if isinstance(v, str):
        return {'t': 'str', 'v': v}
    if isinstance(v, tuple):
        return {'t': 'tuple', 'v': [tree(x, st, seen) for x in v]}
    if isinstance(v, dict):
        return {'t': 'dict', 'v': {k: tree(x, st, seen) for k, x in v.items()}}
    if type(v).__name__ == 'ClassVal':
        return {'t': 'class', 'cls': v.qual}
    if isinstance(v, SSeq):
        its = items_of(v)
        if v.kind == 'bytes':
            return {'t': 'bytes', 'v': bytes(x & 255 for x in its).hex()}
        if v.kind == 'str':
            return {'t': 'str', 'v': ''.join(chr(x) for x in its)}
        if v.kind == 'tuple':
            return {'t': 'tuple', 'v': [tree(x, st, seen) for x in its]}
        return {'t': 'ilist', 'v': [tree(x, st, seen) for x in its]}
    if isinstance(v, Ref):
        h = st.heap[v.id]
        if isinstance(h, dict):
            if v.id in seen:
                return {'t': 'obj', 'id': v.id, 'cls': v.tag, 'f': {}}
            seen.add(v.id)
            return {'t': 'obj', 'id': v.id, 'cls': v.tag, 'f': {f: tree(x, st, seen) for f, x in h.items()}}
        its = items_of(h)
        if v.tag == 'bytearray':
            return {'t': 'bytearray', 'id': v.id, 'v': bytes(x & 255 for x in its).hex()}
        return {'t': 'list', 'id': v.id, 'v': [tree(x, st, seen) for x in its]}
    raise SymErr('tree of %r' % (v,))


def untree(t, st, alloc=False):
    """Engine value of an OUTPUT tree (alloc=True: new mutable objects become heap cells of st / Refs)."""
    k = t['t']
    if alloc and k == 'obj':
        rec = {f: untree(x, st, True) for f, x in t['f'].items()}
        return st.alloc(rec, t['cls'])
    if alloc and k == 'bytearray':
        return st.alloc(SSeq.of(bytes.fromhex(t['v'])), 'bytearray')
    if alloc and k == 'list':
        return st.alloc(SSeq.of([untree(x, st, True) for x in t['v']], 'list'), 'list')
    if k in ('int', 'bool', 'str'):
        return t['v']
    if k == 'none':
        return None
    if k == 'bytes':
        return SSeq.of(bytes.fromhex(t['v']))
    if k == 'tuple':
        return tuple(untree(x, st) for x in t['v'])
    if k == 'bytearray':
        return SSeq.of(bytes.fromhex(t['v']))
    if k in ('list', 'ilist'):
        return SSeq.of([untree(x, st) for x in t['v']], 'list')
    if k == 'dict':
        return {kk: untree(v, st) for kk, v in t['v'].items()}
    if k == 'obj':
        return {'__cls__': t['cls'], **{f: untree(x, st) for f, x in t['f'].items()}}
    return t.get('v')


def run_real(target, args_tree, order, mode='call', timeout=120):
    env = dict(os.environ)
    env['PYTHONPATH'] = source.REPO
    env['PYTHONDONTWRITEBYTECODE'] = '1'
    req = {'target': target, 'args': args_tree, 'order': order, 'mode': mode}
    r = subprocess.run([source.REAL_PY, RUNNER], input=json.dumps(req), capture_output=True, text=True,
                       env=env, cwd='/', timeout=timeout)
    if r.returncode != 0:
        raise RuntimeError('runner failed: ' + r.stderr[-1500:])
    return json.loads(r.stdout)


def truth_of(v, axioms):
    """Truth value of a closed clause."""
    if isinstance(v, bool):
        return v
    t = z3.simplify(tobool(v))
    if z3.is_true(t):
        return True
    if z3.is_false(t):
        return False
    s = z3.Solver()
    s.set('timeout', 20000)
    for a in axioms:
        s.add(a)
    s.add(z3.Not(t))
    r = s.check()
    if r == z3.unsat:
        return True
    if r == z3.sat:
        return False
    return None


def param_order(fsrc):
    a = fsrc.node.args
    return [x.arg for x in a.posonlyargs + a.args]


def replay_model(contract, rep, model):
    """Concretise a counter-model, run the real function, judge with the contract.

    Returns dict(inputs=tree, observed=..., failing=[clause names], confirmed=bool)."""
    K, a = rep.setup
    mv = ModelView(model)
    pre = concrete_state(K.st, mv)
    ca = {k: mv.value(v) for k, v in a.items()}
    return judge_concrete(contract, rep, pre, ca)


def judge_concrete(contract, rep, pre, ca):
    E.reset(contract.mode)
    E.axioms = list(rep.axioms)
    E.concrete = True
    order = [p for p in param_order(rep.fn) if p in ca]
    args_tree = {k: tree(v, pre) for k, v in ca.items() if not k.startswith('__')}      # '__x' = ghost arguments
    out = run_real(contract.target, args_tree, order, 'gen' if getattr(contract, 'generator', False) else 'call')
    post = pre.copy()
    for cid, t in out['heap'].items():
        cid = int(cid)
        if cid in post.heap:
            if isinstance(post.heap[cid], dict):
                # object record: refresh scalar fields, keep references
                rec = dict(post.heap[cid])
                for f, x in t.get('f', {}).items():
                    if f in rec and not isinstance(rec[f], Ref):
                        rec[f] = untree(x, post)
                post.heap[cid] = rec
            else:
                kind = post.heap[cid].kind
                post.heap[cid] = untree(t, post).with_kind(kind)
    Kpre, Kpost = Kit(pre), Kit(post)
    failing = []
    allowed = contract.raises(Kpre, ca)
    if out['exc'] is not None:
        res = Result('raise', None, out['exc'])
        cond = allowed.get(out['exc'], False)
        if out['exc'] in getattr(contract, 'raises_in_ensures', ()):
            cond = True
        if truth_of(cond, E.axioms) is not True:
            failing.append('unexpected exception %s: %s' % (out['exc'], out['exc_msg']))
    else:
        res = Result('return', untree(out['result'], post, alloc=getattr(contract, 'result_is_object', False)))
        for exc, cond in allowed.items():
            if truth_of(cond, E.axioms) is not False:
                failing.append('must-raise.%s' % exc)
    Kpost.st.locals['__observed__'] = True
    if not (out['exc'] is not None and failing):
        try:
            for nm, cl in contract.ensures(Kpost, ca, Kpre, res):
                if truth_of(cl, E.axioms) is False:
                    failing.append('post.' + nm)
            for j, (ref, want) in enumerate((contract.update(Kpre, ca) or []) if out['exc'] is None else []):
                if truth_of(V.seq_eq(Kpost.st.seq(ref), want), E.axioms) is False:
                    failing.append('post.update%d' % j)
        except (SymErr, IndexError, KeyError, TypeError, AttributeError) as e:
            failing.append('post-state has not the contracted shape: %r' % (e,))
    small = {k: _short(t) for k, t in args_tree.items()}
    return {'inputs': small, 'inputs_full': args_tree, 'observed_exc': out['exc'], 'observed_exc_msg': out['exc_msg'],
            'observed_result': _short(out['result']) if out['result'] else None,
            'failing': failing, 'confirmed': bool(failing)}


def _short(t, lim=160):
    if isinstance(t, dict):
        r = {}
        for k, v in t.items():
            if k == 'v' and isinstance(v, str) and len(v) > lim:
                r[k] = v[:lim] + '...(%d hex chars)' % len(v)
            elif k == 'v' and isinstance(v, list) and len(v) > 24:
                r[k] = [_short(x, lim) for x in v[:24]] + ['...(%d items)' % len(v)]
            else:
                r[k] = _short(v, lim)
        return r
    if isinstance(t, list):
        return [_short(x, lim) for x in t]
    return t
