"""CLI: ./check <id> --tier quick|thorough   (exit 0 held / 1 violation / 2 undecided / 3 internal error)"""
import argparse
import importlib
import json
import os
import sys
import traceback

HERE = os.path.dirname(os.path.dirname(os.path.abspath(__file__)))
sys.path.insert(0, HERE)
sys.setrecursionlimit(20000)


def main():
    ap = argparse.ArgumentParser()
    ap.add_argument('prop')
    ap.add_argument('--tier', default=os.environ.get('VERIF_TIER', 'quick'), choices=['quick', 'thorough'])
    ap.add_argument('--replay')
    args = ap.parse_args()
    seed = int(os.environ.get('VERIF_SEED', '0') or 0)
    prop = args.prop.upper()
    try:
        mod = importlib.import_module('checks.' + prop.lower())
        if args.replay:
            return mod.replay(args.replay) if hasattr(mod, 'replay') else generic_replay(args.replay)
        return mod.run(args.tier, seed)
    except Exception:
        traceback.print_exc()
        print('ERROR internal error in check %s' % prop)
        return 3


def generic_replay(path):
    from pyvc import replay as RP, units
    from pyvc.contract import verify
    d = json.load(open(path))
    reg = units.registry()
    c = reg[d['function']]
    rep = verify(c, reg)
    from pyvc.execu import State
    pre, ca = RP.from_trees(d['inputs_full'])
    r = RP.judge_concrete(c, rep, pre, ca)
    print(json.dumps({k: r[k] for k in ('observed_exc', 'observed_exc_msg', 'failing', 'confirmed')}, indent=1))
    if r['confirmed']:
        print('VIOLATION property=%s replay=%s' % (d['property'], path))
        return 1
    return 0


if __name__ == '__main__':
    sys.exit(main())
