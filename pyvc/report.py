"""Check driver shared by all properties: run units, replay failures, known findings, evidence."""
import hashlib
import json
import os
import re
import sys
import time
import traceback

VERIF = os.path.dirname(os.path.dirname(os.path.abspath(__file__)))
EXIT_OK, EXIT_VIOLATION, EXIT_UNDECIDED, EXIT_ERROR = 0, 1, 2, 3


def load_known(prop):
    path = os.path.join(VERIF, 'known_findings.jsonl')
    out = []
    if os.path.exists(path):
        for line in open(path):
            line = line.strip()
            if not line or line.startswith('#'):
                continue
            d = json.loads(line)
            if d.get('property') == prop:
                out.append(d)
    return out


class Check:
    """Accumulates everything one property check did; writes evidence; decides the exit code."""

    def __init__(self, prop, level, tier, seed):
        self.prop, self.level, self.tier, self.seed = prop, level, tier, seed
        self.t0 = time.time()
        self.obligations = 0
        self.discharged = 0
        self.by_backend = {}
        self.functions = []
        self.samples = []
        self.assumptions = []
        self.trusted = []
        self.violations = []        # dicts(obligation, replay_path, confirmed)
        self.known_hits = []
        self.undecided = []
        self.errors = []
        self.bounded = {}
        self.extra = {}
        self.conformance_runs = 0
        self.known = load_known(prop)
        self.structural_fail = []       # (name, detail) of failed shape obligations, resolved in finish()
        self.native_witness = None      # failing inputs found by the check's bounded native run, if any
        repo = os.environ.get('VERIF_REPO', '/repo')
        if repo == '/repo':
            self.replay_dir = os.path.join(VERIF, 'replays', prop)
        else:
            # one directory per scratch copy, so that concurrent runs against different copies do not delete each other's replay
            # files; directories of copies that no longer exist are removed
            import hashlib
            import shutil
            root = os.path.join(VERIF, '.scratch_replays')
            tag = hashlib.sha1(os.path.abspath(repo).encode()).hexdigest()[:10]
            self.replay_dir = os.path.join(root, tag, prop)
            os.makedirs(self.replay_dir, exist_ok=True)
            with open(os.path.join(root, tag, '.repo'), 'w') as fh:
                fh.write(os.path.abspath(repo))
            for d in os.listdir(root):
                marker = os.path.join(root, d, '.repo')
                try:
                    gone = not os.path.isdir(open(marker).read().strip()) if os.path.exists(marker) else d != tag
                except OSError:
                    gone = False
                if gone and d != tag:
                    shutil.rmtree(os.path.join(root, d), ignore_errors=True)
        if os.path.isdir(self.replay_dir) and not os.environ.get('VERIF_KEEP_REPLAYS'):
            for f in os.listdir(self.replay_dir):          # replay files describe THIS run only
                if f.endswith('.json'):
                    os.unlink(os.path.join(self.replay_dir, f))

    # ------------------------------------------------------------------ accounting
    def count(self, backend, status, secs, name=None, size=None):
        self.obligations += 1
        b = self.by_backend.setdefault(backend, {'obligations': 0, 'discharged': 0, 'solver_s': 0.0})
        b['obligations'] += 1
        b['solver_s'] = round(b['solver_s'] + secs, 4)
        if status == 'discharged':
            self.discharged += 1
            b['discharged'] += 1
        if name is not None and len(self.samples) < 14 and (self.obligations % 7 == 1 or len(self.samples) < 4):
            s = {'obligation': name, 'backend': backend, 'status': status}
            if size is not None:
                s['formula_size'] = size
            self.samples.append(s)

    def assume(self, text):
        if text not in self.assumptions:
            self.assumptions.append(text)

    def trust(self, text):
        if text not in self.trusted:
            self.trusted.append(text)

    def undecide(self, what):
        self.undecided.append(what)

    def error(self, what):
        self.errors.append(what)

    # ------------------------------------------------------------------ violations
    def write_replay(self, obligation, payload):
        os.makedirs(self.replay_dir, exist_ok=True)
        safe = re.sub(r'[^A-Za-z0-9_.-]+', '_', obligation)[:150]
        path = os.path.join(self.replay_dir, safe + '.json')
        payload = dict(payload)
        payload['property'] = self.prop
        payload['obligation'] = obligation
        with open(path, 'w') as fh:
            json.dump(payload, fh, indent=1, default=str)
        return path

    def violation(self, obligation, payload, confirmed):
        path = self.write_replay(obligation, payload)
        self.violations.append({'obligation': obligation, 'replay': path, 'confirmed': confirmed})
        return path

    def known_hit(self, entry, still_reproduces):
        self.known_hits.append((entry, still_reproduces))

    # ------------------------------------------------------------------ finish
    def finish(self, explanation=None, checker_cmd=None):
        for name, detail in self.structural_fail:
            if self.native_witness:
                self.violation(name, {'witness': detail, 'native_witness': self.native_witness[:3],
                                      'solver': 'structural obligation on the real source failed; concrete failing input from the bounded native run'}, True)
            else:
                self.undecide('%s -- the source no longer has the shape this obligation was written for and the bounded run found no '
                              'failing input: the contract must be re-derived (%s)' % (name, str(detail)[:200]))
        wall = time.time() - self.t0
        cov = {
            'obligations': self.obligations,
            'discharged': self.discharged,
            'checker_cmd': checker_cmd or ('./check %s --tier %s' % (self.prop, self.tier)),
            'trusted_base': self.trusted,
            'samples': self.samples or [{'note': 'no obligation generated'}],
            'functions_under_contract': self.functions,
            'by_backend': self.by_backend,
            'undecided': self.undecided[:20],
            'conformance_runs': self.conformance_runs,
        }
        if explanation:
            cov['explanation'] = explanation
        if self.bounded:
            cov['bounded'] = self.bounded
        cov.update(self.extra)
        ev = {'property_id': self.prop, 'tier': self.tier, 'seed': self.seed, 'level': self.level,
              'coverage': cov, 'assumptions': self.assumptions, 'wall_s': round(wall, 3),
              'violations': len(self.violations)}
        # evidence/ holds runs against /repo itself only; runs against a scratch copy (canaries, seeded changes) go elsewhere
        evdir = 'evidence' if os.environ.get('VERIF_REPO', '/repo') == '/repo' else '.scratch_evidence'
        os.makedirs(os.path.join(VERIF, evdir), exist_ok=True)
        with open(os.path.join(VERIF, evdir, self.prop + '.json'), 'w') as fh:
            json.dump(ev, fh, indent=1, default=str)
        for entry, ok in self.known_hits:
            print('KNOWN-FINDING: property=%s %s%s' % (self.prop, entry['what'],
                                                        '' if ok else ' (listed witness no longer reproduces)'))
        for v in self.violations:
            tail = '' if v['confirmed'] else ' no-failing-input-found'
            print('VIOLATION property=%s replay=%s%s' % (self.prop, v['replay'], tail))
            print('  failed obligation: %s' % v['obligation'])
        print('%s %s: %d/%d obligations discharged, %d violation(s), %d undecided, %.1fs' % (
            self.prop, self.tier, self.discharged, self.obligations, len(self.violations),
            len(self.undecided), wall))
        for e in self.errors:
            print('ERROR %s' % e)
        if self.violations and (not self.errors or any(v['confirmed'] for v in self.violations)):
            return EXIT_VIOLATION          # a violation confirmed on the real code stands even if another part of the check crashed
        if self.errors:
            return EXIT_ERROR
        if self.undecided:
            for u in self.undecided[:20]:
                print('UNDECIDED %s' % u)
            return EXIT_UNDECIDED
        if self.obligations == 0:
            print('ERROR no obligation was generated (vacuous run)')
            return EXIT_ERROR
        return EXIT_OK
