"""Symbolic executor over the ast of real repository functions.

Forward, path-forking with state merging at if-joins, loops cut at invariants
(or unrolled exactly when the iteration space is concrete), calls modular
(callee contract) or explicitly inlined.  Every implicit Python exception
(IndexError, AssertionError, ValueError on a bytearray store, TypeError of a
None operand, ZeroDivisionError) is an obligation 'does not happen'.
"""
import ast
import z3

from . import values as V
from .values import (E, SInt, SBool, SSeq, SOpt, Ref, SymMap, SymErr, toint, tobool, ite, vite,
                     AND, OR, NOT, implies, merge_values, val_eq)
from . import source

UNROLL_LIMIT = 72
_cell = [0]


def new_cell_id():
    _cell[0] += 1
    return _cell[0]


class NeedFork(Exception):
    def __init__(self, cond):
        self.cond = cond


class Obligation:
    __slots__ = ('name', 'hyps', 'goal', 'kind', 'line', 'status', 'model', 'secs', 'backend', 'info')

    def __init__(self, name, hyps, goal, kind, line=None, info=None):
        self.name, self.hyps, self.goal, self.kind, self.line = name, hyps, goal, kind, line
        self.status = None
        self.model = None
        self.secs = 0.0
        self.backend = None
        self.info = info or {}


class State:
    def __init__(self):
        self.locals = {}
        self.heap = {}
        self.pc = []
        self.written = set()
        self.trace = []          # ghost effect trace (used by effect contracts)

    def copy(self):
        s = State()
        s.locals = dict(self.locals)
        s.heap = dict(self.heap)
        s.pc = list(self.pc)
        s.written = set(self.written)
        s.trace = list(self.trace)
        return s

    def assume(self, c):
        if c is True:
            return
        self.pc.append(tobool(c))

    def alloc(self, value, tag):
        i = new_cell_id()
        self.heap[i] = value
        return Ref(i, tag)

    def seq(self, v):
        """Sequence value behind v (deref mutable)."""
        if isinstance(v, Ref):
            h = self.heap[v.id]
            if isinstance(h, (dict, SymMap)):
                raise SymErr('object used as sequence')
            return h
        return SSeq.of(v)

    def write_cell(self, ref, value):
        self.heap[ref.id] = value
        self.written.add(ref.id)


class Outcome:
    __slots__ = ('kind', 'st', 'val')

    def __init__(self, kind, st, val=None):
        self.kind, self.st, self.val = kind, st, val


class Raised:
    """Value of a 'raise' outcome."""
    def __init__(self, exc, implicit=False):
        self.exc = exc


def feasible(pc, extra=None, timeout=2000):
    s = z3.Solver()
    s.set('timeout', timeout)
    for a in E.axioms:
        s.add(a)
    for c in pc:
        s.add(c)
    if extra is not None:
        s.add(extra)
    return s.check() != z3.unsat


class Exec:
    def __init__(self, fsrc, contract, registry, obls, prefix=None, depth=0):
        self.f = fsrc
        self.c = contract
        self.reg = registry
        self.obls = obls
        self.prefix = prefix or fsrc.qual
        self.modinfo = source.module_info(fsrc.module)
        self.loop_ord = {}
        self.depth = depth
        n = 0
        for node in ast.walk(fsrc.node):
            if isinstance(node, (ast.For, ast.While)):
                n += 1
                self.loop_ord[id(node)] = n
        self.assumptions = set()
        self._obn = {}
        self._dedupe = set()
        self._collector = None
        self.abstract_calls = False
        self.is_generator = any(isinstance(n, (ast.Yield, ast.YieldFrom)) for n in ast.walk(fsrc.node))

    # ----------------------------------------------------------- obligations
    def oblige(self, st, goal, kind, node=None, extra_hyps=()):
        if goal is True:
            goal = z3.BoolVal(True)
        if goal is False:
            goal = z3.BoolVal(False)
        line = getattr(node, 'lineno', None)
        base = '%s/L%s/%s' % (self.prefix, line if line is not None else '-', kind)
        k = self._obn.get(base, 0) + 1
        self._obn[base] = k
        name = base if k == 1 else '%s#%d' % (base, k)
        hyps = list(st.pc) + list(extra_hyps)
        g = tobool(goal)
        key = (tuple(h.get_id() for h in hyps), g.get_id())
        if key in self._dedupe:
            self._obn[base] = k - 1
            return
        self._dedupe.add(key)
        ob = Obligation(name, hyps, g, kind, line)
        ob.info['key'] = key
        self.obls.append(ob)

    def rollback(self, nobl, nkeys):
        for ob in self.obls[nobl:]:
            self._dedupe.discard(ob.info.get('key'))
        del self.obls[nobl:]
        self._obn = nkeys

    def with_sink(self, st, node, fn):
        """Run fn(); the arithmetic side conditions it raises (no-wrap, division by zero, ...) are batched into
        ONE obligation per outermost evaluation, each guarded by the path-condition suffix current when raised."""
        act = self._collector
        if act is not None and act[0] is st:
            return fn()
        n0 = len(st.pc)
        conds = []

        def sink(cond, what):
            g = st.pc[n0:]
            conds.append((z3.Implies(z3.And(*g), cond) if g else cond, what))
        old_sink, old_col = E.sink, self._collector
        E.sink, self._collector = sink, (st, conds)
        try:
            r = fn()
        finally:
            E.sink, self._collector = old_sink, old_col
        if conds:
            kinds = sorted({w for _, w in conds})
            saved = st.pc[n0:]
            del st.pc[n0:]
            try:
                self.oblige(st, z3.And(*[c for c, _ in conds]) if len(conds) > 1 else conds[0][0],
                            'safe:' + '+'.join(k.replace(' ', '-') for k in kinds)[:60], node)
            finally:
                st.pc.extend(saved)
        return r

    # ----------------------------------------------------------- truthiness
    def truth(self, v, st):
        if isinstance(v, (SBool,)):
            return v
        if isinstance(v, bool) or v is None:
            return bool(v)
        if isinstance(v, SInt):
            return v != 0
        if isinstance(v, int):
            return v != 0
        if isinstance(v, SOpt):
            return AND(NOT(v.isnone), self.truth(v.val, st))
        if isinstance(v, (bytes, str, tuple, list, dict, set, frozenset)):
            return len(v) > 0
        if isinstance(v, Ref):
            h = st.heap[v.id]
            if isinstance(h, dict):
                return True
            return self.truth(h, st)
        if isinstance(v, SSeq):
            n = v.n
            return n != 0 if not isinstance(n, int) else n != 0
        raise SymErr('truth of %r' % (v,))

    def oracle(self, st):
        """Context manager installing a solver-backed oracle for branch pruning under st's path condition."""
        ex = self

        class _O:
            def __enter__(s2):
                s2.old = E.oracle
                sol = z3.Solver()
                sol.set('timeout', 300)
                for a in E.axioms:
                    sol.add(a)
                for c in st.pc:
                    sol.add(c)

                def ask(t, guards):
                    sol.push()
                    try:
                        for g in guards:
                            sol.add(g)
                        sol.push()
                        sol.add(t)
                        r1 = sol.check()
                        sol.pop()
                        if r1 == z3.unsat:
                            return False
                        sol.add(z3.Not(t))
                        if sol.check() == z3.unsat:
                            return True
                        return None
                    finally:
                        sol.pop()
                E.oracle = ask

            def __exit__(s2, *a):
                E.oracle = s2.old
        return _O()

    def constant_of(self, v, st):
        """The python int c with  pc => v == c,  if there is one (constant propagation by the solver)."""
        if isinstance(v, int):
            return v
        s = z3.Solver()
        s.set('timeout', 2000)
        for a in E.axioms:
            s.add(a)
        for c in st.pc:
            s.add(c)
        if s.check() != z3.sat:
            return None
        m = s.model().eval(toint(v), model_completion=True)
        c = m.as_signed_long() if z3.is_bv_value(m) else (m.as_long() if z3.is_int_value(m) else None)
        if c is None:
            return None
        s.add(toint(v) != V.iconst(c))
        return c if s.check() == z3.unsat else None

    def decide(self, c, st):
        """Concrete bool for a condition, forking the statement if undetermined."""
        if isinstance(c, bool):
            return c
        t = tobool(c)
        if not feasible(st.pc, z3.Not(t)):
            return True
        if not feasible(st.pc, t):
            return False
        raise NeedFork(t)

    # ----------------------------------------------------------- expressions
    def ev(self, n, st):
        m = getattr(self, 'ev_' + type(n).__name__, None)
        if m is None:
            raise SymErr('expression %s (line %s)' % (type(n).__name__, getattr(n, 'lineno', '?')))
        return self.with_sink(st, n, lambda: m(n, st))

    def ev_Constant(self, n, st):
        return n.value

    def ev_Name(self, n, st):
        if n.id in st.locals:
            return st.locals[n.id]
        return self.global_name(n.id, n)

    def global_name(self, name, node=None):
        mi = self.modinfo
        if name in mi['consts']:
            return mi['consts'][name]
        if name in mi['funcs']:
            return FuncVal(mi['funcs'][name])
        if name in mi['modules']:
            return ModVal(mi['modules'][name])
        if name in mi['names']:
            return ClassVal(mi['names'][name])
        hook = getattr(self.c, 'global_model', None)
        if hook is not None:
            r = hook(name)
            if r is not NotImplemented:
                return r
        if name in BUILTINS:
            return BuiltinVal(name)
        raise SymErr('unknown name %s (line %s)' % (name, getattr(node, 'lineno', '?')))

    def ev_Tuple(self, n, st):
        return tuple(self.ev(e, st) for e in n.elts)

    def ev_List(self, n, st):
        items = [self.ev(e, st) for e in n.elts]
        return st.alloc(SSeq.of(items, 'list'), 'list')

    def ev_UnaryOp(self, n, st):
        v = self.ev(n.operand, st)
        if isinstance(n.op, ast.Not):
            return NOT(self.truth(v, st))
        v = self.as_int(v, st, n)
        if isinstance(n.op, ast.USub):
            return -v
        if isinstance(n.op, ast.Invert):
            return ~v
        if isinstance(n.op, ast.UAdd):
            return v
        raise SymErr('unary op')

    def as_int(self, v, st, node):
        """Int operand; a None operand would be a TypeError -> obligation."""
        if isinstance(v, SOpt):
            self.oblige(st, NOT(v.isnone), 'no-TypeError(None operand)', node)
            v = v.val
        if isinstance(v, bool):
            return int(v)
        if isinstance(v, SBool):
            return SInt(toint(v))
        if isinstance(v, (int, SInt)):
            return v
        raise SymErr('int operand expected, got %r (line %s)' % (v, getattr(node, 'lineno', '?')))

    _OPS = {ast.Add: '__add__', ast.Sub: '__sub__', ast.Mult: '__mul__', ast.FloorDiv: '__floordiv__',
            ast.Mod: '__mod__', ast.BitAnd: '__and__', ast.BitOr: '__or__', ast.BitXor: '__xor__',
            ast.LShift: '__lshift__', ast.RShift: '__rshift__'}

    def binop(self, op, a, b, st, node):
        if isinstance(op, ast.Add) and ((isinstance(a, str) and isinstance(b, str)) or (isinstance(a, bytes) and isinstance(b, bytes))):
            return a + b                       # concrete strings stay concrete (attribute names, messages)
        if isinstance(op, ast.Mod) and isinstance(a, (str, OpaqueStr)):
            return OpaqueStr()                 # message formatting: the text is irrelevant
        # sequence operations
        if isinstance(a, (Ref, SSeq, bytes, str, list, tuple)) and not isinstance(a, tuple) or \
                (isinstance(a, tuple) and isinstance(b, tuple)):
            if isinstance(op, ast.Add):
                if isinstance(a, tuple) and isinstance(b, tuple):
                    return a + b
                sa, sb = st.seq(a), st.seq(b)
                r = sa + sb
                return self.fresh_like(a, r, st)
            if isinstance(op, ast.Mult):
                return self.seq_repeat(a, b, st, node)
            if isinstance(op, ast.Mod):
                raise SymErr('string formatting with %')
        if isinstance(op, ast.Mult) and isinstance(b, (Ref, SSeq, bytes, str, list)):
            return self.seq_repeat(b, a, st, node)
        if isinstance(op, ast.Div):
            from .calls import TrueDiv      # only int(a / b) is modelled
            return TrueDiv(self.as_int(a, st, node), self.as_int(b, st, node))
        a, b = self.as_int(a, st, node), self.as_int(b, st, node)
        if isinstance(a, int) and isinstance(b, int):
            import operator
            return {ast.Add: operator.add, ast.Sub: operator.sub, ast.Mult: operator.mul,
                    ast.FloorDiv: operator.floordiv, ast.Mod: operator.mod, ast.BitAnd: operator.and_,
                    ast.BitOr: operator.or_, ast.BitXor: operator.xor, ast.LShift: operator.lshift,
                    ast.RShift: operator.rshift}[type(op)](a, b)
        if type(op) not in self._OPS:
            raise SymErr('operator %s' % type(op).__name__)
        if isinstance(a, int):
            a = SInt(V.iconst(a))
        return getattr(a, self._OPS[type(op)])(b)

    def fresh_like(self, proto, seq, st):
        """bytes+bytes -> bytes value; bytearray/list + x -> NEW mutable object."""
        if isinstance(proto, Ref):
            return st.alloc(seq, proto.tag)
        return seq

    def seq_repeat(self, s, n, st, node):
        sq = st.seq(s)
        n = self.as_int(n, st, node)
        ln = sq.n
        if isinstance(ln, int) and ln == 1:
            x = sq.get(0)
            cnt = ite(n < 0, 0, n) if not isinstance(n, int) else max(0, n)
            r = SSeq(cnt, lambda k: x, sq.kind)
        elif isinstance(ln, int) and isinstance(n, int):
            items = [sq.get(i) for i in range(ln)]
            if items and all(isinstance(x, int) and x == items[0] for x in items):
                x0 = items[0]
                r = SSeq(ln * max(0, n), lambda k: x0, sq.kind)       # constant sequence
            else:
                r = SSeq.of(items * max(0, n), sq.kind)
        elif isinstance(ln, int) and ln > 0:
            cnt = ite(n < 0, 0, n)
            g = sq.get
            r = SSeq(cnt * ln, lambda k: g(k % ln), sq.kind)
        elif not isinstance(ln, int):
            # symbolic length x symbolic count: exact (no element exists when ln == 0), but nonlinear -- only usable where the
            # value stays out of the obligations (e.g. it is handed to an opaque call)
            cnt = ite(n < 0, 0, n) if not isinstance(n, int) else max(0, n)
            g = sq.get
            r = SSeq(cnt * ln, lambda k: g(k % ln), sq.kind)
        else:
            raise SymErr('sequence repeat')
        return self.fresh_like(s, r, st)

    def ev_BinOp(self, n, st):
        # int(len(x) / y) idiom is handled in call_builtin('int'); plain '/' unsupported
        a = self.ev(n.left, st)
        b = self.ev(n.right, st)
        return self.binop(n.op, a, b, st, n)

    def ev_BoolOp(self, n, st):
        isand = isinstance(n.op, ast.And)
        vals = []
        saved = len(st.pc)
        try:
            for e in n.values:
                v = self.ev(e, st)
                t = self.truth(v, st)
                vals.append((v, t))
                # short circuit: later operands are evaluated only when this one is truthy (and) / falsy (or)
                if isinstance(t, bool):
                    if t != isand:
                        break
                else:
                    st.pc.append(tobool(t) if isand else z3.Not(tobool(t)))
        finally:
            del st.pc[saved:]
        if all(isinstance(v, (bool, SBool)) for v, _ in vals):
            ts = [t for _, t in vals]
            return AND(*ts) if isand else OR(*ts)
        # value-returning and/or: decide left to right
        for v, t in vals[:-1]:
            d = self.decide(t, st)
            if d != isand:
                return v
        return vals[-1][0]

    def ev_Compare(self, n, st):
        left = self.ev(n.left, st)
        res = []
        for op, rn in zip(n.ops, n.comparators):
            right = self.ev(rn, st)
            res.append(self.compare(op, left, right, st, n))
            left = right
        return AND(*res) if len(res) > 1 else res[0]

    def compare(self, op, a, b, st, node):
        if isinstance(op, (ast.Is, ast.IsNot)):
            if b is None:
                r = a.isnone if isinstance(a, SOpt) else (a is None)
            elif a is None:
                r = b.isnone if isinstance(b, SOpt) else (b is None)
            else:
                raise SymErr("'is' on non-None")
            return r if isinstance(op, ast.Is) else NOT(r)
        if isinstance(op, (ast.In, ast.NotIn)):
            r = self.contains(b, a, st, node)
            return r if isinstance(op, ast.In) else NOT(r)
        if isinstance(op, (ast.Eq, ast.NotEq)):
            r = self.equal(a, b, st, node)
            return r if isinstance(op, ast.Eq) else NOT(r)
        a, b = self.as_int(a, st, node), self.as_int(b, st, node)
        if isinstance(a, int) and isinstance(b, int):
            return {ast.Lt: a < b, ast.LtE: a <= b, ast.Gt: a > b, ast.GtE: a >= b}[type(op)]
        if isinstance(a, int):
            a = SInt(V.iconst(a))
        return {ast.Lt: a.__lt__, ast.LtE: a.__le__, ast.Gt: a.__gt__, ast.GtE: a.__ge__}[type(op)](b)

    def equal(self, a, b, st, node):
        if isinstance(a, Ref):
            a = st.seq(a)
        if isinstance(b, Ref):
            b = st.seq(b)
        if isinstance(a, SOpt) or isinstance(b, SOpt) or a is None or b is None:
            a2, b2 = SOpt.of(a), SOpt.of(b)
            both = AND(NOT(a2.isnone), NOT(b2.isnone))
            if both is False:
                return AND(a2.isnone, b2.isnone)
            return OR(AND(a2.isnone, b2.isnone), AND(both, self.equal(a2.val, b2.val, st, node)))
        seqish = (SSeq, bytes, str, list)
        if isinstance(a, seqish) != isinstance(b, seqish):
            return False            # int == bytes etc. is False in python
        return val_eq(a, b)

    def contains(self, cont, item, st, node):
        if isinstance(cont, Ref) and isinstance(st.heap[cont.id], SymMap):
            return st.heap[cont.id].contains(item)
        if isinstance(cont, (dict, set, frozenset)) and not isinstance(item, (SInt, SSeq, SBool)):
            return item in cont
        if isinstance(cont, (tuple, list)) and all(isinstance(x, (int, str, bytes)) for x in cont):
            if isinstance(item, SInt):
                return OR(*[item == x for x in cont if isinstance(x, int)])
            if not isinstance(item, (SSeq, SBool)):
                return item in cont
        if isinstance(cont, (SSeq, bytes, Ref)) and isinstance(item, (int, SInt)):
            sq = st.seq(cont)
            if isinstance(sq.n, int) and sq.n <= 64:
                return OR(*[val_eq(sq.get(i), item) for i in range(sq.n)])
            k = V.ivar(E.fresh('ex'))
            return SBool(z3.Exists([k], z3.And(toint(0) <= k, k < toint(sq.n), tobool(val_eq(sq.get(SInt(k)), item)))))
        fn = getattr(self.c, 'contains_model', None)
        if fn is not None:
            r = fn(self, cont, item, st)
            if r is not None:
                return r
        raise SymErr("'in' on %r (line %s)" % (type(cont).__name__, getattr(node, 'lineno', '?')))

    def ev_IfExp(self, n, st):
        c = self.truth(self.ev(n.test, st), st)
        if isinstance(c, bool):
            return self.ev(n.body if c else n.orelse, st)
        t = tobool(c)
        st.pc.append(t)
        try:
            a = self.ev(n.body, st)
        finally:
            st.pc.pop()
        st.pc.append(z3.Not(t))
        try:
            b = self.ev(n.orelse, st)
        finally:
            st.pc.pop()
        try:
            return merge_values(c, a, b)
        except SymErr:
            return a if self.decide(c, st) else b

    def ev_Attribute(self, n, st):
        base = self.ev(n.value, st)
        return self.getattr(base, n.attr, st, n)

    def getattr(self, base, attr, st, node):
        if isinstance(base, Ref):
            h = st.heap[base.id]
            if isinstance(h, dict):
                if attr in h:
                    return h[attr]
                ci = source.class_info(base.tag)
                if attr in ci['attrs']:
                    return ci['attrs'][attr]
                if attr in ci['methods']:
                    return BoundMethod(base, ci['methods'][attr], ci['kinds'].get(attr, 'method'))
                raise SymErr('no attribute %s on %s' % (attr, base.tag))
            return SeqMethod(base, attr)
        if isinstance(base, ModVal):
            mi = source.module_info(base.name)
            if attr in mi['consts']:
                return mi['consts'][attr]
            if attr in mi['funcs']:
                return FuncVal(mi['funcs'][attr])
            if attr in mi['names']:
                return ClassVal(mi['names'][attr])
            if attr in mi['modules']:
                return ModVal(mi['modules'][attr])
            return ExternVal(base.name + '.' + attr)
        if isinstance(base, ClassVal):
            ci = source.class_info(base.qual)
            if attr in ci['attrs']:
                return ci['attrs'][attr]
            if attr in ci['methods']:
                return BoundMethod(base, ci['methods'][attr], ci['kinds'].get(attr, 'method'))
            raise SymErr('no class attribute %s' % attr)
        if isinstance(base, (SSeq, bytes, str)):
            return SeqMethod(base, attr)
        if isinstance(base, SOpt) and isinstance(base.val, Ref):
            self.oblige(st, NOT(base.isnone), 'no-AttributeError(None.%s)' % attr, node)
            return self.getattr(base.val, attr, st, node)
        if isinstance(base, (SInt, SOpt)) and getattr(self.c, 'attr_model', None) is not None:
            r = self.c.attr_model(base, attr)
            if r is not NotImplemented:
                return r
        if isinstance(base, (SInt, SOpt)) and hasattr(self.c, 'method_model'):
            return SeqMethod(base, attr)          # an abstract (int-coded) value: methods are interpreted by the contract
        if isinstance(base, BuiltinVal):
            return BuiltinVal(base.name + '.' + attr)
        if isinstance(base, ExternVal):
            return ExternVal(base.name + '.' + attr)
        if isinstance(base, dict) and attr in ('get', 'items', 'keys', 'values'):
            return SeqMethod(base, attr)
        if isinstance(base, tuple) and base[:1] == ('__nt__',) and attr in base[2]:
            return base[3][base[2].index(attr)]
        if isinstance(base, TableRow):
            return base.field(attr)
        if hasattr(base, 'pyvc_getattr'):
            return base.pyvc_getattr(attr)
        raise SymErr('attribute %s of %r (line %s)' % (attr, base, getattr(node, 'lineno', '?')))

    def index(self, sq, i, st, node, what='index'):
        """Python index normalisation + IndexError obligation."""
        i = self.as_int(i, st, node)
        n = sq.n
        if isinstance(i, int) and isinstance(n, int):
            j = i + n if i < 0 else i
            if not 0 <= j < n:
                self.oblige(st, False, 'no-IndexError', node)
                return 0
            return j
        neg = i < 0
        with V.guarded(neg):
            wrapped = i + n
        j = ite(neg, wrapped, i)
        self.oblige(st, AND(j >= 0, j < n), 'no-IndexError', node)
        return j

    def ev_Subscript(self, n, st):
        base = self.ev(n.value, st)
        if isinstance(base, Ref) and isinstance(st.heap[base.id], SymMap):
            m = st.heap[base.id]
            k = self.ev(n.slice, st)
            self.oblige(st, m.contains(k), 'no-KeyError', n)
            return m.get(k)
        if isinstance(base, dict):
            k = self.ev(n.slice, st)
            if isinstance(k, (SInt, SSeq, SBool)):
                hook = getattr(self.c, 'dict_model', None)
                r = hook(self, base, k, st, n) if hook is not None else NotImplemented
                if r is NotImplemented:
                    raise SymErr('dict with symbolic key (line %s)' % n.lineno)
                return r
            if k not in base:
                self.oblige(st, False, 'no-KeyError', n)
                return 0
            return base[k]
        if isinstance(base, list) and base and isinstance(base[0], tuple) and base[0][:1] == ('__nt__',):
            # a module-level table of namedtuples (e.g. P8SCII_CHARSET)
            k = self.ev(n.slice, st)
            if isinstance(k, int):
                return base[k]
            k = self.as_int(k, st, n)
            neg = k < 0
            with V.guarded(neg):
                wrapped = k + len(base)
            j = ite(neg, wrapped, k)
            self.oblige(st, AND(j >= 0, j < len(base)), 'no-IndexError', n)
            return TableRow(base, j)
        if isinstance(base, tuple):
            k = self.ev(n.slice, st)
            if isinstance(k, int):
                return base[k]
            base = SSeq.of(list(base), 'tuple')
        sq = st.seq(base)
        if isinstance(n.slice, ast.Slice):
            if n.slice.step is not None:
                raise SymErr('slice step')
            lo = self.ev(n.slice.lower, st) if n.slice.lower is not None else None
            hi = self.ev(n.slice.upper, st) if n.slice.upper is not None else None
            lo = None if lo is None else self.as_int(lo, st, n)
            hi = None if hi is None else self.as_int(hi, st, n)
            r = sq.slice(lo, hi)
            if not isinstance(r.n, int):
                c = self.constant_of(r.n, st)      # a slice whose length is a constant on this path
                if c is not None:
                    r = SSeq(c, r.get, r.kind)
            return self.fresh_like(base, r, st)
        j = self.index(sq, self.ev(n.slice, st), st, n)
        if sq.kind == 'str':
            return sq.slice(j, j + 1)          # indexing a str gives a str of length one
        return sq.get(j)

    def ev_JoinedStr(self, n, st):
        return OpaqueStr()

    def ev_Call(self, n, st):
        from .calls import do_call
        return do_call(self, n, st)

    def ev_ListComp(self, n, st):
        from .calls import comprehension
        return st.alloc(comprehension(self, n, st, 'list'), 'list')

    def ev_GeneratorExp(self, n, st):
        from .calls import comprehension
        return comprehension(self, n, st, 'gen')

    def ev_Dict(self, n, st):
        d = {}
        for k, v in zip(n.keys, n.values):
            kk = self.ev(k, st)
            d[kk] = self.ev(v, st)
        return d

    # ----------------------------------------------------------- statements
    def block(self, stmts, st):
        """Execute a statement list; returns outcomes."""
        outs = []
        cur = [st]
        for s in stmts:
            nxt = []
            for c in cur:
                for o in self.stmt(s, c):
                    if o.kind == 'normal':
                        nxt.append(o.st)
                    else:
                        outs.append(o)
            cur = nxt
            if not cur:
                break
        outs.extend(Outcome('normal', c) for c in cur)
        return outs

    def stmt(self, s, st):
        m = getattr(self, 'st_' + type(s).__name__, None)
        if m is None:
            raise SymErr('statement %s (line %s)' % (type(s).__name__, s.lineno))
        if isinstance(s, (ast.If, ast.For, ast.While, ast.Try, ast.With)):
            return m(s, st)
        nobl = len(self.obls)
        nkeys = dict(self._obn)
        work = st.copy()
        try:
            return m(s, work)
        except NeedFork as nf:
            self.rollback(nobl, nkeys)
            outs = []
            for cond in (nf.cond, z3.Not(nf.cond)):
                s2 = st.copy()
                s2.pc.append(cond)
                outs.extend(self.stmt(s, s2))
            return outs

    def st_Expr(self, s, st):
        if isinstance(s.value, ast.Constant):
            return [Outcome('normal', st)]
        if isinstance(s.value, ast.Yield):
            v = self.ev(s.value.value, st)
            y = st.locals['__yielded__']
            st.locals['__yielded__'] = y + SSeq.of([self.freeze(v, st)], 'list')
            return [Outcome('normal', st)]
        v = self.ev(s.value, st)
        if isinstance(v, RaisedValue):
            return [Outcome('raise', st, Raised(v.exc))]
        return [Outcome('normal', st)]

    def freeze(self, v, st):
        """Snapshot of a value (mutable refs are dereferenced)."""
        if isinstance(v, Ref) and not isinstance(st.heap[v.id], dict):
            return st.heap[v.id]
        return v

    def st_Pass(self, s, st):
        return [Outcome('normal', st)]

    def st_Assign(self, s, st):
        v = self.ev(s.value, st)
        if isinstance(v, RaisedValue):
            return [Outcome('raise', st, Raised(v.exc))]
        for t in s.targets:
            self.assign(t, v, st, s)
        return [Outcome('normal', st)]

    def st_AugAssign(self, s, st):
        cur = self.ev(_load(s.target), st)
        rhs = self.ev(s.value, st)
        if isinstance(cur, Ref) and isinstance(s.op, ast.Add) and not isinstance(st.heap[cur.id], dict):
            # in-place extend of a mutable sequence
            st.write_cell(cur, st.seq(cur) + st.seq(rhs))
            return [Outcome('normal', st)]
        v = self.with_sink(st, s, lambda: self.binop(s.op, cur, rhs, st, s))
        self.assign(s.target, v, st, s)
        return [Outcome('normal', st)]

    def assign(self, t, v, st, node):
        if isinstance(t, ast.Name):
            if t.id in getattr(self.c, 'name_locals', ()) and isinstance(v, SSeq) and v.arr is None:
                v = V.named(v, t.id)
            st.locals[t.id] = v
        elif isinstance(t, (ast.Tuple, ast.List)):
            if isinstance(v, Ref):
                v = st.seq(v)
            if isinstance(v, SSeq):
                if not isinstance(v.n, int):
                    self.oblige(st, v.n == len(t.elts), 'no-ValueError(unpack)', node)
                elif v.n != len(t.elts):
                    self.oblige(st, False, 'no-ValueError(unpack)', node)
                v = tuple(v.get(i) for i in range(len(t.elts)))
            if not isinstance(v, tuple) or len(v) != len(t.elts):
                raise SymErr('unpack of %r' % (v,))
            for tt, vv in zip(t.elts, v):
                self.assign(tt, vv, st, node)
        elif isinstance(t, ast.Subscript):
            base = self.ev(t.value, st)
            if not isinstance(base, Ref):
                raise SymErr('store into immutable value (line %s)' % node.lineno)
            if isinstance(st.heap[base.id], SymMap):
                hook = getattr(self.c, 'map_store', None)
                k = self.ev(t.slice, st)
                st.write_cell(base, hook(self, st.heap[base.id], k, v, st) if hook else st.heap[base.id].store(k, v))
                return
            sq = st.seq(base)
            if isinstance(t.slice, ast.Slice):
                lo = self.ev(t.slice.lower, st) if t.slice.lower is not None else None
                hi = self.ev(t.slice.upper, st) if t.slice.upper is not None else None
                lo = None if lo is None else self.as_int(lo, st, node)
                hi = None if hi is None else self.as_int(hi, st, node)
                src = st.seq(v)
                if base.tag == 'bytearray':
                    self.byte_range(src, st, node)
                st.write_cell(base, sq.store_slice(lo, hi, src).with_kind(sq.kind))
            else:
                j = self.index(sq, self.ev(t.slice, st), st, node)
                if base.tag == 'bytearray':
                    vi = self.as_int(v, st, node)
                    self.oblige(st, AND(0 <= vi if isinstance(vi, int) else vi >= 0, vi <= 255),
                                'no-ValueError(byte range)', node)
                    v = vi
                st.write_cell(base, sq.store(j, v))
        elif isinstance(t, ast.Attribute):
            base = self.ev(t.value, st)
            if not (isinstance(base, Ref) and isinstance(st.heap[base.id], dict)):
                raise SymErr('attribute store on %r' % (base,))
            rec = dict(st.heap[base.id])
            rec[t.attr] = v
            st.write_cell(base, rec)
        else:
            raise SymErr('assignment target %s' % type(t).__name__)

    def byte_range(self, src, st, node):
        if src.kind == 'bytes':
            return
        if isinstance(src.n, int) and src.n <= 64:
            for i in range(src.n):
                x = src.get(i)
                if isinstance(x, int):
                    if not 0 <= x <= 255:
                        self.oblige(st, False, 'no-ValueError(byte range)', node)
                else:
                    self.oblige(st, AND(x >= 0, x <= 255), 'no-ValueError(byte range)', node)
            return
        self.oblige(st, V.forall(0, src.n, lambda k: AND(src.get(k) >= 0, src.get(k) <= 255)),
                    'no-ValueError(byte range)', node)

    def st_Return(self, s, st):
        v = self.ev(s.value, st) if s.value is not None else None
        if isinstance(v, RaisedValue):
            return [Outcome('raise', st, Raised(v.exc))]
        return [Outcome('return', st, v)]

    def st_Break(self, s, st):
        return [Outcome('break', st)]

    def st_Continue(self, s, st):
        return [Outcome('continue', st)]

    def st_Raise(self, s, st):
        e = s.exc
        if e is None:
            return [Outcome('raise', st, Raised(st.locals.get('__exc__', 'Exception')))]
        if isinstance(e, ast.Call):
            e = e.func
        name = e.id if isinstance(e, ast.Name) else (e.attr if isinstance(e, ast.Attribute) else None)
        if name is None:
            raise SymErr('raise of non-name')
        return [Outcome('raise', st, Raised(name))]

    def st_Assert(self, s, st):
        c = self.truth(self.ev(s.test, st), st)
        self.oblige(st, c, 'no-AssertionError', s)
        st.assume(c)
        return [Outcome('normal', st)]

    def st_Delete(self, s, st):
        for t in s.targets:
            if isinstance(t, ast.Name):
                st.locals.pop(t.id, None)
            else:
                raise SymErr('del of non-name')
        return [Outcome('normal', st)]

    def st_If(self, s, st):
        work = st.copy()
        nobl, nkeys = len(self.obls), dict(self._obn)
        try:
            c = self.truth(self.ev(s.test, work), work)
        except NeedFork as nf:
            self.rollback(nobl, nkeys)
            outs = []
            for cond in (nf.cond, z3.Not(nf.cond)):
                s2 = st.copy()
                s2.pc.append(cond)
                outs.extend(self.st_If(s, s2))
            return outs
        st = work
        if isinstance(c, bool):
            return self.block(s.body if c else s.orelse, st)
        t = tobool(c)
        can_t = feasible(st.pc, t)
        can_f = feasible(st.pc, z3.Not(t))
        if not can_f:
            st.pc.append(t)
            return self.block(s.body, st)
        if not can_t:
            st.pc.append(z3.Not(t))
            return self.block(s.orelse, st)
        s1, s2 = st.copy(), st.copy()
        s1.pc.append(t)
        s2.pc.append(z3.Not(t))
        o1 = self.block(s.body, s1)
        o2 = self.block(s.orelse, s2) if s.orelse else [Outcome('normal', s2)]
        n1 = [o for o in o1 if o.kind == 'normal']
        n2 = [o for o in o2 if o.kind == 'normal']
        rest = [o for o in o1 + o2 if o.kind != 'normal']
        if len(n1) == 1 and len(n2) == 1 and not getattr(self.c, 'no_merge', False):
            try:
                merged = merge_states(t, len(st.pc), n1[0].st, n2[0].st)
                return rest + [Outcome('normal', merged)]
            except SymErr:
                pass
        return rest + n1 + n2

    # loops -----------------------------------------------------------------
    def st_For(self, s, st):
        from .loops import exec_for
        return exec_for(self, s, st)

    def st_While(self, s, st):
        from .loops import exec_while
        return exec_while(self, s, st)

    def st_Try(self, s, st):
        from .loops import exec_try
        return exec_try(self, s, st)

    def st_With(self, s, st):
        from .loops import exec_with
        return exec_with(self, s, st)

    # ----------------------------------------------------------- entry
    def run(self, st, args):
        """Execute the function body with parameters bound to args (dict)."""
        fn = self.f.node
        a = fn.args
        params = [x.arg for x in a.posonlyargs + a.args]
        defaults = a.defaults
        dmap = {}
        for name, d in zip(params[len(params) - len(defaults):], defaults):
            dmap[name] = d
        for x, d in zip(a.kwonlyargs, a.kw_defaults):
            params.append(x.arg)
            if d is not None:
                dmap[x.arg] = d
        for p in params:
            if p in args:
                st.locals[p] = args[p]
            elif p in dmap:
                st.locals[p] = self.ev(dmap[p], st)
            else:
                raise SymErr('missing argument %s' % p)
        if a.vararg is not None:
            st.locals[a.vararg.arg] = args.get('*' + a.vararg.arg, ())
        if a.kwarg is not None:
            st.locals[a.kwarg.arg] = args.get('**' + a.kwarg.arg, {})
        if self.is_generator:
            st.locals['__yielded__'] = SSeq.of([], 'list')
        outs = self.block(fn.body, st)
        res = []
        for o in outs:
            if o.kind == 'normal':
                res.append(Outcome('return', o.st, None))
            elif o.kind in ('return', 'raise'):
                res.append(o)
            else:
                raise SymErr('%s outside loop' % o.kind)
        if self.is_generator:
            for o in res:
                if o.kind == 'return':
                    o.val = o.st.locals['__yielded__']
        return res


def _load(t):
    import copy
    t2 = copy.deepcopy(t)
    for n in ast.walk(t2):
        if hasattr(n, 'ctx'):
            n.ctx = ast.Load()
    return t2


def merge_states(c, npc0, a, b):
    """Join two states that forked on z3 condition c at pc length npc0."""
    m = State()
    cc = SBool(c)
    names = set(a.locals) | set(b.locals)
    for k in names:
        if k not in a.locals or k not in b.locals:
            raise SymErr('variable defined on one branch only')
        va, vb = a.locals[k], b.locals[k]
        m.locals[k] = va if va is vb else merge_any(cc, va, vb)
    for k in set(a.heap) | set(b.heap):
        if k in a.heap and k in b.heap:
            ha, hb = a.heap[k], b.heap[k]
            if ha is hb:
                m.heap[k] = ha
            elif isinstance(ha, dict):
                if set(ha) != set(hb):
                    raise SymErr('record shape differs')
                m.heap[k] = {f: (ha[f] if ha[f] is hb[f] else merge_any(cc, ha[f], hb[f])) for f in ha}
            else:
                m.heap[k] = merge_values(cc, ha, hb)
        else:
            m.heap[k] = a.heap.get(k, b.heap.get(k))   # cell allocated on one branch (unreachable from the other)
    m.pc = list(a.pc[:npc0])
    ea, eb = a.pc[npc0 + 1:], b.pc[npc0 + 1:]
    if ea or eb:
        m.pc.append(z3.If(c, z3.And(*ea) if ea else z3.BoolVal(True), z3.And(*eb) if eb else z3.BoolVal(True)))
    m.written = a.written | b.written
    if a.trace != b.trace:
        raise SymErr('effect traces differ')
    m.trace = list(a.trace)
    return m


def merge_any(c, a, b):
    if isinstance(a, Ref) or isinstance(b, Ref):
        if isinstance(a, Ref) and isinstance(b, Ref) and a.id == b.id:
            return a
        raise SymErr('merge of distinct references')
    if isinstance(a, (FuncVal, ModVal, ClassVal, BuiltinVal)):
        if type(a) is type(b) and a.__dict__ == b.__dict__:
            return a
        raise SymErr('merge of callables')
    return merge_values(c, a, b)


# ---- non-data values --------------------------------------------------------

class TableRow:
    """rows[idx] of a concrete table of namedtuples at a symbolic index: fields become table functions
    (uninterpreted functions pinned by one ground axiom per real table entry)."""
    _cache = {}

    def __init__(self, rows, idx):
        self.rows, self.idx = rows, idx

    def field(self, name):
        fi = self.rows[0][2].index(name)
        col = [r[3][fi] for r in self.rows]
        key = (id(self.rows), name, E.mode, id(E.axioms))
        if all(isinstance(x, int) for x in col):
            return SSeq.of(col, 'list').get(self.idx)
        if all(isinstance(x, str) for x in col):
            fns = TableRow._cache.get(key)
            if fns is None:
                ln = z3.Function(E.fresh(name + '.len'), V.isort(), V.isort())
                ch = z3.Function(E.fresh(name + '.chr'), V.isort(), V.isort(), V.isort())
                for i, sv in enumerate(col):
                    E.axioms.append(ln(V.iconst(i)) == V.iconst(len(sv)))
                    for j, c in enumerate(sv):
                        E.axioms.append(ch(V.iconst(i), V.iconst(j)) == V.iconst(ord(c)))
                fns = (ln, ch, self.rows)
                TableRow._cache[key] = fns
            ln, ch, _ = fns
            i = toint(self.idx)
            return SSeq(SInt(ln(i)), lambda j: SInt(ch(i, toint(j))), 'str')
        raise SymErr('table column %s of mixed type' % name)


class FuncVal:
    def __init__(self, qual):
        self.qual = qual


class ModVal:
    def __init__(self, name):
        self.name = name


class ClassVal:
    def __init__(self, qual):
        self.qual = qual


class BuiltinVal:
    def __init__(self, name):
        self.name = name


class ExternVal:
    def __init__(self, name):
        self.name = name


class BoundMethod:
    def __init__(self, recv, qual, kind):
        self.recv, self.qual, self.kind = recv, qual, kind


class SeqMethod:
    def __init__(self, recv, name):
        self.recv, self.name = recv, name


class OpaqueStr:
    """A message string whose content is irrelevant (exception text)."""


class RaisedValue:
    """Result of a modular call whose contract says it raised (single-outcome calls only)."""
    def __init__(self, exc):
        self.exc = exc


BUILTINS = {'len', 'range', 'min', 'max', 'bytes', 'bytearray', 'list', 'tuple', 'enumerate', 'int', 'str',
            'format', 'isinstance', 'abs', 'bool', 'sorted', 'zip', 'open', 'print', 'ValueError',
            'TypeError', 'IndexError', 'AssertionError', 'Exception', 'KeyError', 'super', 'dict', 'set',
            'any', 'all', 'sum', 'chr', 'ord', 'hasattr', 'getattr', 'setattr', 'iter', 'next', 'reversed', 'object', 'type',
            'NotImplementedError', 'OSError', 'IOError'}
