"""Sanity check of the format SPECS (not of picotool): the carts in tests/testdata that PICO-8 itself saved both as
.p8 and as .p8.png must agree under PngSpec + P8Spec -- PNG pixels -> cart bytes (PngSpec) -> section text
(P8Spec) must be the text PICO-8 wrote.  Guards against an oracle that shares a mistake with the code.
Only pypng (to get at the pixel rows) is used from the environment; no picotool codec is involved."""
import json
import os
import subprocess

from . import source
from .values import SSeq
from specs import p8spec as P

PAIRS = (('test_cart.p8', 'test_cart.p8.png'), ('test_cart_memdump.p8', 'test_cart_memdump.p8.png'),
         ('test_gol.p8', 'test_gol.p8.png'))

_DUMP = r'''
import sys, json, png
out = {}
for p8, pngf in json.loads(sys.argv[1]):
    r = png.Reader(filename=pngf)
    w, h, rows, attrs = r.read()
    rows = [bytes(x).hex() for x in rows]
    secs, cur = {}, None
    for line in open(p8, 'rb'):
        if line.startswith(b'__') and line.rstrip().endswith(b'__'):
            cur = line.strip().decode(); secs[cur] = []
        elif cur: secs[cur].append(line.hex())
    out[p8] = {'w': w, 'h': h, 'planes': attrs['planes'], 'rows': rows, 'secs': secs}
print(json.dumps(out))
'''


def run():
    """Returns list of (name, ok, detail)."""
    td = os.path.join(source.REPO, 'tests', 'testdata')
    if not os.path.isdir(td):
        td = '/repo/tests/testdata'           # canary copies carry only pico8/
    pairs = [(os.path.join(td, a), os.path.join(td, b)) for a, b in PAIRS]
    pairs = [p for p in pairs if os.path.exists(p[0]) and os.path.exists(p[1])]
    r = subprocess.run([source.REAL_PY, '-c', _DUMP, json.dumps(pairs)], capture_output=True, text=True)
    if r.returncode != 0:
        return [('spec-sanity/dump', False, r.stderr[-500:])]
    data = json.loads(r.stdout)
    res = []
    for p8, d in data.items():
        nm = os.path.basename(p8)
        if (d['w'], d['h'], d['planes']) != (160, 205, 4):
            res.append(('spec-sanity/%s/geometry' % nm, False, str((d['w'], d['h'], d['planes']))))
            continue
        rows = [SSeq.of(bytes.fromhex(x)) for x in d['rows']]
        mem = [P.png_byte(rows[i // 160], i % 160) for i in range(0x8000)]
        region = {n: SSeq.of(bytes(mem[lo:hi])) for n, lo, hi in P.MEMORY_MAP if n not in ('code', 'version')}
        want = {'__gfx__': P.gfx_rows(region['gfx']), '__gff__': P.hex_rows(region['gff'], 128),
                '__map__': P.hex_rows(region['map'], 128), '__sfx__': P.sfx_rows(region['sfx']),
                '__music__': P.music_rows(region['music'])}
        for sec, rowsq in want.items():
            have = [bytes.fromhex(x) for x in d['secs'].get(sec, [])]
            have = [h for h in have if h.strip()]
            spec = [bytes(rowsq.get(i).get(j) for j in range(rowsq.get(i).n)) for i in range(rowsq.n)]
            # PICO-8 may omit trailing all-default rows from a section; compare the rows it wrote
            ok = len(have) <= len(spec) and all(h == s for h, s in zip(have, spec)) and len(have) > 0
            if sec == '__music__' and ok and len(have) < len(spec):
                ok = True
            res.append(('spec-sanity/%s/%s' % (nm, sec), ok, '%d rows compared' % len(have)))
    return res
