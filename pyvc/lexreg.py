"""REG obligations about the lexer's default state: ImplFirst(s) == SpecFirst(s) for ALL byte strings s."""
import re

from . import reglang as R
from . import lexdump
from specs import lexspec as LS


def esc(b):
    return re.escape(b)


def impl_matchers():
    """The real dispatch chain of Lexer._process_token in the default state, as (name, kind, Matcher):
    '--[[' test, long-bracket test, quote test, then the ordered real table (first match wins)."""
    tb = lexdump.tables()
    ms = [('D:--[[', 'comment-open', R.Matcher(R.build(rb'--\[\['))),
          ('D:[=*[', 'longstring-open', R.Matcher(R.build(rb'\[=*\['))),
          ('D:quote', 'string-open', R.Matcher(R.build(rb'[\'"]')))]
    kindmap = {'TokComment': 'comment', 'TokSpace': 'space', 'TokNewline': 'newline', 'TokNumber': 'number',
               'TokLabel': 'label', 'TokKeyword': 'keyword', 'TokSymbol': 'symbol', 'TokName': 'name'}
    for i, (p, f, c) in enumerate(tb['matchers']):
        ms.append(('M%d:%s' % (i, p.decode('latin1')), kindmap.get(c, c), R.Matcher(R.build(p, f))))
    return ms


def symbols_of_impl():
    """The operator SET of the dialect = the symbol patterns of the real table (each must be a literal string)."""
    import re._parser as sp
    import re._constants as sc
    out = []
    for p, f, c in lexdump.tables()['matchers']:
        if c == 'TokSymbol':
            tree = list(sp.parse(p))
            if not all(op == sc.LITERAL for op, _ in tree):
                raise R.Unsupported('symbol pattern is not a literal: %r' % p)
            out.append(bytes(av for _, av in tree))
    return out


def spec_variants():
    """Spec matcher sets; a verdict is accepted if it is the maximal-munch verdict of ANY variant."""
    syms = symbols_of_impl()
    base = [('comment-open', rb'--\[\['), ('longstring-open', rb'\[=*\['), ('string-open', rb'[\'"]')]
    base += [('comment', p) for p in LS.COMMENT] + [('space', p) for p in LS.SPACE] + [('newline', p) for p in LS.NEWLINE]
    base += [('label', p) for p in LS.LABEL] + [('name', LS.NAME)] + [('name', p) for p in LS.QUESTION]
    base += [('symbol', esc(s)) for s in syms]
    kw = [('keyword', esc(k) + rb'(?![A-Za-z0-9_\x80-\xff])') for k in LS.KEYWORDS]
    v1 = base + kw + [('number', p) for p in LS.NUMBER_PICO8]
    v2 = base + kw + [('number', p) for p in LS.NUMBER_NO_TRAILING_DOT]
    return [v1, v2]


def build_product():
    impl = impl_matchers()
    variants = spec_variants()
    specs, idx = [], {}
    var_ix = []
    for v in variants:
        ix = []
        for kind, pat in v:
            key = (kind, pat)
            if key not in idx:
                idx[key] = len(specs)
                specs.append((kind, pat, R.Matcher(R.build(pat))))
            ix.append(idx[key])
        var_ix.append(ix)
    return impl, specs, var_ix


def first_token_equivalence():
    """Returns (states, witness or None, info)."""
    impl, specs, var_ix = build_product()
    ni = len(impl)
    prod = R.Product([m for _, _, m in impl] + [m for _, _, m in specs])
    PRI = {'comment-open': 0, 'longstring-open': 0, 'string-open': 0, 'keyword': 1}

    def impl_verdict(fl):
        for j in range(ni):
            e, a, l = fl[j]
            if e or a or l:
                return impl[j][1] if (a and not l) else None, j
        return 'NO-TOKEN', None

    def spec_verdict(fl, ix):
        # a text starting with '--[[' opens a long comment (it is not a line comment)
        for i in ix:
            if specs[i][0] == 'comment-open' and any(fl[ni + i]):
                return 'comment-open' if (fl[ni + i][1] and not fl[ni + i][2]) else None
        later = any(fl[ni + i][2] for i in ix)
        at = [specs[i][0] for i in ix if fl[ni + i][1]]
        anym = any(fl[ni + i][0] or fl[ni + i][1] or fl[ni + i][2] for i in ix)
        if not anym:
            return 'NO-TOKEN'
        if later or not at:
            return None
        # '--[[' beats the line comment of the same text; a reserved word beats a name
        if 'comment-open' in at:
            return 'comment-open'
        if 'keyword' in at:
            return 'keyword'
        return at[0]

    def bad(fl):
        iv, j = impl_verdict(fl)
        svs = [spec_verdict(fl, ix) for ix in var_ix]
        if iv in svs:
            return None
        # the line-comment class also matches where the dispatch chain says comment-open: same text '--[[', handled above
        return 'impl says %r (matcher %s), spec says %r' % (iv, impl[j][0] if j is not None else None, svs)
    n, w = prod.explore(bad)
    return n, w, {'impl_matchers': ni, 'spec_matchers': len(specs), 'byte_classes': len(prod.reps)}


# ------------------------------------------------------------------------------------------------ fusion relation

STRING_DQ = rb'"(\\[\x00-\xff]|[^"\\\n])*"'
STRING_SQ = rb"'(\\[\x00-\xff]|[^'\\\n])*'"
STRING_LONG0 = rb'\[\[([^\]]|\](?!\]))*\]\]'
OPENERS = (('open-longstring', rb'\[=*\['), ('open-comment', rb'--\[\['), ('open-dq', rb'"'), ('open-sq', rb"'"))


def token_classes(variant=0):
    """Spec token classes as (class name, kind, regex).  Finer than kinds: one class per symbol, per keyword, per
    numeral form, per string delimiter."""
    out = []
    for s in symbols_of_impl():
        out.append(('sym:' + s.decode('latin1'), 'symbol', esc(s)))
    for k in LS.KEYWORDS:
        out.append(('kw:' + k.decode(), 'keyword', esc(k)))
    out.append(('name', 'name', LS.NAME))
    out.append(('name:?', 'name', LS.QUESTION[0]))
    for i, p in enumerate(LS.NUMBER_PICO8 if variant == 0 else LS.NUMBER_NO_TRAILING_DOT):
        out.append(('num:%d' % i, 'number', p))
    out.append(('label', 'label', LS.LABEL[0]))
    out.append(('str:dq', 'string', STRING_DQ))
    out.append(('str:sq', 'string', STRING_SQ))
    out.append(('str:long', 'string', STRING_LONG0))
    return out


def fusion_relation(variant=0, K=()):
    """FUSE = {((class1, last byte class), (class2, first byte class)): shortest witness (text, split)} such that for
    some c1 in L(class1) ending in that byte class, c2 in L(class2) starting in that byte class and continuation r,
    maximal munch over LexSpec does NOT end the first token of c1.c2.r at |c1| (it takes a longer token -- the two tokens
    fuse, or the pair opens a comment / string -- or cannot end a token there at all).  Byte classes: a byte of K, or
    'o' (any other byte).  Computed from LexSpec alone by exhaustive exploration of one product automaton; complete
    for all texts of the classes."""
    classes = token_classes(variant)
    early = [(nm, kind, R.Matcher(R.build(p))) for nm, kind, p in classes]
    extra = [(nm, 'open', R.Matcher(R.build(p))) for nm, p in OPENERS] + \
            [('comment', 'comment', R.Matcher(R.build(p))) for p in LS.COMMENT]
    late_pats = []
    for nm, kind, p in classes:
        if nm == 'str:long':
            p = rb'\[=*\['                 # every long-string opener
        elif nm == 'str:dq':
            p = rb'"'
        elif nm == 'str:sq':
            p = rb"'"
        late_pats.append((nm, p))
    late = [(nm, R.Matcher(R.build(p))) for nm, p in late_pats]
    K = list(K)
    ne0 = len(early)
    allearly = early + extra
    prod = R.SplitProduct([m for _, _, m in allearly], [m for _, m in late], K)
    names1 = [nm for nm, _, _ in early]
    names2 = [nm for nm, _ in late]
    kw_idx = [i for i, (nm, k, _) in enumerate(early) if k == 'keyword']
    name_idx = names1.index('name')

    def visit(A, later, LA, lastc, firstc):
        if not later:
            return None
        firsts = [i for i in A if i < ne0]
        if not firsts:
            return None
        # a name text that is a reserved word is not a name token (C07 / C02): the class 'name' excludes them
        if any(i in A for i in kw_idx):
            firsts = [i for i in firsts if i != name_idx]
        return [((names1[i], lastc), (names2[j], firstc)) for i in firsts for j in LA]
    n, found = prod.explore(visit)
    return found, {'states': n, 'classes': len(classes), 'byte_classes': len(prod.reps)}
