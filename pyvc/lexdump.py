"""Real lexer tables, from the real module in the real interpreter."""
import json
import subprocess

from . import source

_SCRIPT = r'''
import json
from pico8.lua import lexer
out = {'matchers': [[p.pattern.hex(), p.flags, (c.__name__ if c else None)] for p, c in lexer._TOKEN_MATCHERS],
       'keywords': sorted(k.hex() for k in lexer.LUA_KEYWORDS),
       'escapes': {k.hex(): v.hex() for k, v in lexer._STRING_ESCAPES.items()},
       'reverse': {k.hex(): v.hex() for k, v in lexer._STRING_REVERSE_ESCAPES.items()}}
print(json.dumps(out))
'''
_cache = {}


def tables():
    if 'd' not in _cache:
        env = {'PYTHONPATH': source.REPO, 'PATH': '/usr/bin:/bin', 'PYTHONDONTWRITEBYTECODE': '1'}
        r = subprocess.run([source.REAL_PY, '-c', _SCRIPT], capture_output=True, text=True, env=env, cwd='/')
        if r.returncode != 0:
            raise RuntimeError('lexer dump failed: ' + r.stderr[-800:])
        d = json.loads(r.stdout)
        d['matchers'] = [(bytes.fromhex(p), f, c) for p, f, c in d['matchers']]
        d['keywords'] = [bytes.fromhex(k) for k in d['keywords']]
        d['escapes'] = {bytes.fromhex(k): bytes.fromhex(v) for k, v in d['escapes'].items()}
        d['reverse'] = {bytes.fromhex(k): bytes.fromhex(v) for k, v in d['reverse'].items()}
        _cache['d'] = d
    return _cache['d']
