"""C01 / C19: the token minifier as a finite-control transducer, EXTRACTED from the real loop body on every run.

The body of `for token in self._tokens:` in LuaMinifyTokenWriter.to_lines depends on (a) the token's class,
(b) two boolean flags on self, (c) two header counters, (d) `token.code in b'])}'`, and on nothing else.  The
symbolic executor runs the REAL body (ast of the working tree) once per (abstract control state x token class)
with the token's code kept symbolic, and records the yielded chunks and the next control state.  The resulting
table is the real transition function; the obligations of C01 / C19 are then decided by exhaustive exploration
of the reachable (control state x ghost state) pairs -- finitely many, so the result holds for token sequences
of every length.
"""
import ast
import z3

from . import values as V
from .values import E, SInt, SBool, SSeq, Ref, SymErr, AND, OR, NOT, seq_eq, tobool
from .execu import Exec, State, Outcome, BoundMethod, ClassVal, BuiltinVal, feasible
from .contract import Contract
from . import source, lexdump

LEXER = 'pico8.lua.lexer'
TARGET = 'pico8.lua.lua:LuaMinifyTokenWriter.to_lines'
SIGNIFICANT = ('TokName', 'TokLabel', 'TokKeyword', 'TokNumber', 'TokString', 'TokSymbol')
TRIVIA = ('TokComment', 'TokSpace', 'TokNewline')


class _BodyContract(Contract):
    """Hooks that interpret the three calls of the loop body."""
    target = TARGET
    mode = 'lia'
    no_merge = True

    class _Inline:
        """Token.matches and every helper method of the writer itself are executed (inlined), not assumed."""
        def __contains__(self, qual):
            return qual == 'pico8.lua.lexer:Token.matches' or qual.startswith('pico8.lua.lua:LuaMinifyTokenWriter.')
    inline = _Inline()

    def __init__(self):
        self.short_calls = []

    def call_hook(self, ex, node, f, args, kw, st):
        if isinstance(f, BuiltinVal) and f.name == 'isinstance' and len(args) == 2:
            # inside the inlined Token.matches: isinstance(other, type) / isinstance(self, other)
            v, t = args
            if isinstance(t, BuiltinVal) and t.name == 'type':
                return isinstance(v, ClassVal)
            if isinstance(t, ClassVal) and isinstance(v, Ref):
                return t.qual in source.class_info(v.tag)['mro']
            return NotImplemented
        if isinstance(f, BoundMethod) and f.qual.endswith(':MinifyNameFactory.get_short_name'):
            r = V.byte_seq('short')
            self.short_calls.append((r, SSeq.of(args[0]) if not isinstance(args[0], Ref) else st.seq(args[0])))
            return r
        return NotImplemented

    def contains_model(self, ex, cont, item, st):
        if isinstance(cont, (tuple, list)) and all(isinstance(x, bytes) for x in cont):
            if isinstance(item, bytes):
                return item in cont
            if isinstance(item, Ref):
                item = st.seq(item)
            return OR(*[seq_eq(SSeq.of(item), SSeq.of(x)) for x in cont])
        if isinstance(cont, bytes):
            if isinstance(item, bytes):
                return item in cont
            item = SSeq.of(item)
            subs = sorted({cont[i:j] for i in range(len(cont) + 1) for j in range(i, len(cont) + 1)})
            return OR(*[seq_eq(item, SSeq.of(s)) for s in subs])
        return None


def find_loop(fn):
    loops = [n for n in ast.walk(fn.node) if isinstance(n, ast.For)]
    if len(loops) != 1 or ast.unparse(loops[0].iter) != 'self._tokens' or ast.unparse(loops[0].target) != 'token':
        raise SymErr('to_lines is no longer a single `for token in self._tokens` loop')
    pre = [s for s in fn.node.body if s is not loops[0] and not (isinstance(s, ast.Expr) and isinstance(s.value, ast.Constant))]
    return loops[0], pre


def byte_constants():
    """K: every byte value occurring in a bytes constant of the writer (to_lines, __init__, class attributes).  The loop
    body can only distinguish token texts by comparing them with these constants, so first/last bytes of token texts are
    abstracted to 'k in K' or 'other' -- and the extraction CHECKS that the successor state is a function of that
    abstraction (else the run is undecided)."""
    K = set()
    ci = source.class_info('pico8.lua.lua:LuaMinifyTokenWriter')
    for q in sorted(set(ci['methods'].values())):
        if not q.startswith('pico8.lua.lua:LuaMinifyTokenWriter.'):
            continue
        for n in ast.walk(source.find_function(q).node):
            if isinstance(n, ast.Constant) and isinstance(n.value, bytes):
                K.update(n.value)

    def walk(v):
        if isinstance(v, bytes):
            K.update(v)
        elif isinstance(v, (tuple, list, set, frozenset)):
            for x in v:
                walk(x)
    for v in ci['attrs'].values():
        walk(v)
    return sorted(K)


def first_last_sets():
    """{real token class name: (FIRST byte set, LAST byte set, can be one byte long)} over-approximated from the real
    matcher table (strings / comments: from their delimiters)."""
    from . import reglang as R
    out = {}
    for p, f, c in lexdump.tables()['matchers']:
        n = R.build(p, f)
        fs, ls, one = _first_last(n)
        a = out.setdefault(c, [set(), set(), False])
        a[0] |= fs
        a[1] |= ls
        a[2] = a[2] or one
    out['TokString'] = [{34, 39, 91}, {34, 39, 93}, False]
    out.setdefault('TokComment', [set(), set(), False])
    out['TokComment'][0] |= {45, 47}
    out['TokComment'][1] |= set(range(256))
    return out


def _first_last(n):
    def closure(S):
        seen, todo = set(S), list(S)
        while todo:
            x = todo.pop()
            for kind, arg, t in n.edges[x]:
                if kind in ('e', 'g') and t not in seen:
                    seen.add(t)
                    todo.append(t)
        return seen
    start = closure({n.start})
    fs, ls, one = set(), set(), False
    for s in range(len(n.edges)):
        for kind, arg, t in n.edges[s]:
            if kind != 'c':
                continue
            bs = {c for c in range(256) if (arg >> c) & 1}
            fin = n.final in closure({t})
            if s in start:
                fs |= bs
                if fin:
                    one = True
            if fin:
                ls |= bs
    return fs, ls, one


def token_classes():
    """Refined token classes (class name, literal or None, first, last, single) -- first/last in K or 'o' (other)."""
    mi = source.module_info(LEXER)
    K = byte_constants()
    fl = first_last_sets()
    out = []
    for name, ci in sorted(mi['classes'].items()):
        if LEXER + ':Token' not in ci['mro'] or name == 'Token':
            continue
        if name == 'TokSymbol':
            from . import lexreg
            for lit in lexreg.symbols_of_impl():
                out.append((name, lit, None, None, None))
            continue
        fs, ls, one = fl.get(name, (set(range(256)), set(range(256)), True))

        def classes_of(S):
            r = [k for k in K if k in S]
            if any(c not in K for c in S):
                r.append('o')
            return r
        if one:
            for f in classes_of(fs & ls):
                out.append((name, None, f, f, True))
        for f in classes_of(fs):
            for l in classes_of(ls):
                out.append((name, None, f, l, False))
    return out


def _byte_of(st, cl, K, nm):
    if cl == 'o':
        b = V.fresh_int(nm)
        st.assume(AND(b >= 0, b <= 255, *[b != k for k in K]))
        return b
    return cl


def _const_bool(st, v):
    if isinstance(v, bool):
        return v
    t = tobool(v)
    if not feasible(st.pc, z3.Not(t)):
        return True
    if not feasible(st.pc, t):
        return False
    return None


def layout():
    """Control-state layout read from the REAL __init__ and the statements before the loop:
    ([(attr name, initial constant)], [(local name, initial constant)])."""
    init = source.find_function('pico8.lua.lua:LuaMinifyTokenWriter.__init__')
    attrs = []
    for s in init.node.body:
        if isinstance(s, ast.Assign) and len(s.targets) == 1 and isinstance(s.targets[0], ast.Attribute) and \
                isinstance(s.targets[0].value, ast.Name) and s.targets[0].value.id == 'self' and isinstance(s.value, ast.Constant):
            if not isinstance(s.value.value, (bool, bytes)):
                raise SymErr('control attribute %s has an unsupported initial value' % s.targets[0].attr)
            attrs.append((s.targets[0].attr, s.value.value))
    fn = source.find_function(TARGET)
    loop, pre = find_loop(fn)
    loc = []
    for s in pre:
        if isinstance(s, ast.Assign) and len(s.targets) == 1 and isinstance(s.targets[0], ast.Name) and \
                isinstance(s.value, ast.Constant) and isinstance(s.value.value, (bool, int)):
            loc.append((s.targets[0].id, s.value.value))
        else:
            raise SymErr('unexpected statement before the token loop: %s' % ast.unparse(s)[:60])
    return attrs, loc


def _abs_init(v, K):
    if isinstance(v, bool):
        return v
    if isinstance(v, int):
        return min(v, 2)
    if isinstance(v, bytes):
        if not v:
            return None
        return v[-1] if v[-1] in K else 'o'
    raise SymErr('initial value %r' % (v,))


def initial_state():
    attrs, loc = layout()
    K = byte_constants()
    return tuple(_abs_init(v, K) for _, v in attrs) + tuple(_abs_init(v, K) for _, v in loc)


def all_states():
    """Every abstract control state (product of the component domains)."""
    import itertools
    attrs, loc = layout()
    K = byte_constants()
    doms = []
    for _, v in attrs + loc:
        if isinstance(v, bool):
            doms.append((False, True))
        elif isinstance(v, int):
            doms.append((0, 1, 2))
        else:
            doms.append(tuple([None] + list(K) + ['o']))
    return list(itertools.product(*doms))


def _concretise(st, val, init, K, nm):
    """Value of a control component for one abstract value; (value, symbolic int marker or None)."""
    if isinstance(init, bool):
        return val, None
    if isinstance(init, int):
        if val == 2:
            h = V.fresh_int(nm)
            st.assume(h >= 2)
            return h, h
        return val, None
    if val is None:
        return b'', None
    return V.byte_seq(nm + '.pfx') + SSeq.of([_byte_of(st, val, K, nm + '.last')], 'bytes'), None


def _abstract(st, v, init, marker, K):
    if isinstance(init, bool):
        return _const_bool(st, v)
    if isinstance(init, int):
        if isinstance(v, int):
            return min(v, 2)
        if isinstance(v, SInt):
            if marker is not None and v.t.eq(marker.t):
                return 2
            if not feasible(st.pc, tobool(v < 2)):
                return 2
        return 'undetermined'
    if isinstance(v, Ref):
        v = st.seq(v)
    sq = SSeq.of(v)
    if _entails(st, sq.n == 0):
        return None
    if not _entails(st, sq.n >= 1):
        return 'undetermined'
    lb = sq.get(sq.n - 1)
    if isinstance(lb, int):
        return lb if lb in K else 'o'
    for k in K:
        if _entails(st, lb == k):
            return k
    if _entails(st, AND(*[lb != k for k in K])):
        return 'o'
    return 'undetermined'


def run_body(tokcls, state):
    """Execute the real loop body once for a refined token class and an abstract control state.
    Returns ([(chunk descriptors, next abstract state)], side obligations, axioms)."""
    cls, lit, f, l, single = tokcls
    E.reset('lia')
    fn = source.find_function(TARGET)
    loop, pre = find_loop(fn)
    attrs, loc = layout()
    K = byte_constants()
    c = _BodyContract()
    obls = []
    ex = Exec(fn, c, {}, obls, prefix='minify-body')
    st = State()
    factory = st.alloc({}, 'pico8.lua.lua:MinifyNameFactory')
    rec, markers = {'_name_factory': factory}, {}
    vals = list(state)
    for (nm, init), v in zip(attrs, vals[:len(attrs)]):
        rec[nm], markers[nm] = _concretise(st, v, init, K, nm)
    selfo = st.alloc(rec, 'pico8.lua.lua:LuaMinifyTokenWriter')
    locs = {}
    for (nm, init), v in zip(loc, vals[len(attrs):]):
        locs[nm], markers[nm] = _concretise(st, v, init, K, nm)
    if lit is not None:
        code = lit
    else:
        fb = _byte_of(st, f, K, 'code.first')
        if single:
            code = SSeq.of([fb], 'bytes')
        else:
            code = SSeq.of([fb], 'bytes') + V.byte_seq('code.mid') + SSeq.of([_byte_of(st, l, K, 'code.last')], 'bytes')
            code = SSeq(code.n, code.get, 'bytes')
    value = V.byte_seq('value') if cls == 'TokString' else code
    tok = st.alloc({'code': code, '_data': code, 'value': value}, LEXER + ':' + cls)
    st.locals.update({'self': selfo, 'token': tok, '__yielded__': SSeq.of([], 'list')})
    st.locals.update(locs)
    ex.is_generator = True
    npc0 = len(st.pc)
    outs = ex.block(loop.body, st)
    res = []
    work = [o.st for o in outs if o.kind in ('normal', 'continue')]
    if len(work) != len(outs):
        raise SymErr('loop body leaves the loop for a %s token' % cls)
    while work:
        s2 = work.pop()
        r2 = s2.heap[selfo.id]
        nxt = [_abstract(s2, r2[nm], init, markers[nm], K) for nm, init in attrs] + \
              [_abstract(s2, s2.locals[nm], init, markers[nm], K) for nm, init in loc]
        if 'undetermined' in nxt:
            raise SymErr('next control state of the minifier is not a function of (state, token class, first/last byte) for %s' % cls)
        if None in [v for v, (nm, init) in zip(nxt, attrs + loc) if isinstance(init, bool)]:
            # a flag that depends on the token's text beyond its class: the transition RELATION forks on that condition
            i = [j for j, (v, (nm, init)) in enumerate(zip(nxt, attrs + loc)) if isinstance(init, bool) and v is None][0]
            nm = (attrs + loc)[i][0]
            cond = tobool(r2[nm] if i < len(attrs) else s2.locals[nm])
            for cnd in (cond, z3.Not(cond)):
                s3 = s2.copy()
                s3.pc.append(cnd)
                if feasible(s3.pc):
                    work.append(s3)
            continue
        y = s2.locals['__yielded__']
        if not isinstance(y.n, int):
            raise SymErr('symbolic number of chunks')
        chunks = [describe(y.get(i), code, c.short_calls, s2) for i in range(y.n)]
        if len(c.short_calls) > 1:
            raise SymErr('more than one short-name request per token')
        res.append((tuple(chunks), tuple(nxt), _hint(s2, cls, code, value) if len(s2.pc) > npc0 else None))
    if len(res) > 1:
        res = [r if r[2] is not None or True else r for r in res]
    return res, obls, list(E.axioms)


def _hint(st, cls, code, value):
    """A concrete token text satisfying the path condition of a data-dependent outcome (for replay only)."""
    s = z3.Solver()
    s.set('timeout', 3000)
    for a in E.axioms:
        s.add(a)
    for cnd in st.pc:
        s.add(cnd)
    sq = SSeq.of(value if cls == 'TokString' else code)
    if not isinstance(sq.n, int):
        s.add(V.toint(sq.n) <= 6)
    if s.check() != z3.sat:
        return None
    m = s.model()
    n = sq.n if isinstance(sq.n, int) else m.eval(V.toint(sq.n), model_completion=True).as_long()
    bs = []
    for i in range(n):
        x = sq.get(i)
        bs.append(x if isinstance(x, int) else m.eval(V.toint(x), model_completion=True).as_long())
    txt = bytes(b & 255 for b in bs)
    if cls == 'TokString':
        if any(c in txt for c in b'"\\\n'):
            return None
        return (b'"' + txt + b'"').hex()
    return txt.hex()


def _entails(st, cl):
    if cl is True:
        return True
    if cl is False:
        return False
    return not feasible(st.pc, z3.Not(tobool(cl)))


def describe(v, code, shorts, st):
    if isinstance(v, bytes):
        if isinstance(code, bytes) and v == code:
            return ('code',)
        return ('const', v)
    v = SSeq.of(v)
    codeq = SSeq.of(code)
    if _entails(st, seq_eq(v, codeq)):
        return ('code',)
    for r, arg in shorts:
        if _entails(st, seq_eq(v, r)) and _entails(st, seq_eq(arg, codeq)):
            return ('short-code',)
        want = SSeq.of(b'::') + r + SSeq.of(b'::')
        if _entails(st, seq_eq(v, want)) and _entails(st, seq_eq(arg, codeq.slice(2, codeq.n - 2))):
            return ('label-short',)
    if isinstance(v.n, int) and all(isinstance(v.get(i), int) for i in range(v.n)):
        return ('const', bytes(v.get(i) for i in range(v.n)))
    return ('other', 'unrecognised chunk')


def table_chunk(job):
    """Transition relation for some (token classes x control states).  Side obligations are discharged here."""
    from .solve import solve_all
    classes, states = job
    table, side = {}, []
    for tc in classes:
        for stt in states:
            res, obls, ax = run_body(tc, stt)
            table[(stt, tc)] = res
            if obls:
                solve_all(obls, ax, jobs=1)
                side.extend((ob.name, ob.status, ob.secs, ob.backend, str(ob.model)[:1500] if ob.model is not None else None) for ob in obls)
    return table, side


def reachable_table(pool, nchunk=14):
    """Transition relation restricted to the control states reachable from the initial one (fixpoint over rounds;
    each round's rows are computed in parallel)."""
    classes = token_classes()
    init = initial_state()
    table, side = {}, []
    done, frontier = set(), [init]
    while frontier:
        jobs = [(classes[i::nchunk], frontier) for i in range(nchunk)]
        for t, sd in pool.map(table_chunk, jobs):
            table.update(t)
            side.extend(sd)
        done |= set(frontier)
        nxt = set()
        for st in frontier:
            for tc in classes:
                for _, s2, _h in table[(st, tc)]:
                    if s2 not in done:
                        nxt.add(s2)
        frontier = sorted(nxt, key=repr)
    return init, table, side


# ------------------------------------------------------------------------------------------------ stats token count

class _CountContract(Contract):
    """Hooks for the loop body of Lua.get_token_count: pattern tokens built inline (lexer.TokSymbol(b':')) are descriptors;
    `t.matches(x)` is isinstance for a class and 'same class and equal data' for a pattern token (Token.__eq__)."""
    target = 'pico8.lua.lua:Lua.get_token_count'
    mode = 'lia'
    no_merge = True
    method_model_first = True

    def call_hook(self, ex, node, f, args, kw, st):
        if isinstance(f, ClassVal) and f.qual.startswith(LEXER + ':Tok') and len(args) == 1 and isinstance(args[0], bytes):
            return ('pattern-token', f.qual, args[0])
        if isinstance(f, BoundMethod) and f.qual.endswith(':Token.matches') and len(args) == 1:
            tok = f.recv
            rec = st.heap[tok.id]
            a = args[0]
            if isinstance(a, ClassVal):
                return a.qual in source.class_info(tok.tag)['mro']
            if isinstance(a, tuple) and a[:1] == ('pattern-token',):
                if a[1] != tok.tag:
                    return False                   # Token.__eq__: different types are never equal
                return seq_eq(SSeq.of(rec['_data']), SSeq.of(a[2]))
            return NotImplemented
        if isinstance(f, BuiltinVal) and f.name == 'isinstance' and len(args) == 2 and isinstance(args[1], ClassVal) and isinstance(args[0], Ref):
            return args[1].qual in source.class_info(args[0].tag)['mro']
        return NotImplemented

    def method_model(self, ex, recv, name, A, kw, st, node):
        if name == 'find' and len(A) == 1:
            r = V.fresh_int('find')                # position of a byte string in the token text, -1 if absent: some int >= -1
            st.assume(r >= -1)
            return r
        return NotImplemented


def token_weights():
    """{class name: sorted list of possible increments of the counter for one token of that class with ARBITRARY data}
    read off the real loop body of Lua.get_token_count."""
    fn = source.find_function('pico8.lua.lua:Lua.get_token_count')
    loops = [n for n in fn.node.body if isinstance(n, ast.For)]
    if len(loops) != 1 or ast.unparse(loops[0].target) != 't':
        raise SymErr('get_token_count is no longer one loop over the tokens')
    out = {}
    mi = source.module_info(LEXER)
    for name, ci in sorted(mi['classes'].items()):
        if LEXER + ':Token' not in ci['mro'] or name == 'Token':
            continue
        E.reset('lia')
        c = _CountContract()
        ex = Exec(fn, c, {}, [], prefix='count-body')
        st = State()
        data = V.byte_seq('data')
        st.assume(data.n >= 1)
        tok = st.alloc({'_data': data, 'code': data}, LEXER + ':' + name)
        c0 = V.fresh_int('c')
        st.locals.update({'self': st.alloc({}, 'pico8.lua.lua:Lua'), 't': tok, 'c': c0})
        incs = set()
        try:
            outs = ex.block(loops[0].body, st)
        except SymErr as e:
            out[name] = 'unsupported: %s' % e
            continue
        for o in outs:
            if not feasible(o.st.pc):
                continue
            c1 = o.st.locals['c']
            d = None
            for k in (0, 1, 2, 3):
                if _entails(o.st, c1 == c0 + k):
                    d = k
            incs.add(d)
        out[name] = sorted(incs, key=lambda x: (x is None, x))
    return out
