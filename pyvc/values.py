"""Symbolic value layer of pyvc.

Two integer encodings, chosen per function under contract:
  * 'lia': Python ints are z3 Int (mathematical integers) -- exact.
  * 'bv' : Python ints are 32-bit vectors; EVERY arithmetic node registers a
           no-wrap side condition with the engine, which turns it into an
           obligation, so the encoding is exact wherever the obligations are
           discharged (machine arithmetic is never silently assumed).

Sequences (bytes / bytearray / list / str-as-code-points) are *functional*:
a length term and a Python closure index-term -> element value.  Slices,
concatenations, element stores and slice stores (which may change the length,
exactly as CPython does) are compositions of closures, so verification
conditions stay (almost) quantifier free.
"""
import z3

WIDTH = 32


class Engine:
    """Global hooks: integer mode, side-condition sink, fresh names."""
    mode = 'lia'
    sink = None          # callable(cond: z3 Bool, what: str) or None
    axioms = []          # global facts (true in every state)
    guards = []          # conditions under which the code being evaluated is reached
    lemmas = []          # (name, hyps, goal): induction steps of lemmas whose conclusion was added to axioms
    oracle = None        # callable(cond term, guards) -> True/False/None, installed by the executor
    var_bounds = {}      # term id of an input variable -> (lo, hi) assumed at its creation on every path
    concrete = False     # judging a concrete run: bounded quantifiers are expanded, not handed to z3
    size_hints = []      # callables bound -> z3 Bool: 'every input size <= bound' (to get small counter-models)
    _n = 0

    @classmethod
    def reset(cls, mode):
        cls.mode = mode
        cls.sink = None
        cls.axioms = []
        cls.guards = []
        cls.size_hints = []
        cls.concrete = False
        cls.var_bounds = {}
        cls.oracle = None
        cls.lemmas = []
        _KNOWN.clear()
        _BND.clear()
        del _BND_KEEP[:]
        cls._n = 0

    @classmethod
    def fresh(cls, base):
        cls._n += 1
        return '%s!%d' % (base, cls._n)

    @classmethod
    def side(cls, cond, what):
        if cls.sink is not None:
            if cls.guards:
                cond = z3.Implies(z3.And(*cls.guards), cond)
            cls.sink(cond, what)


class guarded:
    """Side conditions raised inside the block only need to hold when `cond` does."""
    def __init__(self, cond):
        self.cond = cond

    def __enter__(self):
        if not isinstance(self.cond, bool):
            Engine.guards.append(tobool(self.cond))
        elif not self.cond:
            Engine.guards.append(z3.BoolVal(False))
        else:
            Engine.guards.append(z3.BoolVal(True))

    def __exit__(self, *a):
        Engine.guards.pop()


E = Engine


def isort():
    return z3.IntSort() if E.mode == 'lia' else z3.BitVecSort(WIDTH)


_CONSTS = {}


def iconst(n):
    key = (E.mode, n)
    r = _CONSTS.get(key)
    if r is not None:
        return r
    if E.mode == 'lia':
        r = z3.IntVal(n)
    else:
        if not -(1 << (WIDTH - 1)) <= n < (1 << (WIDTH - 1)):
            raise SymErr('constant %r does not fit the %d-bit encoding' % (n, WIDTH))
        r = z3.BitVecVal(n, WIDTH)
    if len(_CONSTS) < 200000:
        _CONSTS[key] = r
    return r


def ivar(name):
    return z3.Const(name, isort())


class SymErr(Exception):
    """Construct outside the supported subset (=> undecided, never violation)."""


class SBool:
    __slots__ = ('t',)

    def __init__(self, t):
        self.t = t

    def __and__(self, o):
        return SBool(z3.And(self.t, tobool(o)))
    __rand__ = __and__

    def __or__(self, o):
        return SBool(z3.Or(self.t, tobool(o)))
    __ror__ = __or__

    def __invert__(self):
        return SBool(z3.Not(self.t))

    def __bool__(self):
        raise SymErr('python truth value of a symbolic bool')

    def __repr__(self):
        return 'SBool(%s)' % self.t


def tobool(v):
    if isinstance(v, SBool):
        return v.t
    if isinstance(v, bool):
        return z3.BoolVal(v)
    if isinstance(v, z3.BoolRef):
        return v
    raise SymErr('not a bool: %r' % (v,))


def toint(v):
    """z3 term of an int-like value."""
    if isinstance(v, SInt):
        return v.t
    if isinstance(v, bool):
        return iconst(int(v))
    if isinstance(v, int):
        return iconst(v)
    if isinstance(v, SBool):
        return z3.If(v.t, iconst(1), iconst(0))
    raise SymErr('not an int: %r' % (v,))


def is_intlike(v):
    return isinstance(v, (SInt, int)) and not isinstance(v, SBool)


def _contig_runs(mask):
    """Split a non-negative mask into (lo, hi) runs of set bits."""
    runs, i = [], 0
    while mask >> i:
        if (mask >> i) & 1:
            j = i
            while (mask >> j) & 1:
                j += 1
            runs.append((i, j))
            i = j
        else:
            i += 1
    return runs


class SInt:
    __slots__ = ('t',)

    def __init__(self, t):
        self.t = t

    def __repr__(self):
        return 'SInt(%s)' % z3.simplify(self.t)

    def __bool__(self):
        raise SymErr('python truth value of a symbolic int')

    def __hash__(self):
        return id(self)

    def __index__(self):
        raise SymErr('symbolic int used as a concrete index')

    # ---- arithmetic -------------------------------------------------
    def _bin(self, o, op, swap=False):
        if isinstance(o, SSeq) or isinstance(o, (bytes, str, list, tuple)):
            return NotImplemented
        a, b = toint(self), toint(o)
        if swap:
            a, b = b, a
        return SInt(_arith(op, a, b))

    def __add__(self, o): return self._bin(o, 'add')
    def __radd__(self, o): return self._bin(o, 'add', True)
    def __sub__(self, o): return self._bin(o, 'sub')
    def __rsub__(self, o): return self._bin(o, 'sub', True)
    def __mul__(self, o): return self._bin(o, 'mul')
    def __rmul__(self, o): return self._bin(o, 'mul', True)
    def __floordiv__(self, o): return self._bin(o, 'div')
    def __rfloordiv__(self, o): return self._bin(o, 'div', True)
    def __mod__(self, o): return self._bin(o, 'mod')
    def __rmod__(self, o): return self._bin(o, 'mod', True)
    def __and__(self, o): return self._bin(o, 'and')
    def __rand__(self, o): return self._bin(o, 'and', True)
    def __or__(self, o): return self._bin(o, 'or')
    def __ror__(self, o): return self._bin(o, 'or', True)
    def __xor__(self, o): return self._bin(o, 'xor')
    def __rxor__(self, o): return self._bin(o, 'xor', True)
    def __lshift__(self, o): return self._bin(o, 'shl')
    def __rlshift__(self, o): return self._bin(o, 'shl', True)
    def __rshift__(self, o): return self._bin(o, 'shr')
    def __rrshift__(self, o): return self._bin(o, 'shr', True)

    def __neg__(self):
        return SInt(_arith('sub', iconst(0), self.t))

    def __pos__(self):
        return self

    def __invert__(self):
        if E.mode == 'lia':
            return SInt(-self.t - 1)
        return SInt(~self.t)

    # ---- comparisons ------------------------------------------------
    def __lt__(self, o): return SBool(self.t < toint(o))
    def __le__(self, o): return SBool(self.t <= toint(o))
    def __gt__(self, o): return SBool(self.t > toint(o))
    def __ge__(self, o): return SBool(self.t >= toint(o))

    def __eq__(self, o):
        if o is None or isinstance(o, (SSeq, bytes, str, tuple, list)):
            return False
        return SBool(self.t == toint(o))

    def __ne__(self, o):
        if o is None or isinstance(o, (SSeq, bytes, str, tuple, list)):
            return True
        return SBool(self.t != toint(o))


def _cval(t):
    """Concrete python int of a numeral term, else None."""
    if z3.is_int_value(t):
        return t.as_long()
    if z3.is_bv_value(t):
        return t.as_signed_long()
    return None


_FULL = (-(1 << (WIDTH - 1)), (1 << (WIDTH - 1)) - 1)
_BND = {}


def bounds(t):
    """Sound interval (lo, hi) of the signed value of a 32-bit term, by structural interval arithmetic.
    Used only to SKIP no-wrap side conditions that are trivially true; anything unknown is the full range."""
    key = t.get_id()
    r = _BND.get(key)
    if r is not None:
        return r
    r = _bounds(t)
    if r[0] < _FULL[0] or r[1] > _FULL[1]:
        r = _FULL
    if len(_BND) < 400000:
        _BND[key] = r
        _BND_KEEP.append(t)
    return r


_BND_KEEP = []


def _bounds(t):
    if z3.is_bv_value(t):
        v = t.as_signed_long()
        return (v, v)
    if not z3.is_app(t) or t.size() != WIDTH:
        return _FULL
    k = t.decl().kind()
    n = t.num_args()
    if n == 0:
        return E.var_bounds.get(t.get_id(), _FULL)
    if k == z3.Z3_OP_ZERO_EXT:
        return (0, (1 << t.arg(0).size()) - 1)
    ar = [bounds(t.arg(i)) for i in range(n)] if k != z3.Z3_OP_ITE else None
    if k == z3.Z3_OP_ITE:
        a, b = bounds(t.arg(1)), bounds(t.arg(2))
        return (min(a[0], b[0]), max(a[1], b[1]))
    if k == z3.Z3_OP_BADD:
        return (sum(x[0] for x in ar), sum(x[1] for x in ar))
    if k == z3.Z3_OP_BSUB and n == 2:
        return (ar[0][0] - ar[1][1], ar[0][1] - ar[1][0])
    if k == z3.Z3_OP_BMUL and n == 2:
        c = [x * y for x in ar[0] for y in ar[1]]
        return (min(c), max(c))
    if k == z3.Z3_OP_BAND:
        nn = [x[1] for x in ar if x[0] >= 0]
        return (0, min(nn)) if nn else _FULL
    if k in (z3.Z3_OP_BOR, z3.Z3_OP_BXOR):
        if all(x[0] >= 0 for x in ar):
            return (0, (1 << max(x[1] for x in ar).bit_length()) - 1)
        return _FULL
    if k in (z3.Z3_OP_BASHR, z3.Z3_OP_BSHL) and z3.is_bv_value(t.arg(1)):
        c = t.arg(1).as_long()
        if c >= WIDTH:
            return _FULL
        if k == z3.Z3_OP_BASHR:
            return (ar[0][0] >> c, ar[0][1] >> c)
        return (ar[0][0] << c, ar[0][1] << c)
    if k in (z3.Z3_OP_BSMOD, z3.Z3_OP_BUREM) and z3.is_bv_value(t.arg(1)) and t.arg(1).as_signed_long() > 0:
        if k == z3.Z3_OP_BUREM and ar[0][0] < 0:
            return _FULL
        return (0, t.arg(1).as_signed_long() - 1)
    if k == z3.Z3_OP_BUDIV and z3.is_bv_value(t.arg(1)) and t.arg(1).as_signed_long() > 0 and ar[0][0] >= 0:
        c = t.arg(1).as_signed_long()
        return (ar[0][0] // c, ar[0][1] // c)
    if k == z3.Z3_OP_BSDIV and z3.is_bv_value(t.arg(1)) and t.arg(1).as_signed_long() > 0:
        c = t.arg(1).as_signed_long()
        tr = lambda x: x // c if x >= 0 else -((-x) // c)
        return (tr(ar[0][0]), tr(ar[0][1]))
    return _FULL


def _fits(lo, hi):
    return _FULL[0] <= lo and hi <= _FULL[1]


def _arith(op, a, b):
    ca, cb = _cval(a), _cval(b)
    if ca is not None and cb is not None:
        r = {'add': lambda: ca + cb, 'sub': lambda: ca - cb, 'mul': lambda: ca * cb,
             'div': lambda: ca // cb, 'mod': lambda: ca % cb, 'and': lambda: ca & cb,
             'or': lambda: ca | cb, 'xor': lambda: ca ^ cb, 'shl': lambda: ca << cb,
             'shr': lambda: ca >> cb}[op]()
        return iconst(r)
    if E.mode == 'lia':
        if op == 'add': return a + b
        if op == 'sub': return a - b
        if op == 'mul':
            return a * b
        if op == 'div':
            if cb is None or cb == 0:
                E.side(b != 0, 'ZeroDivisionError')
            if cb is not None and cb > 0:
                return a / b          # z3 Int div: floor for positive divisor
            return _floordiv_lia(a, b)
        if op == 'mod':
            if cb is None or cb == 0:
                E.side(b != 0, 'ZeroDivisionError')
            if cb is not None and cb > 0:
                return a % b
            return a - b * _floordiv_lia(a, b)
        if op == 'shl':
            if cb is None or cb < 0:
                raise SymErr('lia: shift by non-constant')
            return a * (1 << cb)
        if op == 'shr':
            if cb is None or cb < 0:
                raise SymErr('lia: shift by non-constant')
            return a / (1 << cb)
        if op == 'and':
            if cb is None and ca is not None:
                a, b, ca, cb = b, a, cb, ca
            if cb is None or cb < 0:
                raise SymErr('lia: & with non-constant mask (use ints="bv")')
            tot = z3.IntVal(0)
            for lo, hi in _contig_runs(cb):
                tot = tot + ((a / (1 << lo)) % (1 << (hi - lo))) * (1 << lo)
            return tot
        if op == 'or':
            # (t * 2^k) | b  ==  t * 2^k + b   whenever 0 <= b < 2^k  (side condition => obligation)
            for x, y in ((a, b), (b, a)):
                k = _pow2_multiple(x)
                if k:
                    E.side(z3.And(y >= 0, y < (1 << k)), 'lia: | operand below 2^%d' % k)
                    return x + y
        raise SymErr('lia: operator %s needs ints="bv"' % op)
    # ---- bit-vector mode, exact under the registered no-wrap conditions
    if op == 'add':
        x, y = bounds(a), bounds(b)
        if not _fits(x[0] + y[0], x[1] + y[1]):
            E.side(z3.And(z3.BVAddNoOverflow(a, b, True), z3.BVAddNoUnderflow(a, b)), 'bv-nowrap add')
        return a + b
    if op == 'sub':
        x, y = bounds(a), bounds(b)
        if not _fits(x[0] - y[1], x[1] - y[0]):
            E.side(z3.And(z3.BVSubNoOverflow(a, b), z3.BVSubNoUnderflow(a, b, True)), 'bv-nowrap sub')
        return a - b
    if op == 'mul':
        x, y = bounds(a), bounds(b)
        c = [p * q for p in x for q in y]
        if not _fits(min(c), max(c)):
            E.side(z3.And(z3.BVMulNoOverflow(a, b, True), z3.BVMulNoUnderflow(a, b)), 'bv-nowrap mul')
        return a * b
    if op == 'div':
        if cb is None or cb == 0:
            E.side(b != 0, 'ZeroDivisionError')
        if cb is not None and cb > 0 and (cb & (cb - 1)) == 0:
            return a >> (cb.bit_length() - 1)      # floor division by 2^k == arithmetic shift (exact for all a)
        if cb is not None and cb > 0 and bounds(a)[0] >= 0:
            return z3.UDiv(a, b)                   # non-negative dividend: unsigned division IS floor division
        # bvsdiv truncates; python floors. exact for a>=0,b>0; else correct it.
        q = a / b
        r = z3.SRem(a, b)
        return z3.If(z3.And(r != 0, (r < 0) != (b < 0)), q - 1, q)
    if op == 'mod':
        if cb is None or cb == 0:
            E.side(b != 0, 'ZeroDivisionError')
        if cb is not None and cb > 0 and (cb & (cb - 1)) == 0:
            return a & iconst(cb - 1)              # python a % 2^k == a & (2^k - 1) for every int a
        if cb is not None and cb > 0 and bounds(a)[0] >= 0:
            return z3.URem(a, b)
        return a % b              # bvsmod: sign follows divisor, as python
    if op == 'and': return a & b  # two's complement == python for in-range ints
    if op == 'or': return a | b
    if op == 'xor': return a ^ b
    if op == 'shl':
        if cb is None or not 0 <= cb < WIDTH:
            E.side(z3.And(b >= 0, b < WIDTH), 'bv shift amount in range')
        r = a << b
        x = bounds(a)
        if cb is None or not 0 <= cb < WIDTH or not _fits(x[0] << cb, x[1] << cb):
            E.side((r >> b) == a, 'bv-nowrap shl')
        return r
    if op == 'shr':
        if cb is not None and 0 <= cb < WIDTH:
            return a >> b
        E.side(b >= 0, 'negative shift count')
        return z3.If(b >= WIDTH, z3.If(a < 0, iconst(-1), iconst(0)), a >> b)
    raise SymErr('operator %s' % op)


def _pow2_multiple(t):
    """k if the term is syntactically  c * u  with c = 2^k, k >= 1; else 0."""
    if z3.is_mul(t) and t.num_args() == 2:
        for i in (0, 1):
            c = t.arg(i)
            if z3.is_int_value(c):
                v = c.as_long()
                if v > 1 and v & (v - 1) == 0:
                    return v.bit_length() - 1
    return 0


def _floordiv_lia(a, b):
    # z3 Int div rounds so that remainder is non-negative (euclidean):
    # a = b*q + r, 0 <= r < |b|.  Python floors: for b>0 identical; for b<0
    # python q' = -( (-a) floordiv... ) handle via: floor(a/b) = euclid(a,b) if b>0
    # else: if r == 0 then q else q - ... ; for b<0 euclid gives q with r>=0,
    # python wants r<=0: q' = q if r==0 else q+... (b<0: a = b*q + r, want a = b*q' + r', r' = r + b (<0), q' = q - 1)... check: b*q'+r' = b*q - b + r + b = a.
    q = a / b
    r = a % b
    return z3.If(b > 0, q, z3.If(r == 0, q, q - 1))


# ---------------------------------------------------------------- sequences

class SSeq:
    """Immutable functional sequence.  kind: 'bytes' | 'list' | 'str' | 'tuple'."""
    __slots__ = ('n', 'get', 'kind', 'arr', 'parts')

    def __init__(self, n, get, kind='bytes', arr=None, parts=None):
        self.n = n if isinstance(n, (SInt, int)) else SInt(n)
        self.get = get
        self.kind = kind
        self.arr = arr          # z3 array term when this is a base (input) sequence: fast model read-out
        self.parts = parts      # (left, right) when this is a concatenation: lets equalities be split

    def __repr__(self):
        return 'SSeq<%s,len=%r>' % (self.kind, self.n)

    def __hash__(self):
        return id(self)

    def __bool__(self):
        raise SymErr('python truth value of a symbolic sequence')

    @staticmethod
    def of(v, kind=None):
        """Lift a concrete python sequence."""
        if isinstance(v, SSeq):
            return v
        if isinstance(v, (bytes, bytearray)):
            items, k = list(v), 'bytes'
        elif isinstance(v, str):
            items, k = [ord(c) for c in v], 'str'
        elif isinstance(v, (list, tuple)):
            items, k = list(v), 'list' if isinstance(v, list) else 'tuple'
        else:
            raise SymErr('not a sequence: %r' % (v,))
        return SSeq(len(items), _table_get(items), kind or k)

    def at(self, i):
        """Raw read (no python index normalisation, no bounds obligation)."""
        return self.get(i)

    def __getitem__(self, i):
        if isinstance(i, slice):
            if i.step is not None:
                raise SymErr('slice step')
            return self.slice(i.start, i.stop)
        return self.get(i)

    def norm(self, i, default):
        """Python slice-bound normalisation, clamped into [0, len]."""
        if i is None:
            return default
        n = self.n
        if isinstance(i, int) and isinstance(n, int):
            if i < 0:
                i += n
            return max(0, min(i, n))
        neg = i < 0
        with guarded(neg):
            wrapped = i + n
        i2 = ite(neg, wrapped, i)
        return ite(i2 < 0, 0, ite(i2 > n, n, i2))

    def slice(self, lo, hi):
        lo = self.norm(lo, 0)
        hi = self.norm(hi, self.n)
        ln = ite(hi > lo, hi - lo, 0) if not (isinstance(lo, int) and isinstance(hi, int)) else max(0, hi - lo)
        g = self.get
        return SSeq(ln, lambda k: g(lo + k), self.kind)

    def __add__(self, o):
        o = SSeq.of(o)
        a, b, n = self.get, o.get, self.n
        return SSeq(self.n + o.n, lambda k: vite(k < n, lambda: a(k), lambda: b(k - n)), self.kind, None, (self, o))

    def __radd__(self, o):
        return SSeq.of(o).__add__(self)

    def store(self, i, v):
        g = self.get
        return SSeq(self.n, lambda k: vite(k == i, lambda: v, lambda: g(k)), self.kind)

    def store_slice(self, lo, hi, src):
        """CPython s[lo:hi] = src for a mutable sequence (length may change)."""
        lo = self.norm(lo, 0)
        hi = self.norm(hi, self.n)
        hi = ite(hi < lo, lo, hi)
        src = SSeq.of(src)
        return self.slice(0, lo) + src + self.slice(hi, self.n)

    def with_kind(self, kind):
        return SSeq(self.n, self.get, kind, self.arr, self.parts)


def _table_get(items):
    def get(k):
        if isinstance(k, int):
            return items[k] if 0 <= k < len(items) else 0     # raw read outside the table (spec side only)
        if not items:
            return 0
        # nested ite over a concrete table
        allint = all(isinstance(x, int) and not isinstance(x, bool) for x in items)
        if allint and len(items) > 8:
            return SInt(_table_fn(tuple(items))(toint(k)))
        r = items[-1]
        for j in range(len(items) - 2, -1, -1):
            r = vite(k == j, (lambda x: (lambda: x))(items[j]), (lambda x: (lambda: x))(r))
        return r
    return get


_TABLES = {}


def _table_fn(items):
    """Concrete int table as an uninterpreted function + ground axioms."""
    key = (E.mode, items)
    hit = _TABLES.get(key)
    if hit is not None and hit[1] is E.axioms:
        return hit[0]
    f = z3.Function(E.fresh('tbl'), isort(), isort())
    for j, x in enumerate(items):
        E.axioms.append(f(iconst(j)) == iconst(x))
    _TABLES[key] = (f, E.axioms)
    return f


def ite(c, a, b):
    """If-then-else over ints/bools (python values when c is concrete)."""
    if isinstance(c, bool):
        return a if c else b
    c = tobool(c)
    if isinstance(a, (SBool, bool)) and isinstance(b, (SBool, bool)):
        return SBool(z3.If(c, tobool(a), tobool(b)))
    if a is b or (isinstance(a, int) and isinstance(b, int) and not isinstance(a, bool) and not isinstance(b, bool) and a == b):
        return a
    return SInt(z3.If(c, toint(a), toint(b)))


_KNOWN = {}


def known(c):
    """True / False when the condition is decided (syntactically, or by the oracle under the current path
    condition and guards), else None.  Only used to avoid BUILDING unreachable branches: purely an optimisation,
    the oracle answers only what the solver proves."""
    if isinstance(c, bool):
        return c
    t = z3.simplify(tobool(c))
    if z3.is_true(t):
        return True
    if z3.is_false(t):
        return False
    if E.oracle is None:
        return None
    key = (t.get_id(), tuple(g.get_id() for g in E.guards), id(E.oracle))
    if key in _KNOWN:
        return _KNOWN[key][0]
    r = E.oracle(t, E.guards)
    if len(_KNOWN) < 200000:
        _KNOWN[key] = (r, t)
    return r


def vite(c, fa, fb):
    """Lazy if-then-else over arbitrary values (thunks)."""
    if not isinstance(c, bool) and E.oracle is not None:
        d = known(c)
        if d is not None:
            c = d
    if isinstance(c, bool):
        return fa() if c else fb()
    with guarded(c):
        a = fa()
    with guarded(NOT(c)):
        b = fb()
    return merge_values(c, a, b)


def merge_values(c, a, b):
    if a is b:
        return a
    if isinstance(c, bool):
        return a if c else b
    if isinstance(a, (SSeq, bytes, bytearray, str)) or isinstance(b, (SSeq, bytes, bytearray, str)):
        if a is None or b is None:
            raise SymErr('merge of None and sequence')
        a, b = SSeq.of(a), SSeq.of(b)
        ga, gb = a.get, b.get
        return SSeq(ite(c, a.n, b.n), lambda k: vite(c, lambda: ga(k), lambda: gb(k)), a.kind)
    if isinstance(a, (SBool, bool)) and isinstance(b, (SBool, bool)):
        return ite(c, a, b)
    if is_intlike(a) and is_intlike(b):
        if isinstance(a, int) and isinstance(b, int) and a == b:
            return a
        return ite(c, a, b)
    if isinstance(a, tuple) and isinstance(b, tuple) and len(a) == len(b):
        return tuple(merge_values(c, x, y) for x, y in zip(a, b))
    if isinstance(a, SOpt) or isinstance(b, SOpt) or a is None or b is None:
        a, b = SOpt.of(a), SOpt.of(b)
        return SOpt(ite(c, a.isnone, b.isnone), merge_values(c, a.val, b.val))
    if a == b:
        return a
    raise SymErr('cannot merge %r / %r' % (a, b))


class SOpt:
    """Optional value: python None or an inner value, decided by a symbolic bool."""
    __slots__ = ('isnone', 'val')

    def __init__(self, isnone, val):
        self.isnone = isnone
        self.val = val

    @staticmethod
    def of(v):
        if isinstance(v, SOpt):
            return v
        if v is None:
            return SOpt(True, 0)
        return SOpt(False, v)


class SymMap:
    """Symbolic dict with int-coded keys and values: `has` (Array Int->Bool) and `val` (Array Int->Int), plus named
    GHOST arrays (e.g. the id a value was generated from) that contracts may attach.  Immutable; store returns a copy."""
    __slots__ = ('has', 'val', 'ghost')

    def __init__(self, has, val, ghost=None):
        self.has, self.val, self.ghost = has, val, dict(ghost or {})

    @staticmethod
    def fresh(name, ghosts=()):
        I = z3.IntSort()
        return SymMap(z3.Array(E.fresh(name + '.has'), I, z3.BoolSort()), z3.Array(E.fresh(name + '.val'), I, I),
                      {g: z3.Array(E.fresh(name + '.' + g), I, I) for g in ghosts})

    def contains(self, k):
        return SBool(z3.Select(self.has, toint(k)))

    def get(self, k):
        return SInt(z3.Select(self.val, toint(k)))

    def gget(self, g, k):
        return SInt(z3.Select(self.ghost[g], toint(k)))

    def store(self, k, v, **ghost):
        gh = dict(self.ghost)
        for g, x in ghost.items():
            gh[g] = z3.Store(gh[g], toint(k), toint(x))
        return SymMap(z3.Store(self.has, toint(k), z3.BoolVal(True)), z3.Store(self.val, toint(k), toint(v)), gh)


class Ref:
    """Reference to a mutable heap cell (bytearray / list / object record)."""
    __slots__ = ('id', 'tag')

    def __init__(self, id, tag):
        self.id = id
        self.tag = tag        # 'bytearray' | 'list' | class name for objects

    def __repr__(self):
        return 'Ref(%s:%s)' % (self.tag, self.id)


# ------------------------------------------------------------ DSL helpers
# (usable with concrete python values as well, so contracts can be evaluated
#  at run time by the replay harness)

def AND(*xs):
    xs = [x for x in xs if x is not True]
    if any(x is False for x in xs):
        return False
    if not xs:
        return True
    return SBool(z3.And(*[tobool(x) for x in xs]))


def OR(*xs):
    xs = [x for x in xs if x is not False]
    if any(x is True for x in xs):
        return True
    if not xs:
        return False
    return SBool(z3.Or(*[tobool(x) for x in xs]))


def NOT(x):
    if isinstance(x, bool):
        return not x
    return SBool(z3.Not(tobool(x)))


def implies(a, b):
    if a is False or b is True:
        return True
    if a is True:
        return b
    return SBool(z3.Implies(tobool(a), tobool(b)))


def iff(a, b):
    if isinstance(a, bool) and isinstance(b, bool):
        return a == b
    return SBool(tobool(a) == tobool(b))


def length(s):
    if isinstance(s, SSeq):
        return s.n
    return len(s)


def fresh_int(base='v'):
    return SInt(ivar(E.fresh(base)))


def fresh_bool(base='b'):
    return SBool(z3.Bool(E.fresh(base)))


def forall(lo, hi, body, base='k'):
    """forall k in [lo, hi): body(k)   (z3 quantifier; fine in goals and hypotheses)."""
    if E.concrete and isinstance(lo, int) and isinstance(hi, int) and hi - lo <= 2000000:
        acc = []
        for i in range(lo, hi):
            b = body(i)
            if b is False:
                return False
            if b is not True:
                acc.append(b)
        return AND(*acc)
    k = ivar(E.fresh(base))
    note_range(SInt(k), lo, hi)
    old = E.sink
    conds = []
    E.sink = lambda c, w: conds.append(c)
    try:
        b = body(SInt(k))
    finally:
        E.sink = old
    rng = z3.And(toint(lo) <= k, k < toint(hi))
    # side conditions raised inside the body must hold for every k in range
    for c in conds:
        E.side(z3.ForAll([k], z3.Implies(rng, c)), 'side condition inside forall')
    return SBool(z3.ForAll([k], z3.Implies(rng, tobool(b))))


def val_eq(a, b):
    """Structural equality of two values as a (symbolic) bool."""
    if isinstance(a, SOpt) or isinstance(b, SOpt):
        a, b = SOpt.of(a), SOpt.of(b)
        return AND(iff(a.isnone, b.isnone), implies(NOT(a.isnone), val_eq(a.val, b.val)))
    if a is None or b is None:
        return a is b
    if isinstance(a, (SSeq, bytes, bytearray, str, list)) or isinstance(b, (SSeq, bytes, bytearray, str, list)):
        return seq_eq(SSeq.of(a), SSeq.of(b))
    if isinstance(a, tuple) and isinstance(b, tuple):
        if len(a) != len(b):
            return False
        return AND(*[val_eq(x, y) for x, y in zip(a, b)])
    if isinstance(a, (SBool, bool)) and isinstance(b, (SBool, bool)):
        return iff(a, b)
    if is_intlike(a) and is_intlike(b):
        if isinstance(a, int) and isinstance(b, int):
            return a == b
        ta, tb = toint(a), toint(b)
        if ta.eq(tb):
            return True
        return SBool(ta == tb)
    if isinstance(a, (SBool, bool)) or isinstance(b, (SBool, bool)):
        return SBool(toint(a) == toint(b))
    raise SymErr('val_eq on %r / %r' % (a, b))


def seq_eq(a, b):
    a, b = SSeq.of(a), SSeq.of(b)
    if isinstance(a.n, int) and isinstance(b.n, int):
        if a.n != b.n:
            return False
        if a.n <= 32:
            return AND(*[val_eq(a.get(i), b.get(i)) for i in range(a.n)])
    return AND(val_eq(a.n, b.n), forall(0, a.n, lambda k: val_eq(a.get(k), b.get(k)), 'i'))


def note_range(v, lo, hi_excl):
    """Record lo <= v < hi_excl for the interval analysis; v must only be used under that assumption."""
    if E.mode != 'bv' or not isinstance(v, SInt):
        return
    l = lo if isinstance(lo, int) else bounds(toint(lo))[0]
    h = (hi_excl if isinstance(hi_excl, int) else bounds(toint(hi_excl))[1]) - 1
    if h >= l:
        E.var_bounds[v.t.get_id()] = (l, h)


def split_eq(a, b, chunk=24, _depth=0, cases=None):
    """Equality of two values as a LIST of (suffix, clause) -- the conjunction is val_eq(a, b), but split so that
    each clause is a small query: symbolic-length sequences give a length clause and element clauses at a fresh
    (universally quantified) index constant; long concrete-length sequences are compared in chunks."""
    seqish = (SSeq, bytes, bytearray, str, list)
    if not (isinstance(a, seqish) and isinstance(b, seqish)) or _depth > 2:
        return [('', val_eq(a, b))]
    a, b = SSeq.of(a), SSeq.of(b)
    if a.parts is None and b.parts is not None:
        a, b = b, a
    if a.parts is not None and not (isinstance(a.n, int) and a.n <= chunk):
        # a == left ++ right: compare each part with the corresponding window of b (plus the lengths)
        left, right = a.parts
        ln = left.n
        bg = b.get
        out = [('.len', val_eq(a.n, b.n))]
        out += [('<' + sfx, cl) for sfx, cl in split_eq(left, SSeq(left.n, bg, b.kind), chunk, _depth)]
        out += [('>' + sfx, cl) for sfx, cl in split_eq(right, SSeq(right.n, lambda j: bg(ln + j), b.kind), chunk, _depth)]
        return [(sfx, cl) for sfx, cl in out if cl is not True]
    if isinstance(a.n, int) and isinstance(b.n, int) and (a.n != b.n or a.n <= 512):
        if a.n != b.n:
            return [('.len', False)]
        if 0 < a.n <= 4 and isinstance(a.get(0), seqish) and _depth <= 2:
            out = []
            for idx in range(a.n):
                out += [('[%d]%s' % (idx, sfx), cl) for sfx, cl in split_eq(a.get(idx), b.get(idx), chunk, _depth + 1)]
            return out
        if a.n <= chunk:
            return [('', val_eq(a, b))]
        out = []
        for lo in range(0, a.n, chunk):
            hi = min(a.n, lo + chunk)
            out.append(('[%d:%d]' % (lo, hi), AND(*[val_eq(a.get(i), b.get(i)) for i in range(lo, hi)])))
        return out
    i = fresh_int('sk')
    rng = AND(i >= 0, i < a.n)
    note_range(i, 0, a.n)
    out = [('.len', val_eq(a.n, b.n))]
    if cases is not None:
        # proof hint: compare at the given index TERMS one by one, and at an arbitrary index under rest(i);
        # that the terms and rest(i) together cover the whole range is an obligation of its own (sound).
        points, rest = cases(i)
        out.append(('.cases-cover', implies(rng, OR(rest, *[i == p for p in points]))))
        for n, p in enumerate(points):
            prng = AND(p >= 0, p < a.n)
            with guarded(prng):
                for suf, cl in split_eq(a.get(p), b.get(p), chunk, _depth + 1):
                    out.append(('[case%d]%s' % (n, suf), implies(prng, cl)))
        rng = AND(rng, rest)
        with guarded(rng):
            for suf, cl in split_eq(a.get(i), b.get(i), chunk, _depth + 1):
                out.append(('[rest]' + suf, implies(rng, cl)))
        return out
    with guarded(rng):
        ea, eb = a.get(i), b.get(i)
        for suf, cl in split_eq(ea, eb, chunk, _depth + 1):
            out.append(('[i]' + suf, implies(rng, cl)))
    return out


def named(sq, name='named'):
    """The same sequence, but read through a fresh array symbol defined by  arr[q] == sq[q]  (0 <= q < len):
    composite sequences (concatenations, merges) then offer the plain trigger term arr[q] to quantified facts."""
    if sq.arr is not None:
        return sq
    I = isort()
    arr = z3.Array(E.fresh(name), I, I)
    q = ivar(E.fresh('q'))
    E.axioms.append(z3.ForAll([q], z3.Implies(z3.And(q >= 0, q < toint(sq.n)), arr[q] == toint(sq.get(SInt(q)))),
                              patterns=[arr[q]]))
    return SSeq(sq.n, lambda k: SInt(z3.Select(arr, toint(k))), sq.kind, arr)


def byte_seq(name, n=None, kind='bytes'):
    """Fresh arbitrary byte sequence (elements 0..255 by construction/axiom)."""
    if n is None:
        n = SInt(ivar(E.fresh(name + '.len')))
        E.axioms.append(n.t >= 0)
        E.size_hints.append(lambda b, t=n.t: t <= b)
    if E.mode == 'bv':
        arr = z3.Array(E.fresh(name), z3.BitVecSort(WIDTH), z3.BitVecSort(8))
        return SSeq(n, lambda k: SInt(z3.ZeroExt(WIDTH - 8, z3.Select(arr, toint(k)))), kind, arr)
    arr = z3.Array(E.fresh(name), z3.IntSort(), z3.IntSort())
    j = z3.Int(E.fresh('j'))
    E.axioms.append(z3.ForAll([j], z3.And(arr[j] >= 0, arr[j] <= 255), patterns=[arr[j]]))
    return SSeq(n, lambda k: SInt(z3.Select(arr, toint(k))), kind, arr)


def int_seq(name, n=None, kind='list'):
    """Fresh arbitrary sequence of unconstrained ints."""
    if n is None:
        n = SInt(ivar(E.fresh(name + '.len')))
        E.axioms.append(n.t >= 0)
        E.size_hints.append(lambda b, t=n.t: t <= b)
    arr = z3.Array(E.fresh(name), isort(), isort())
    return SSeq(n, lambda k: SInt(z3.Select(arr, toint(k))), kind, arr)


def seq_of(n, fn, kind='list'):
    return SSeq(n, fn, kind)
