"""Native side of C01 / C19 (runs in the real interpreter): the adjacency witnesses, and the BOUNDED differential
run  program -> real minifier -> reference tokenizer -> compare with the reference tokenization of the input."""
import json
import os
import subprocess

from . import source

VERIF = os.path.dirname(os.path.dirname(os.path.abspath(__file__)))

_SCRIPT = r'''
import sys, json, re, tempfile, os
sys.path.insert(0, %(verif)r)
from specs import reflex, lexspec, adjacency
from pico8.lua import lexer, lua, parser
NUMPATS = [re.compile(bytes.fromhex(h)) for h in %(numpats)r]
SYMS = [bytes.fromhex(x) for x in %(syms)r]
KB = set(%(K)r)
def kc(b): return b if b in KB else 'o'
binops = [t._data for t in parser.BINOP_PATS]
unops = [t._data for t in parser.UNOP_PATS]
TRIVIA = (lexer.TokSpace, lexer.TokNewline, lexer.TokComment)
def cls_of(t):
    if isinstance(t, lexer.TokSymbol): return 'sym:' + t._data.decode('latin1')
    if isinstance(t, lexer.TokKeyword): return 'kw:' + t._data.decode('latin1')
    if isinstance(t, lexer.TokName): return 'name:?' if t._data == b'?' else 'name'
    if isinstance(t, lexer.TokLabel): return 'label'
    if isinstance(t, lexer.TokNumber):
        for i, p in enumerate(NUMPATS):
            if p.fullmatch(t._data): return 'num:%%d' %% i
        return 'num:?'
    if isinstance(t, lexer.TokString):
        if t._multiline_quote is not None: return 'str:long'
        return 'str:dq' if t._quote == b'"' else 'str:sq'
    return None
def sig(toks):
    return [t for t in toks if not isinstance(t, TRIVIA)]
def ref_sig(src):
    """reference tokenization: [(kind, text-or-value)] of significant tokens + positions of newlines between them."""
    out, nl = [], []
    for kind, text, line, col, value in reflex.tokenize(src, SYMS):
        if kind in ('space', 'comment'): continue
        if kind == 'newline':
            if out: nl.append(len(out))
            continue
        if kind == 'string': out.append((kind, bytes(value)))
        elif kind == 'number': out.append((kind, value))
        else: out.append((kind, text))
    return out, sorted(set(nl))
def minify(src, args):
    l = lua.Lua.from_lines([src], version=8)
    return b''.join(l.to_lines(writer_cls=lua.LuaMinifyTokenWriter, writer_args=args)), l
def compare(src, args, keep):
    """None if fine, else a description."""
    try:
        out, l = minify(src, args)
    except Exception as e:
        return 'minifier raised %%s: %%s' %% (type(e).__name__, e)
    try:
        a, anl = ref_sig(src)
        b, bnl = ref_sig(out)
    except reflex.Outside as e:
        return 'output is outside the dialect for the reference tokenizer: %%s (output %%r)' %% (e, out)
    if len(a) != len(b):
        return 'token count %%d -> %%d (output %%r)' %% (len(a), len(b), out)
    ren = {}
    for i, ((ka, va), (kb, vb)) in enumerate(zip(a, b)):
        if ka != kb: return 'token %%d kind %%s -> %%s (output %%r)' %% (i, ka, kb, out)
        if ka == 'name':
            if va in ren and ren[va] != vb: return 'identifier %%r renamed inconsistently (output %%r)' %% (va, out)
            ren[va] = vb
        elif ka == 'label':
            pass
        elif va != vb: return 'token %%d %%r -> %%r (output %%r)' %% (i, va, vb, out)
    if len(set(ren.values())) != len(ren): return 'two identifiers renamed to the same name (output %%r)' %% out
    noend = set(adjacency.NO_STATEMENT_END) | set(adjacency.NO_STATEMENT_END_KEYWORDS)
    must = [i for i in anl if a[i - 1][1] not in noend or a[i - 1][0] not in ('symbol', 'keyword')]
    if any(i not in bnl for i in must) or any(i not in anl for i in bnl):
        return 'line breaks between tokens moved: %%r -> %%r (output %%r)' %% (anl, bnl, out)
    l2 = lua.Lua.from_lines([out], version=8)
    if l.get_token_count() != l2.get_token_count():
        return 'token count reported by stats %%d -> %%d' %% (l.get_token_count(), l2.get_token_count())
    return None
EXTRA = [bytes.fromhex(h) for h in %(extra)r]
progs = (adjacency.programs(binops, unops) if %(corpus)d else []) + EXTRA
res = {'pairs': {}, 'rejected': 0, 'accepted': 0, 'bad': [], 'n_compared': 0, 'header_bad': []}
kf = tempfile.NamedTemporaryFile('wb', suffix='.txt', delete=False)
kf.write(b'# keep\nb\nx\nfoo\n'); kf.close()
CONFIGS = [({}, set()), ({'keep_all_names': True}, None), ({'keep_names_from_file': kf.name}, {b'b', b'x', b'foo'})]
for src in progs:
    try:
        l = lua.Lua.from_lines([src], version=8)
        toks = l._lexer.tokens
        p = l._parser._pos
        ok = all(isinstance(t, TRIVIA) for t in toks[p:])
    except Exception as e:
        ok = False
    if not ok and src not in EXTRA:
        res['rejected'] += 1
        continue
    res['accepted'] += 1
    s = sig(toks) if ok else []
    for t1, t2 in zip(s, s[1:]):
        k = '%%s %%s %%s %%s' %% (cls_of(t1), kc(t1.code[-1]), cls_of(t2), kc(t2.code[0]))
        if k not in res['pairs'] or len(src) < len(bytes.fromhex(res['pairs'][k])):
            res['pairs'][k] = src.hex()
    if %(compare)d:
        for args, keep in CONFIGS:
            d = compare(src, dict(args), keep)
            res['n_compared'] += 1
            if d is not None and len(res['bad']) < 12:
                res['bad'].append([src.hex(), json.dumps(sorted(args)), d])
os.unlink(kf.name)
print(json.dumps(res))
'''


def run(numpats, symbols, compare=True, extra=(), corpus=True, K=()):
    env = {'PYTHONPATH': source.REPO, 'PATH': '/usr/bin:/bin', 'PYTHONDONTWRITEBYTECODE': '1'}
    script = _SCRIPT % {'verif': VERIF, 'numpats': [p.hex() for p in numpats], 'syms': [s.hex() for s in symbols],
                        'compare': 1 if compare else 0, 'K': sorted(K), 'corpus': 1 if corpus else 0, 'extra': [e.hex() for e in extra]}
    r = subprocess.run([source.REAL_PY, '-c', script], capture_output=True, text=True, env=env, cwd='/')
    if r.returncode != 0:
        raise RuntimeError('native minifier run failed: ' + r.stderr[-1500:])
    d = json.loads(r.stdout)
    def kk(x):
        return x if x == 'o' else int(x)
    pairs = {}
    for k, v in d['pairs'].items():
        a, la, b, fb = k.split(' ')
        pairs[((a, kk(la)), (b, kk(fb)))] = bytes.fromhex(v)
    d['pairs'] = pairs
    return d
