"""Run a set of function contracts for one property check (SMT back end)."""
import importlib
import os
import z3

from . import values as V
from .values import E, SSeq, SInt, SBool, Ref, SymErr, tobool, NOT
from .contract import verify, Kit
from .solve import solve_all, solve_one
from .execu import Obligation
from . import replay as RP
from . import source

CONTRACT_MODULES = ['contracts.game_game', 'contracts.sections', 'contracts.p8text', 'contracts.p8png', 'contracts.p8scii', 'contracts.compress',
                    'contracts.names', 'contracts.includes', 'contracts.buildsel', 'contracts.parsercur', 'contracts.astwriter']


def registry(mods=None):
    reg = {}
    for m in (mods or CONTRACT_MODULES):
        mod = importlib.import_module(m)
        for c in mod.CONTRACTS:
            reg[c.target] = c
    return reg


def formula_size(ob):
    n = 0
    for t in ob.hyps + [ob.goal]:
        n += len(t.sexpr())
        if n > 200000:
            break
    return n


def sample_idx(n, seed=0, k=160):
    if n <= 2 * k:
        return range(n)
    import random
    r = random.Random(seed)
    s = set(range(8)) | set(range(n - 8, n)) | {r.randrange(n) for _ in range(k)}
    return sorted(s)


def same_value(a, b):
    """Structural comparison of two concrete engine values."""
    if isinstance(a, SSeq) or isinstance(b, SSeq):
        if not (isinstance(a, (SSeq, bytes, str, list, tuple)) and isinstance(b, (SSeq, bytes, str, list, tuple))):
            return False
        a, b = SSeq.of(a), SSeq.of(b)
        if a.n != b.n:
            return False
        return all(same_value(a.get(i), b.get(i)) for i in range(a.n))
    if isinstance(a, tuple) and isinstance(b, tuple):
        return len(a) == len(b) and all(same_value(x, y) for x, y in zip(a, b))
    if isinstance(a, bool) or isinstance(b, bool):
        return bool(a) == bool(b) and isinstance(a, (bool, int)) and isinstance(b, (bool, int))
    return a == b


def conformance(contract, rep, outcome):
    """Engine-vs-CPython cross-check on one symbolic path: a model of the path condition is run through
    the real function; the real result and heap must equal the symbolic ones under that model.
    Returns None (ok), or a description of the mismatch."""
    from .solve import small_model
    model = small_model(list(outcome.st.pc), rep.axioms, getattr(rep, 'size_hints', ()))
    if model is None:
        return 'skip'
    mv = RP.ModelView(model)
    K, a = rep.setup
    try:
        pre = RP.concrete_state(K.st, mv)
        ca = {k: mv.value(v) for k, v in a.items()}
        order = [p for p in RP.param_order(rep.fn) if p in ca]
        args_tree = {k: RP.tree(v, pre) for k, v in ca.items() if not k.startswith('__')}
    except SymErr as e:
        return 'skip'
    out = RP.run_real(contract.target, args_tree, order, 'gen' if getattr(contract, 'generator', False) else 'call')
    if outcome.kind == 'raise':
        if out['exc'] != outcome.val.exc:
            return 'symbolic path raises %s, real run: exc=%s %s' % (outcome.val.exc, out['exc'], out['exc_msg'])
        return None
    if out['exc'] is not None:
        return 'symbolic path returns, real run raised %s: %s (inputs %s)' % (out['exc'], out['exc_msg'], RP._short(args_tree))
    post = RP.State()
    want = mv.value(outcome.st.heap[outcome.val.id] if isinstance(outcome.val, Ref) and not isinstance(outcome.st.heap[outcome.val.id], dict) else outcome.val) \
        if not isinstance(outcome.val, (dict,)) else None
    got = RP.untree(out['result'], post) if out['result'] is not None else None
    if not isinstance(want, (Ref, dict)) and not same_value(_deep(want, outcome.st, mv), got):
        return 'result differs: symbolic %r, real %r (inputs %s)' % (_show(want), _show(got), RP._short(args_tree))
    for cid, t in out['heap'].items():
        cid = int(cid)
        h = outcome.st.heap.get(cid)
        if h is None or isinstance(h, dict):
            continue
        real = RP.untree(t, post)
        n = mv.int(h.n)
        if n != real.n:
            return 'heap cell %d: symbolic length %d, real length %d (inputs %s)' % (cid, n, real.n, RP._short(args_tree))
        for i in sample_idx(n, cid):
            if not same_value(_deep(mv.value(h.get(i)), outcome.st, mv), real.get(i)):
                return 'heap cell %d differs at index %d after the call (inputs %s)' % (cid, i, RP._short(args_tree))
    return None


def _deep(v, st, mv):
    """Resolve references inside a concretised result (lists of mutable rows etc.)."""
    if isinstance(v, Ref):
        h = st.heap[v.id]
        if isinstance(h, dict):
            return v
        return _deep(mv.value(h), st, mv)
    if isinstance(v, SSeq):
        return SSeq.of([_deep(v.get(i), st, mv) for i in range(v.n)], v.kind)
    if isinstance(v, tuple):
        return tuple(_deep(x, st, mv) for x in v)
    return v


def _show(v):
    if isinstance(v, SSeq):
        return [_show(v.get(i)) for i in range(min(v.n, 12))]
    return v


class Rec:
    """Records the accounting calls of one contract run in a worker process; replayed on the real Check."""
    def __init__(self, known):
        self.known = known
        self.calls = []
        self.samples = []
        self.conformance_runs = 0
        self.functions = self

    def append(self, d):
        self.calls.append(('functions.append', (d,)))

    def __getattr__(self, name):
        if name in ('assume', 'undecide', 'error', 'count', 'violation', 'trust'):
            def f(*args):
                if name == 'count' and len(args) > 3 and len(self.samples) < 3:
                    self.samples.append(1)
                self.calls.append((name, args))
            return f
        raise AttributeError(name)


def _replay_calls(check, rec_calls, conf):
    for name, args in rec_calls:
        if name == 'functions.append':
            check.functions.append(*args)
        else:
            getattr(check, name)(*args)
    check.conformance_runs += conf


_JOB = {}


def _worker(i):
    c, variant, reg, tier, seed, cp, known = _JOB['items'][i]
    os.environ['VERIF_JOBS'] = '1'
    rec = Rec(known)
    try:
        _run_one(rec, c, variant, reg, tier, seed, cp)
    except Exception as e:
        import traceback
        frames = traceback.extract_tb(e.__traceback__)
        in_contract = bool(frames) and os.sep + 'contracts' + os.sep in frames[-1].filename
        if in_contract and isinstance(e, (KeyError, AttributeError, IndexError, TypeError)):
            # the sidecar contract names something (a local of a loop invariant, a field) that the function no longer has:
            # the contract has to be re-derived -- undecided, neither a violation nor a crash of the checker
            rec.calls.append(('undecide', ('%s: the contract no longer fits the function (%s: %s at %s:%d)'
                                           % (c.target, type(e).__name__, e, os.path.basename(frames[-1].filename), frames[-1].lineno),)))
        elif frames and os.sep + 'pyvc' + os.sep in frames[-1].filename and isinstance(e, (TypeError, AttributeError, KeyError, IndexError)) \
                and os.environ.get('VERIF_REPO', '/repo') != '/repo':
            # on a CHANGED tree: the symbolic executor met a value shape it has no rule for (the changed code left the supported
            # subset) -- undecided.  On /repo itself the same thing is a defect of the machinery and stays an error.
            rec.calls.append(('undecide', ('%s: the function left the subset of the symbolic executor (%s: %s at %s:%d)'
                                           % (c.target, type(e).__name__, e, os.path.basename(frames[-1].filename), frames[-1].lineno),)))
        else:
            rec.calls.append(('error', ('%s: worker crashed: %s' % (c.target, traceback.format_exc()[-800:]),)))
    return i, rec.calls, rec.conformance_runs


def run_contracts(check, contracts, reg, tier, seed=0, conformance_paths=None):
    """Verify each contract (in parallel worker processes), discharge, replay failures, account in `check`."""
    items = [(c, v, reg, tier, seed, conformance_paths, check.known) for c in contracts for v in c.variants]
    jobs = int(os.environ.get('VERIF_JOBS', '0')) or min(16, os.cpu_count() or 1)
    if len(items) <= 1 or jobs <= 1:
        for it in items:
            _run_one(check, *it[:6])
        return
    import multiprocessing as mp
    from concurrent.futures import ProcessPoolExecutor
    _JOB['items'] = items
    results = {}
    with ProcessPoolExecutor(max_workers=min(jobs, len(items)), mp_context=mp.get_context('fork')) as pool:
        for i, calls, conf in pool.map(_worker, range(len(items))):
            results[i] = (calls, conf)
    for i in range(len(items)):
        _replay_calls(check, *results[i])


def _run_one(check, c, variant, reg, tier, seed=0, conformance_paths=None):
    if True:
        rep = verify(c, reg, variant)
        if rep.fn is not None and variant in (None, c.variants[0]):
            check.functions.append({'function': c.target, 'file': os.path.relpath(rep.fn.path, source.REPO),
                                    'line': rep.fn.line, 'sha256': rep.fn.sha, 'paths': rep.paths,
                                    'ints': c.mode})
        for asm in sorted(rep.assumptions):
            check.assume(asm)
        if rep.error:
            check.undecide('%s: %s' % (c.target, rep.error))
            return
        # known-finding input classes are excluded from the quantifier; anything left is new
        K, a = rep.setup
        excl = []
        for kf in check.known:
            if kf.get('status') == 'known' and kf.get('function') == c.target and kf.get('class'):
                excl.append(tobool(NOT(c.known_classes[kf['class']](K, a))))
        axioms = list(rep.axioms) + excl
        # a cover (satisfiability of the precondition) is discharged by the contract's concrete WITNESS when it
        # has one: the precondition is evaluated on it (bounded quantifiers expanded) and the real function is run on it
        covers = [ob for ob in rep.obligations if ob.kind == 'cover']
        if covers and hasattr(c, 'witness'):
            pre_ok, judged = witness_ok(c, rep, variant)
            E.reset(c.mode)
            for ob in covers:
                if pre_ok:
                    ob.status, ob.backend, ob.secs = 'discharged', 'GROUND(witness)', 0.0
            if pre_ok and judged is not None and judged['confirmed']:
                name = '%s%s/witness.contract-holds-on-the-witness-input' % (c.target, '' if variant is None else '[%s]' % variant)
                payload = {'function': c.target, 'source_sha256': rep.fn.sha, 'kind': 'witness',
                           'solver': "the contract's witness input, run through the real function, violates the contract"}
                payload.update(judged)
                check.count('GROUND(witness)', 'failed', 0.0, name)
                check.violation(name, payload, True)
        todo = [ob for ob in rep.obligations if ob.status is None]
        hints = getattr(rep, 'size_hints', ())
        solve_all(todo, axioms, hints=hints, fast=True)
        open_obs = [ob for ob in todo if ob.status == 'undecided']
        found = None
        if open_obs and hasattr(c, 'examples'):
            # the solver gave up quickly (typically: a counter-model under quantified hypotheses).  Before spending the
            # long budgets, look for a CONCRETE counterexample with the contract's example generator, judged on the real code.
            found = search_examples(c, rep, variant, seed)
            E.reset(c.mode)
        if found is not None:
            ob = ([o for o in open_obs if o.kind != 'cover'] or open_obs)[0]
            payload = {'function': c.target, 'source_sha256': rep.fn.sha, 'kind': ob.kind, 'line': ob.line,
                       'solver': 'solver answered unknown on this obligation; counterexample found by bounded search over the '
                                 "contract's example generator and judged against the contract on the real function"}
            payload.update(found)
            ob.status = 'failed-by-example'
            check.count('z3', 'failed', ob.secs, ob.name)
            check.violation(ob.name, payload, True)
            for o2 in open_obs[1:]:
                o2.status = 'skipped'
            rep.obligations = [o for o in rep.obligations if o.status not in ('failed-by-example', 'skipped')]
        else:
            for ob in open_obs:
                ob.status = None
            solve_all(open_obs, axioms, hints=hints)
        for ob in rep.obligations:
            check.count(ob.backend or 'z3', ob.status, ob.secs, ob.name, formula_size(ob) if len(check.samples) < 14 else None)
            if ob.status == 'undecided':
                check.undecide(ob.name)
        fails = [ob for ob in rep.obligations if ob.status == 'failed' and ob.kind != 'guard']
        seen = set()
        nreplayed = 0
        for ob in fails:
            if ob.kind == 'cover':
                check.error('%s: precondition of the contract is unsatisfiable (vacuous)' % c.target)
                continue
            key = ob.name.split('/')[-1] if len(fails) > 6 else ob.name
            if key in seen:
                # same clause on another path: report, reuse nothing
                pass
            seen.add(key)
            payload = {'function': c.target, 'source_sha256': rep.fn.sha, 'kind': ob.kind, 'line': ob.line}
            confirmed = False
            nreplayed += 1
            if nreplayed > 4:
                payload['note'] = 'further failed obligation of the same function; see the first replays'
                payload['solver_model'] = str(ob.model)[:2000] if ob.model is not None else None
                check.violation(ob.name, payload, False)
                continue
            if ob.model is not None:
                try:
                    r = RP.replay_model(c, rep, ob.model)
                    payload.update(r)
                    confirmed = r['confirmed']
                    payload['solver'] = 'z3 counter-model concretised and run through the real function'
                except Exception as e:      # replay trouble never hides the failed obligation
                    payload['replay_error'] = repr(e)
                    payload['solver_model'] = str(ob.model)[:4000]
            else:
                payload['solver_output'] = 'sat (model unavailable)'
            if not confirmed and hasattr(c, 'examples') and not getattr(rep, '_ex_done', False):
                # the solver's model leaves abstract callee results arbitrary: look for a concrete failing input instead
                rep._ex_done = True
                rep._ex_found = search_examples(c, rep, variant, seed)
                E.reset(c.mode)
            if not confirmed and getattr(rep, '_ex_found', None):
                payload.update(rep._ex_found)
                payload['solver'] = ('obligation failed (solver counter-model did not replay because callee results are abstract); '
                                     "concrete failing input found with the contract's example generator on the real function")
                confirmed = True
            if not confirmed:
                payload.setdefault('solver_model', str(ob.model)[:4000] if ob.model is not None else None)
            check.violation(ob.name, payload, confirmed)
        # conformance: engine vs CPython on models of the symbolic paths
        outs = getattr(rep, 'outcomes', [])
        limit = conformance_paths if conformance_paths is not None else (len(outs) if tier == 'thorough' else 6)
        idxs = list(range(len(outs)))
        if len(idxs) > limit:
            import random
            rnd = random.Random(seed)
            idxs = sorted(rnd.sample(idxs, limit))
        if not fails and not getattr(rep, 'abstract_calls', False):
            for i in idxs:
                try:
                    bad = conformance(c, rep, outs[i])
                except SymErr:
                    bad = 'skip'
                except Exception as e:
                    bad = 'conformance crashed: %r' % (e,)
                if bad == 'skip':
                    continue
                check.conformance_runs += 1
                if bad:
                    check.error('conformance mismatch (engine misrepresents Python) in %s path %d: %s' % (c.target, i + 1, bad))




def search_examples(c, rep, variant, seed, budget_s=40, limit=400):
    """First concrete example (from the contract's generator) on which the real function violates the contract."""
    import random
    import time
    from .execu import State
    rnd = random.Random(seed)
    t0 = time.time()
    n = 0
    budget_s = getattr(c, 'example_budget_s', budget_s)
    E.reset(c.mode)
    E.concrete = True
    try:
        for ca in (c.examples(rnd) if variant is None else c.examples(rnd, variant)):
            n += 1
            if n > limit or time.time() - t0 > budget_s:
                break
            E.reset(c.mode)
            E.concrete = True
            K = Kit(State())
            if RP.truth_of(c.requires(K, ca), E.axioms) is not True:
                continue
            r = RP.judge_concrete(c, rep, K.st, ca)
            if r['confirmed']:
                r['examples_tried'] = n
                return r
    except Exception:
        import traceback
        traceback.print_exc()
    return None


def witness_ok(c, rep, variant):
    """(precondition holds on the witness, judgement of the real run on the witness or None)."""
    from .execu import State
    E.reset(c.mode)
    E.concrete = True
    K = Kit(State())
    try:
        ca = c.witness(K) if variant is None else c.witness(K, variant)
        if RP.truth_of(c.requires(K, ca), E.axioms) is not True:
            return False, None
        return True, RP.judge_concrete(c, rep, K.st, dict(ca))
    except Exception:
        import traceback
        traceback.print_exc()
        return False, None


def replay_known(check, reg):
    """Replay the listed witness of every known finding of this property."""
    for kf in check.known:
        if kf.get('status') != 'known' or 'witness' not in kf or kf.get('function') not in reg:
            continue
        c = reg[kf['function']]
        try:
            r = c.replay_witness(kf['witness'])
            check.known_hit(kf, bool(r))
        except Exception as e:
            check.error('known-finding witness replay crashed: %r' % (e,))
