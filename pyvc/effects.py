"""Effect-order contracts: every control path of a real function -- with EVERY call allowed to raise -- as a trace of
effect events, enumerated from the ast of the working tree.  Path-insensitive (both branches of every `if`, loops taken
0, 1 and 2 times, every handler of a `try` may or may not catch), so the set of traces over-approximates the real
behaviours; a contract clause of the form "event A only after event B" that holds on all traces holds on every run.

Events:  ('call', callee text, (arg texts), {kw: text})   a call is entered (its arguments have been evaluated)
         ('ret', callee text)                              that call returned normally
         ('close', var)                                    a with-block is left (the context manager is closed)
An outcome is (kind, trace) with kind in 'return' | 'raise'.
"""
import ast

LIMIT = 20000


class TooManyPaths(Exception):
    pass


def calls_in_order(node):
    """Call nodes inside an expression / simple statement, in evaluation order (arguments before the call)."""
    out = []

    def visit(n):
        if isinstance(n, (ast.Lambda, ast.FunctionDef, ast.ClassDef)):
            return
        if isinstance(n, ast.Call):
            visit(n.func)
            for a in n.args:
                visit(a)
            for k in n.keywords:
                visit(k.value)
            out.append(n)
            return
        for c in ast.iter_child_nodes(n):
            visit(c)
    visit(node)
    return out


def call_event(c):
    return ('call', ast.unparse(c.func), tuple(ast.unparse(a) for a in c.args),
            tuple(sorted((k.arg or '**', ast.unparse(k.value)) for k in c.keywords)))


class Paths:
    def __init__(self, may_raise=lambda callee: True, dataflow=False, max_iter=2, limit=LIMIT):
        self.max_iter = max_iter
        self.limit = limit
        self.may_raise = may_raise
        self.count = 0
        self.dataflow = dataflow      # also record ('assume', test ast, polarity) and ('assign', target ast, value ast) events

    def expr(self, node, traces):
        """traces: list of event tuples.  Returns (normal traces, raised traces)."""
        raised = []
        for c in calls_in_order(node):
            ev = call_event(c)
            nxt = []
            for t in traces:
                t1 = t + (ev,)
                if self.may_raise(ev[1]):
                    raised.append(t1)
                nxt.append(t1 + (('ret', ev[1]),))
            traces = nxt
            self.count += len(traces)
            if self.count > self.limit:
                raise TooManyPaths()
        return traces, raised

    def block(self, stmts, traces):
        """Returns dict kind -> traces for kinds normal / return / raise / break / continue."""
        out = {'normal': list(traces), 'return': [], 'raise': [], 'break': [], 'continue': []}
        for s in stmts:
            cur = out['normal']
            if not cur:
                break
            out['normal'] = []
            r = self.stmt(s, cur)
            for k, v in r.items():
                out[k].extend(v)
        return out

    def stmt(self, s, traces):
        res = {'normal': [], 'return': [], 'raise': [], 'break': [], 'continue': []}
        if isinstance(s, (ast.Expr, ast.Assign, ast.AugAssign, ast.AnnAssign, ast.Assert, ast.Delete)):
            n, r = self.expr(s, traces)
            if self.dataflow and isinstance(s, ast.Assign):
                n = [t + tuple(('assign', tg, s.value) for tg in s.targets) for t in n]
            if self.dataflow and isinstance(s, ast.AugAssign):
                n = [t + (('assign', s.target, ast.BinOp(left=s.target, op=s.op, right=s.value)),) for t in n]
            if self.dataflow and isinstance(s, ast.Expr) and isinstance(s.value, ast.Yield):
                n = [t + (('yield', s.value.value),) for t in n]
            res['normal'], res['raise'] = n, r
            if isinstance(s, ast.Assert):
                res['raise'] = res['raise'] + n
                if self.dataflow:
                    res['normal'] = [t + (('assume', s.test, True),) for t in n]
        elif isinstance(s, ast.Return):
            n, r = self.expr(s, traces) if s.value is not None else (traces, [])
            if self.dataflow:
                n = [t + (('return', s.value),) for t in n]
            res['return'], res['raise'] = n, r
        elif isinstance(s, ast.Raise):
            n, r = self.expr(s, traces)
            res['raise'] = n + r
        elif isinstance(s, (ast.Pass, ast.Import, ast.ImportFrom, ast.Global, ast.Nonlocal)):
            res['normal'] = traces
        elif isinstance(s, ast.Break):
            res['break'] = traces
        elif isinstance(s, ast.Continue):
            res['continue'] = traces
        elif isinstance(s, ast.If):
            n, r = self.expr(s.test, traces)
            res['raise'] += r
            for body, pol in ((s.body, True), (s.orelse, False)):
                n2 = [t + (('assume', s.test, pol),) for t in n] if self.dataflow else n
                b = self.block(body, n2) if body else {'normal': n2}
                for k, v in b.items():
                    res[k] = res.get(k, []) + v
        elif isinstance(s, (ast.For, ast.While)):
            head = s.iter if isinstance(s, ast.For) else s.test
            n, r = self.expr(head, traces)
            res['raise'] += r
            res['normal'] += n                       # zero iterations
            cur = n
            for _ in range(self.max_iter):
                if self.dataflow and isinstance(s, ast.For):
                    cur = [t + (('iterate', s.target, s.iter),) for t in cur]
                b = self.block(s.body, cur)
                res['raise'] += b['raise']
                res['return'] += b['return']
                res['normal'] += b['break']
                cur = b['normal'] + b['continue']
                if isinstance(s, ast.While):
                    cur, r2 = self.expr(s.test, cur)
                    res['raise'] += r2
                res['normal'] += cur
            if s.orelse:
                raise NotImplementedError('loop else')
        elif isinstance(s, ast.With):
            cur = traces
            names = []
            for it in s.items:
                cur, r = self.expr(it.context_expr, cur)
                res['raise'] += r
                names.append(ast.unparse(it.optional_vars) if it.optional_vars is not None else ast.unparse(it.context_expr))
            b = self.block(s.body, cur)
            close = tuple(('close', nm) for nm in reversed(names))
            for k, v in b.items():
                res[k] += [t + close for t in v]
        elif isinstance(s, ast.Try):
            b = self.block(s.body, traces)
            after = {k: list(v) for k, v in b.items()}
            caught_all = any(h.type is None or ast.unparse(h.type) in ('Exception', 'BaseException') for h in s.handlers)
            after['raise'] = [] if caught_all else list(b['raise'])
            for h in s.handlers:
                hb = self.block(h.body, b['raise'])
                for k, v in hb.items():
                    after[k] += v
            if s.orelse:
                ob = self.block(s.orelse, after['normal'])
                after['normal'] = []
                for k, v in ob.items():
                    after[k] += v
            if s.finalbody:
                final = {k: [] for k in after}
                for k, v in after.items():
                    fb = self.block(s.finalbody, v)
                    final[k] += fb['normal']
                    for k2 in ('return', 'raise', 'break', 'continue'):
                        final[k2] += fb[k2]
                after = final
            for k, v in after.items():
                res[k] += v
        elif isinstance(s, (ast.FunctionDef, ast.ClassDef)):
            res['normal'] = traces
        else:
            raise NotImplementedError('statement %s' % type(s).__name__)
        return res

    def function(self, fnode):
        b = self.block(fnode.body, [()])
        outs = [('return', t) for t in b['normal'] + b['return']] + [('raise', t) for t in b['raise']]
        return outs


def consistent(trace):
    """Drop paths that take contradictory branches on the SAME test (or on a flag set to a constant) with nothing assigned in
    between: `if short_if: ... if not short_if:`, `in_parens = True ... if in_parens:`.  Sound: only infeasible paths are dropped."""
    known = {}
    for e in trace:
        if e[0] == 'assign':
            names = {n.id for n in ast.walk(e[1]) if isinstance(n, ast.Name)} | {ast.unparse(e[1])}
            for k in list(known):
                if any(nm in k[1] for nm in names):
                    del known[k]
            if isinstance(e[1], ast.Name) and isinstance(e[2], ast.Constant) and isinstance(e[2].value, bool):
                known[('t', frozenset([e[1].id]), e[1].id)] = e[2].value
        elif e[0] == 'iterate':
            names = {n.id for n in ast.walk(e[1]) if isinstance(n, ast.Name)}
            for k in list(known):
                if any(nm in k[1] for nm in names):
                    del known[k]
        elif e[0] == 'assume':
            test, pol = e[1], e[2]
            while isinstance(test, ast.UnaryOp) and isinstance(test.op, ast.Not):
                test, pol = test.operand, not pol
            if any(isinstance(n, ast.Call) for n in ast.walk(test)) and not ast.unparse(test).startswith("self._args.get('ignore_tokens')"):
                continue                      # calls may have effects: not correlated (the ignore_tokens option is constant)
            if isinstance(test, ast.Compare) and len(test.ops) == 1 and isinstance(test.ops[0], (ast.Is, ast.IsNot)) and \
                    isinstance(test.left, ast.Name) and isinstance(test.comparators[0], ast.Constant) and test.comparators[0].value is None:
                # `v is None` and `v is not None` are the same question
                if isinstance(test.ops[0], ast.IsNot):
                    pol = not pol
                test = ast.parse('%s is None' % test.left.id, mode='eval').body
            names = frozenset(n.id for n in ast.walk(test) if isinstance(n, ast.Name)) | frozenset([ast.unparse(test)])
            key = ('t', names, ast.unparse(test))
            if key in known and known[key] != pol:
                return False
            known[key] = pol
    return True



WRITE_PRIMITIVES = ('os.remove', 'os.unlink', 'os.rename', 'os.replace', 'os.truncate', 'os.rmdir', 'os.removedirs',
                    'os.makedirs', 'os.mkdir', 'os.link', 'os.symlink', 'shutil.copy', 'shutil.copyfile', 'shutil.copy2',
                    'shutil.move', 'shutil.rmtree', 'shutil.copyfileobj', 'os.open', 'os.write', 'os.chmod')


def open_mode(ev):
    """Mode text of an open() call event ('r' when absent), or None if it is not a literal."""
    _, callee, args, kws = ev
    mode = None
    if len(args) >= 2:
        mode = args[1]
    for k, v in kws:
        if k == 'mode':
            mode = v
        if k == '**':
            mode = 'UNKNOWN(' + v + ')'
    if mode is None:
        return 'r'
    try:
        return ast.literal_eval(mode)
    except Exception:
        return None if not mode.startswith('UNKNOWN') else mode


def is_destructive(ev, resolve_kwargs=None):
    """Does this call event modify or create a file given by path?  open() in a mode other than r / rb, and the
    path-taking primitives of os / shutil.  A non-literal mode counts as destructive unless resolve_kwargs gives it."""
    if ev[0] != 'call':
        return False
    callee = ev[1]
    if callee in WRITE_PRIMITIVES or callee.startswith('shutil.'):
        return True
    if callee in ('open', 'io.open', 'builtins.open', 'codecs.open') or callee.endswith('.open') and callee.split('.')[0] in ('pathlib', 'Path'):
        m = open_mode(ev)
        if isinstance(m, str) and m.startswith('UNKNOWN') and resolve_kwargs is not None:
            m = resolve_kwargs(m[8:-1])
        if m in ('r', 'rb', 'rt'):
            return False
        return True
    if callee.endswith(('.write_bytes', '.write_text', '.unlink', '.touch', '.truncate', '.rmdir', '.mkdir')):
        return True
    if callee.endswith(('.rename', '.replace')) and len(ev[2]) == 1 and not ev[3]:
        return True                      # pathlib-style (bytes.replace / str.replace take two or three arguments)
    return False
