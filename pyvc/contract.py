"""Contract base class, the Kit used to write contracts, and the per-function verifier."""
import time
import z3

from . import values as V
from .values import (E, SInt, SBool, SSeq, SOpt, Ref, SymErr, toint, tobool, ite, AND, OR, NOT, implies,
                     val_eq, seq_eq)
from .execu import Exec, State, Obligation, Outcome, feasible, _cell
from . import source


class Result:
    def __init__(self, kind, value=None, exc=None):
        self.kind, self.value, self.exc = kind, value, exc

    @property
    def returned(self):
        return self.kind == 'return'

    def raised(self, name=None):
        if self.kind != 'raise':
            return False
        return True if name is None else self.exc == name


class Kit:
    """Helper bound to one State for building inputs and reading heap values in contracts."""
    def __init__(self, st, ex=None):
        self.st, self.ex = st, ex

    # -- construction (setup) ------------------------------------------
    def int(self, name, lo=None, hi=None):
        v = SInt(V.ivar(name))
        E.size_hints.append(lambda b, t=v.t: z3.And(t <= b, t >= -b))
        if lo is not None:
            self.st.assume(v >= lo)
        if hi is not None:
            self.st.assume(v <= hi)
        if lo is not None and hi is not None and E.mode == 'bv':
            E.var_bounds[v.t.get_id()] = (lo, hi)       # assumed on every path (setup precedes the body)
        return v

    def bool(self, name):
        return SBool(z3.Bool(name))

    def opt(self, name, inner):
        return SOpt(SBool(z3.Bool(name + '.isnone')), inner)

    def bytes(self, name, n=None):
        return V.byte_seq(name, n)

    def bytearray(self, name, n=None):
        return self.st.alloc(V.byte_seq(name, n), 'bytearray')

    def list(self, sq):
        return self.st.alloc(sq.with_kind('list'), 'list')

    def obj(self, clsqual, **fields):
        return self.st.alloc(dict(fields), clsqual)

    # -- reading ---------------------------------------------------------
    def seq(self, v):
        return self.st.seq(v)

    def field(self, obj, name):
        v = self.st.heap[obj.id][name]
        return v

    def data(self, obj, name='_data'):
        return self.st.seq(self.st.heap[obj.id][name])

    def ref(self, obj, name='_data'):
        return self.st.heap[obj.id][name]

    def heap_of(self, ref):
        return self.st.heap[ref.id]


class Contract:
    target = None
    mode = 'lia'
    loops = {}
    inline = ()
    ignore_calls = ()
    subclass_of = {}            # exception name -> tuple of base names

    def setup(self, K):
        raise NotImplementedError

    def requires(self, K, a):
        return True

    def modifies(self, K, a):
        return []

    def raises(self, K, a):
        """{exception name: condition (over the pre-state) under which the call raises it}."""
        return {}

    def ensures(self, K, a, old, res):
        return []

    def result(self, K, a):
        return None

    def update(self, old, a):
        """Functional postcondition: [(ref, new value)] giving each modified cell as an expression over the
        pre-state, or None.  Proved like any ensures clause; at call sites the cell is simply SET to the
        expression (no havoc, no quantified hypothesis)."""
        return None

    def havoc(self, K, a, ref, cur):
        if ref.tag == 'bytearray':
            return V.byte_seq('havoc')
        raise SymErr('havoc of %s needs a havoc() in the contract' % ref.tag)

    def is_subclass(self, exc, handler):
        import ast
        t = handler.type
        names = [e.id if isinstance(e, ast.Name) else e.attr for e in (t.elts if isinstance(t, ast.Tuple) else [t])]
        return any(b in names for b in self.subclass_of.get(exc, ()))

    # replay support (optional)
    replay_recipe = None
    variants = (None,)

    def concretize(self, model, a, K):
        return None


class Report:
    def __init__(self, contract):
        self.contract = contract
        self.target = contract.target
        self.obligations = []
        self.error = None          # SymErr text => undecided
        self.paths = 0
        self.fn = None
        self.assumptions = set()
        self.secs = 0.0
        self.setup = None


def verify(contract, registry, variant=None):
    """Generate all obligations of one function under contract (not yet discharged)."""
    t0 = time.time()
    rep = Report(contract)
    rep.variant = variant
    E.reset(contract.mode)
    try:
        fsrc = source.find_function(contract.target)
        rep.fn = fsrc
        st = State()
        K = Kit(st)
        a = contract.setup(K) if variant is None else contract.setup(K, variant)
        pre = contract.requires(K, a)
        st.assume(pre)
        rep.setup = (K, a)
        old = Kit(st.copy())
        obls = rep.obligations
        ex = Exec(fsrc, contract, registry, obls, prefix=fsrc.qual + ('' if variant is None else '[%s]' % variant))
        base_prefix = ex.prefix
        # vacuity guard: the precondition must be satisfiable
        hint = getattr(contract, 'cover_hint', None)
        obls.append(Obligation(base_prefix + '/cover.precondition-satisfiable',
                               list(st.pc) + ([tobool(hint(K, a))] if hint is not None else []), z3.BoolVal(False),
                               'cover', fsrc.line))
        watermark = _cell[0]
        mod_ids = {r.id for r in contract.modifies(K, a)}
        st.written = set()
        outs = ex.run(st, dict(a))
        rep.paths = len(outs)
        rep.outcomes = outs
        rep.assumptions |= ex.assumptions
        rep.abstract_calls = ex.abstract_calls
        for i, o in enumerate(outs):
            ex.prefix = '%s/path%d' % (base_prefix, i + 1)
            ex._obn = {}
            Ko = Kit(o.st, ex)
            if o.kind == 'raise':
                res = Result('raise', None, o.val.exc)
            else:
                res = Result('return', o.val)
            for cid in sorted(o.st.written):
                if cid <= watermark and cid not in mod_ids:
                    ex.oblige(o.st, False, 'frame(writes cell outside modifies)', fsrc.node)
            allowed = contract.raises(old, a)
            if o.kind == 'raise' and o.val.exc in getattr(contract, 'raises_in_ensures', ()):
                pass            # the condition of this exception is stated by the ensures clauses
            elif o.kind == 'raise':
                cond = allowed.get(o.val.exc, False)
                ex.oblige(o.st, cond, 'raise.%s-only-when-specified' % o.val.exc, fsrc.node)
            else:
                for exc, cond in allowed.items():
                    ex.oblige(o.st, NOT(cond), 'must-raise.%s' % exc, fsrc.node)
            clauses = ex.with_sink(o.st, fsrc.node, lambda: contract.ensures(Ko, a, old, res))
            for nm, cl in clauses:
                ex.oblige(o.st, cl, 'post.' + nm, fsrc.node)
            upd = contract.update(old, a) if o.kind != 'raise' else None
            for j, (ref, want) in enumerate(upd or []):
                for suf, cl in ex.with_sink(o.st, fsrc.node, lambda: V.split_eq(Ko.st.seq(ref), want)):
                    ex.oblige(o.st, cl, 'post.update%d%s' % (j, suf), fsrc.node)
        for nm, hyps, goal in E.lemmas:
            obls.append(Obligation('%s/%s' % (base_prefix, nm), list(hyps), goal, 'lemma', fsrc.line))
    except SymErr as e:
        rep.error = 'unsupported: %s' % e
    rep.axioms = list(E.axioms)
    rep.size_hints = list(E.size_hints)
    rep.secs = time.time() - t0
    return rep
