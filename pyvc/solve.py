"""Discharge obligations: z3 first, cvc5 (via SMT-LIB text) on z3's unknowns.

status: 'discharged' | 'failed' (counter-model) | 'undecided' (unknown / timeout)
cover obligations are satisfiability checks: 'discharged' means the hypotheses are satisfiable.
"""
import os
import subprocess
import tempfile
import time
import multiprocessing as mp
import z3

QUICK_MS = int(os.environ.get('VERIF_Z3_MS', '20000'))
FIRST_MS = int(os.environ.get('VERIF_Z3_FIRST_MS', '4000'))
_OBLS = None
_AX = None


def _solver(ob, axioms, timeout_ms, seed=0):
    s = z3.Solver()
    s.set('timeout', timeout_ms)
    if seed:
        s.set('random_seed', seed)
    for a in axioms:
        s.add(a)
    for h in ob.hyps:
        s.add(h)
    if ob.kind != 'cover':
        s.add(z3.Not(ob.goal))
    return s


def _cvc5(smt2, timeout_s):
    exe = '/usr/bin/cvc5'
    if not os.path.exists(exe):
        return 'unknown'
    with tempfile.NamedTemporaryFile('w', suffix='.smt2', delete=False) as fh:
        fh.write('(set-logic ALL)\n' + smt2)
        path = fh.name
    try:
        r = subprocess.run([exe, '--tlimit=%d' % (timeout_s * 1000), '--strings-exp', path],
                           capture_output=True, text=True, timeout=timeout_s + 5)
        out = r.stdout.strip().splitlines()
        return out[0] if out and out[0] in ('sat', 'unsat') else 'unknown'
    except Exception:
        return 'unknown'
    finally:
        os.unlink(path)


def small_model(constraints, axioms, hints, timeout_ms=8000):
    """A model of the constraints with input sizes as small as the progressive bounds allow."""
    for bound in (2, 6, 20, 100, 1000, None):
        s = z3.Solver()
        s.set('timeout', timeout_ms)
        for a in axioms:
            s.add(a)
        for c in constraints:
            s.add(c)
        if bound is not None:
            if not hints:
                continue
            for h in hints:
                s.add(h(bound))
        if s.check() == z3.sat:
            return s.model()
    return None


def solve_one(ob, axioms, timeout_ms=None, want_model=True, seed=0, hints=(), fast=False):
    """Stages: z3 (short) -> cvc5 (short) -> z3 after explicit skolemisation -> cvc5 (long).  The first decisive
    answer wins; sat answers without a z3 model object are re-asked to z3 for the model only."""
    timeout_ms = timeout_ms or QUICK_MS
    t0 = time.time()
    s = _solver(ob, axioms, min(timeout_ms, 2500 if fast else FIRST_MS), seed)
    r = s.check()
    backend = 'z3'
    model = None
    if r == z3.sat and want_model:
        model = s.model()
    smt2 = None
    if r == z3.unknown and not fast:
        smt2 = s.to_smt2()
        r2 = _cvc5(smt2, 12)
        r = {'sat': z3.sat, 'unsat': z3.unsat}.get(r2, z3.unknown)
        backend = 'cvc5'
    if r == z3.unknown and not fast:
        # explicit skolemisation (nnf) first: goal-side quantifiers become constants, bit-vector obligations are
        # then decided by bit-blasting instead of the quantifier engine
        s1 = z3.Then('simplify', 'nnf', 'smt').solver()
        s1.set('timeout', timeout_ms * 2)
        for f in s.assertions():
            s1.add(f)
        r = s1.check()
        backend = 'z3-nnf'
        if r == z3.sat and want_model:
            model = s1.model()
    if r == z3.unknown and not fast:
        r2 = _cvc5(smt2, max(30, timeout_ms // 100))
        r = {'sat': z3.sat, 'unsat': z3.unsat}.get(r2, z3.unknown)
        backend = 'cvc5'
    if r == z3.sat and want_model and ob.kind != 'cover':
        if model is None:
            s2 = _solver(ob, axioms, timeout_ms, seed + 7)
            if s2.check() == z3.sat:
                model = s2.model()
        # prefer a SMALL counter-model (input sizes bounded), so that it can be replayed quickly
        if hints:
            m2 = small_model(list(ob.hyps) + [z3.Not(ob.goal)], axioms, hints)
            if m2 is not None:
                model = m2
    secs = time.time() - t0
    if ob.kind == 'cover':
        status = 'discharged' if r == z3.sat else ('failed' if r == z3.unsat else 'undecided')
    else:
        status = 'discharged' if r == z3.unsat else ('failed' if r == z3.sat else 'undecided')
    return status, model, secs, backend


_FAST = False


def _work(i):
    ob = _OBLS[i]
    status, model, secs, backend = solve_one(ob, _AX, want_model=False, fast=_FAST)
    return i, status, secs, backend


def solve_all(obls, axioms, jobs=None, timeout_ms=None, hints=(), fast=False):
    """Discharge every obligation; fills ob.status / ob.model / ob.secs / ob.backend."""
    global _OBLS, _AX, _FAST
    _FAST = fast
    jobs = jobs or int(os.environ.get('VERIF_JOBS', '0')) or min(16, os.cpu_count() or 1)
    if len(obls) < 24 or jobs <= 1:
        for ob in obls:
            ob.status, ob.model, ob.secs, ob.backend = solve_one(ob, axioms, timeout_ms, hints=hints, fast=fast)
        return
    _OBLS, _AX = obls, axioms
    ctx = mp.get_context('fork')
    with ctx.Pool(jobs) as pool:
        for i, status, secs, backend in pool.imap_unordered(_work, range(len(obls)), chunksize=4):
            ob = obls[i]
            ob.status, ob.secs, ob.backend = status, secs, backend
    _OBLS = _AX = None
    for ob in obls:
        if ob.status == 'failed' and ob.kind != 'cover':
            st, model, secs, backend = solve_one(ob, axioms, timeout_ms, hints=hints, fast=fast)
            ob.model = model
            if st != 'failed':
                # never turn a disagreement into a verdict
                ob.status = 'undecided'
