"""Loops (unrolled exactly, or cut at an invariant), try/except/finally, with."""
import ast
import z3

from . import values as V
from .values import (E, SInt, SBool, SSeq, SOpt, Ref, SymErr, toint, tobool, ite, AND, OR, NOT,
                     implies, val_eq)
from .execu import Outcome, Raised, State, UNROLL_LIMIT, feasible, _cell, NeedFork


class LoopSpec:
    """Invariant of one loop, keyed by loop ordinal in the contract.

    defs(ctx, k)  -> {name_or_path: value}   variables that are a FUNCTION of the iteration count k
                                             and the loop-entry state (proved at entry and after the body,
                                             substituted at the loop head: no quantified hypothesis needed)
    inv(ctx, k)   -> [(name, bool)]          further facts about havocked variables
    modifies      -> paths of pre-existing heap cells the body may write (enforced)
    variant(ctx)  -> int term that decreases (while loops; termination is claimed only if given)
    shapes        -> {name: callable() -> fresh value} for havocked variables whose shape cannot be inferred
    """
    def __init__(self, defs=None, inv=None, modifies=(), variant=None, shapes=None, unroll=False, cases=None,
                 lemmas=None, ghost=None, ghost_step=None):
        self.defs, self.inv, self.modifies, self.variant = defs, inv, tuple(modifies), variant
        self.ghost = ghost or {}        # ghost variables: name -> initial value (set just before the loop)
        self.ghost_step = ghost_step    # (ctx) -> {name: new value}, applied at the end of every iteration
        self.lemmas = lemmas            # (ctx) -> [(name, fact)]: proved, then assumed, at the start of the body
        self.cases = cases or {}        # proof hints: name -> (ctx, k) -> (i -> (index terms, rest condition))
        self.shapes = shapes or {}
        self.unroll = unroll


class Ctx:
    """View of a state for invariants / contracts."""
    def __init__(self, ex, st, entry=None):
        self.ex, self.st, self.entry = ex, st, entry

    def _local(self, name):
        try:
            return self.st.locals[name]
        except KeyError:
            from .values import SymErr
            raise SymErr('the contract names the local %r, which the function does not have (renamed?): the contract has to be re-derived' % name)

    def __getitem__(self, name):
        v = self._local(name)
        return self.deref(v)

    def has(self, name):
        return name in self.st.locals

    def deref(self, v):
        if isinstance(v, Ref) and not isinstance(self.st.heap[v.id], dict):
            return self.st.heap[v.id]
        return v

    def raw(self, name):
        return self._local(name)

    def path(self, p):
        """'self._gfx._data' or 'pixel_row[3]' -> the value (usually a Ref) at that access path."""
        import re
        toks = re.findall(r'[A-Za-z_][A-Za-z_0-9]*|\[\d+\]', p)
        v = self._local(toks[0])
        for f in toks[1:]:
            if f.startswith('['):
                v = self.st.heap[v.id].get(int(f[1:-1]))
            else:
                v = self.st.heap[v.id][f]
        return v

    def get(self, p):
        return self.deref(self.path(p))


def assigned_names(stmts):
    names = set()
    for s in stmts:
        for n in ast.walk(s):
            if isinstance(n, ast.Name) and isinstance(n.ctx, (ast.Store, ast.Del)):
                names.add(n.id)
            if isinstance(n, (ast.Yield, ast.YieldFrom)):
                names.add('__yielded__')
    return names


def havoc_like(ex, name, v, st, spec):
    if name in spec.shapes:
        return spec.shapes[name]()
    if isinstance(v, bool) or isinstance(v, SBool):
        return V.fresh_bool(name)
    if isinstance(v, (int, SInt)):
        return V.fresh_int(name)
    if isinstance(v, SOpt):
        return SOpt(V.fresh_bool(name + '.none'), havoc_like(ex, name, v.val, st, spec))
    if isinstance(v, tuple):
        return tuple(havoc_like(ex, '%s.%d' % (name, i), x, st, spec) for i, x in enumerate(v))
    if isinstance(v, (SSeq, bytes)):
        sq = SSeq.of(v)
        if sq.kind == 'bytes':
            return V.byte_seq(name)
        if sq.kind == 'str':
            return V.int_seq(name, kind='str')
        raise SymErr('cannot infer shape of havocked list %s (give shapes= or defs=)' % name)
    if isinstance(v, Ref):
        h = st.heap[v.id]
        if isinstance(h, dict):
            return v
        nv = havoc_like(ex, name, h.with_kind('bytes') if v.tag == 'bytearray' else h, st, spec)
        return st.alloc(nv.with_kind(h.kind) if isinstance(nv, SSeq) else nv, v.tag)
    if v is None:
        return None
    raise SymErr('cannot havoc %s = %r' % (name, v))


def iteration_space(ex, s, st):
    """(count N, item(k)) of a for loop; concrete python list when fully concrete."""
    it = s.iter
    enum = False
    if isinstance(it, ast.Call) and isinstance(it.func, ast.Name) and it.func.id == 'enumerate' and len(it.args) == 1:
        enum = True
        it = it.args[0]
    if isinstance(it, ast.Call) and isinstance(it.func, ast.Name) and it.func.id == 'range' and not enum:
        args = [ex.as_int(ex.ev(a, st), st, s) for a in it.args]
        if len(args) == 1:
            lo, hi, step = 0, args[0], 1
        elif len(args) == 2:
            lo, hi, step = args[0], args[1], 1
        else:
            lo, hi, step = args
        if not isinstance(step, int) or step <= 0:
            raise SymErr('range step must be a positive constant')
        if isinstance(lo, int) and isinstance(hi, int):
            rng = range(lo, hi, step)
            return list(rng), len(rng), (lambda k: lo + k * step)
        span = hi - lo
        if step == 1:
            n = ite(span > 0, span, 0)
        else:
            n = ite(span > 0, (span + (step - 1)) // step, 0)
        return None, n, (lambda k: lo + k * step)
    v = ex.ev(it, st)
    if isinstance(v, (tuple, list)):
        items = list(v)
        return ([(i, x) for i, x in enumerate(items)] if enum else items), None, None
    if isinstance(v, dict):
        raise SymErr('iteration over dict')
    if isinstance(v, Ref):
        st.locals['__iter_cell__%d' % s.lineno] = v
    sq = st.seq(v)
    if not isinstance(sq.n, int):
        c = ex.constant_of(sq.n, st)
        if c is not None:
            sq = SSeq(c, sq.get, sq.kind)
    if isinstance(sq.n, int) and sq.n <= UNROLL_LIMIT:
        items = [sq.get(i) for i in range(sq.n)]
        return ([(i, x) for i, x in enumerate(items)] if enum else items), None, None
    g = sq.get
    return None, sq.n, ((lambda k: (k, g(k))) if enum else g)


def exec_for(ex, s, st):
    ordn = ex.loop_ord[id(s)]
    spec = getattr(ex.c, 'loops', {}).get(ordn)
    work = st.copy()
    nobl, nkeys = len(ex.obls), dict(ex._obn)
    try:
        items, n, item = iteration_space(ex, s, work)
    except NeedFork as nf:
        ex.rollback(nobl, nkeys)
        outs = []
        for cond in (nf.cond, z3.Not(nf.cond)):
            s2 = st.copy()
            s2.pc.append(cond)
            outs.extend(exec_for(ex, s, s2))
        return outs
    st = work
    if items is not None and (spec is None or spec.unroll or len(items) <= 1):
        if len(items) > UNROLL_LIMIT and not (spec and spec.unroll):
            raise SymErr('loop %d at line %d: %d concrete iterations and no invariant' % (ordn, s.lineno, len(items)))
        return unroll(ex, s, st, items)
    if spec is None:
        raise SymErr('loop %d at line %d needs an invariant' % (ordn, s.lineno))
    if items is not None and item is None:
        tbl = items
        n, item = len(items), (lambda k: SSeq.of(tbl, 'list').get(k))
    return cut_loop(ex, s, st, spec, ordn, n, item)


def unroll(ex, s, st, items):
    outs, cur = [], [st]
    for it in items:
        nxt = []
        for c in cur:
            ex.assign(s.target, it, c, s)
            for o in ex.block(s.body, c):
                if o.kind in ('normal', 'continue'):
                    nxt.append(o.st)
                elif o.kind == 'break':
                    outs.append(Outcome('normal', o.st))
                else:
                    outs.append(o)
        cur = nxt
    for c in cur:
        if s.orelse:
            outs.extend(ex.block(s.orelse, c))
        else:
            outs.append(Outcome('normal', c))
    return outs


def _clauses(r):
    if r is None:
        return []
    if isinstance(r, (list, tuple)) and (not r or isinstance(r[0], tuple)):
        return list(r)
    return [('inv', r)]


def cut_loop(ex, s, st, spec, ordn, n, item, is_while=False):
    tag = 'loop%d' % ordn
    for gname, gval in spec.ghost.items():
        st.locals[gname] = gval(Ctx(ex, st)) if callable(gval) else gval
    entry = st.copy()
    watermark = _cell[0]
    body_names = assigned_names(s.body) | set(spec.ghost)
    if not is_while:
        body_names |= assigned_names([ast.Expr(value=s.target)]) | {x.id for x in ast.walk(s.target) if isinstance(x, ast.Name)}
    mod_refs = [Ctx(ex, entry).path(p) for p in spec.modifies]
    mod_ids = {r.id for r in mod_refs}
    iter_cell = entry.locals.get('__iter_cell__%d' % s.lineno)
    if spec.defs:
        # cells named by a definition are written by the loop
        for name in spec.defs(Ctx(ex, entry, entry), None if is_while else 0):
            r = Ctx(ex, entry).path(name) if ('.' in name or '[' in name) else entry.locals.get(name)
            if isinstance(r, Ref) and not isinstance(entry.heap[r.id], dict):
                mod_ids.add(r.id)

    def defs_at(state, k):
        return spec.defs(Ctx(ex, state, entry), k) if spec.defs else {}

    def check(state, k, kind):
        """Obligations: defs and inv hold in `state` for iteration count k."""
        c = Ctx(ex, state, entry)
        for name, want in defs_at(state, k).items():
            have = c.get(name) if ('.' in name or '[' in name) else (c[name] if c.has(name) else None)
            if have is None:
                raise SymErr('invariant names undefined variable %s' % name)
            cs = spec.cases.get(name)
            cs = cs(c, k) if cs is not None else None
            with ex.oracle(state):
                parts = ex.with_sink(state, s, lambda: V.split_eq(have, want, cases=cs))
            for suf, cl in parts:
                ex.oblige(state, cl, '%s/%s.%s%s' % (tag, kind, name, suf), s)
        for nm, cl in _clauses(ex.with_sink(state, s, lambda: spec.inv(c, k)) if spec.inv else None):
            ex.oblige(state, cl, '%s/%s.%s' % (tag, kind, nm), s)

    def head(k):
        """Fresh arbitrary loop-head state satisfying the invariant for count k."""
        h = entry.copy()
        d = defs_at(h, k)
        for name in sorted(body_names):
            if name in d or name not in h.locals:
                continue
            if not is_while and name in {x.id for x in ast.walk(s.target) if isinstance(x, ast.Name)}:
                continue
            h.locals[name] = havoc_like(ex, name, h.locals[name], h, spec)
        for p, r in zip(spec.modifies, mod_refs):
            if p in d:
                continue
            cur = h.heap[r.id]
            if isinstance(cur, dict):
                # an object record: the attributes the body assigns (syntactically) are havocked, the others are framed
                rec = dict(cur)
                for n2 in ast.walk(ast.Module(body=list(s.body), type_ignores=[])):
                    if isinstance(n2, ast.Attribute) and isinstance(n2.ctx, ast.Store) and n2.attr in rec:
                        rec[n2.attr] = havoc_like(ex, p + '.' + n2.attr, rec[n2.attr], h, spec)
                h.heap[r.id] = rec
                continue
            h.heap[r.id] = havoc_like(ex, p, cur.with_kind('bytes') if r.tag == 'bytearray' else cur, h, spec).with_kind(cur.kind)
        # definitions are substituted (after havoc, so they may mention havocked names)
        d = defs_at(h, k)
        for name, val in d.items():
            if '.' in name or '[' in name:
                r = Ctx(ex, h).path(name)
                h.heap[r.id] = SSeq.of(val).with_kind(h.heap[r.id].kind)
            else:
                cur = h.locals.get(name)
                if isinstance(cur, Ref) and not isinstance(h.heap[cur.id], dict):
                    h.heap[cur.id] = SSeq.of(val).with_kind(h.heap[cur.id].kind)
                else:
                    h.locals[name] = val
        for nm, cl in _clauses(spec.inv(Ctx(ex, h, entry), k) if spec.inv else None):
            h.assume(cl)
        h.written = set()
        return h

    def enforce_frame(state):
        for cid in state.written:
            if cid <= watermark and cid not in mod_ids:
                raise SymErr('%s writes a pre-existing heap cell that is not in its modifies list' % tag)
            if iter_cell is not None and cid == iter_cell.id:
                raise SymErr('%s mutates the sequence it iterates' % tag)

    if spec.inv is not None or any(nm not in (spec.defs(Ctx(ex, entry, entry), None if is_while else 0) if spec.defs else {})
                                   for nm in body_names if nm in entry.locals):
        ex.abstract_calls = True       # havocked variables: outcomes are no longer a function of the inputs
    outs = []
    # 1. established at entry
    check(st, None if is_while else 0, 'inv-entry')
    if is_while:
        return cut_while(ex, s, st, spec, tag, head, check, enforce_frame, entry)
    # 2. preserved by an arbitrary iteration
    k = V.fresh_int('k')
    V.note_range(k, 0, n)
    h = head(k)
    h.assume(AND(k >= 0, k < n))
    if feasible(h.pc):
        ex.assign(s.target, ex.with_sink(h, s, lambda: item(k)), h, s)
        if spec.lemmas is not None:
            for nm, fact in spec.lemmas(Ctx(ex, h, entry), k) if spec.lemmas.__code__.co_argcount == 2 else spec.lemmas(Ctx(ex, h, entry)):
                ex.oblige(h, fact, '%s/lemma.%s' % (tag, nm), s)
                h.assume(fact)
        for o in ex.block(s.body, h):
            enforce_frame(o.st)
            if o.kind in ('normal', 'continue'):
                if spec.ghost_step:
                    o.st.locals.update(spec.ghost_step(Ctx(ex, o.st, entry)))
                check(o.st, k + 1, 'inv-preserved')
            elif o.kind == 'break':
                o.st.written |= entry.written
                outs.append(Outcome('normal', o.st))
            else:
                o.st.written |= entry.written
                outs.append(o)
    # 3. exit after n iterations
    x = head(n if not isinstance(n, int) else n)
    x.written = entry.written | mod_ids
    if s.orelse:
        outs.extend(ex.block(s.orelse, x))
    else:
        outs.append(Outcome('normal', x))
    return outs


def cut_while(ex, s, st, spec, tag, head, check, enforce_frame, entry):
    outs = []
    h = head(None)
    c = ex.truth(ex.ev(s.test, h), h)
    hb, hx = h.copy(), h.copy()
    hb.assume(c)
    hx.assume(NOT(c))
    if spec.lemmas is not None:
        for nm, fact in spec.lemmas(Ctx(ex, hb, entry)):
            ex.oblige(hb, fact, '%s/lemma.%s' % (tag, nm), s)
            hb.assume(fact)
    if feasible(hb.pc):
        v0 = spec.variant(Ctx(ex, hb, entry)) if spec.variant else None
        for o in ex.block(s.body, hb):
            enforce_frame(o.st)
            if o.kind in ('normal', 'continue'):
                if spec.ghost_step:
                    o.st.locals.update(spec.ghost_step(Ctx(ex, o.st, entry)))
                check(o.st, None, 'inv-preserved')
                if v0 is not None:
                    v1 = spec.variant(Ctx(ex, o.st, entry))
                    ex.oblige(o.st, AND(v0 >= 0, v1 < v0), '%s/variant-decreases' % tag, s)
            elif o.kind == 'break':
                o.st.written |= entry.written
                outs.append(Outcome('normal', o.st))
            else:
                o.st.written |= entry.written
                outs.append(o)
    if c is True:
        return outs                    # `while True`: the loop is left through break / return / raise only
    hx.written = set(entry.written)
    for p in spec.modifies:
        hx.written.add(Ctx(ex, entry).path(p).id)
    if s.orelse:
        outs.extend(ex.block(s.orelse, hx))
    else:
        outs.append(Outcome('normal', hx))
    return outs


def exec_while(ex, s, st):
    ordn = ex.loop_ord[id(s)]
    spec = getattr(ex.c, 'loops', {}).get(ordn)
    if spec is None:
        raise SymErr('while loop %d at line %d needs an invariant' % (ordn, s.lineno))
    return cut_loop(ex, s, st, spec, ordn, None, None, is_while=True)


def _matches(handler, exc):
    t = handler.type
    if t is None:
        return True
    names = []
    for e in (t.elts if isinstance(t, ast.Tuple) else [t]):
        names.append(e.id if isinstance(e, ast.Name) else e.attr)
    if exc in names:
        return True
    if 'Exception' in names or 'BaseException' in names:
        return True
    # subclass relation from the contract, if declared
    return False


def exec_try(ex, s, st):
    outs = []
    for o in ex.block(s.body, st):
        if o.kind == 'raise':
            hd = None
            for h in s.handlers:
                if _matches(h, o.val.exc) or ex.c.is_subclass(o.val.exc, h):
                    hd = h
                    break
            if hd is not None:
                if hd.name:
                    o.st.locals[hd.name] = ExcVal(o.val.exc)
                o.st.locals['__exc__'] = o.val.exc
                outs.extend(ex.block(hd.body, o.st))
                continue
        elif o.kind == 'normal' and s.orelse:
            outs.extend(ex.block(s.orelse, o.st))
            continue
        outs.append(o)
    if s.finalbody:
        res = []
        for o in outs:
            for f in ex.block(s.finalbody, o.st):
                if f.kind == 'normal':
                    res.append(Outcome(o.kind, f.st, o.val))
                else:
                    res.append(f)
        outs = res
    return outs


class ExcVal:
    def __init__(self, exc):
        self.exc = exc


def exec_with(ex, s, st):
    fn = getattr(ex.c, 'with_model', None)
    if fn is None:
        raise SymErr('with statement (line %d) needs a with_model in the contract' % s.lineno)
    return fn(ex, s, st)
