"""REG back end: real Python (bytes) regular expressions -> automata; decision of obligations about
'first token' functions by exploring the product of all matcher automata.

Supported sre constructs (exactly those occurring in picotool's lexer; anything else raises Unsupported ->
the obligation is UNDECIDED, never guessed): LITERAL, NOT_LITERAL, IN (LITERAL / RANGE / CATEGORY / NEGATE),
ANY (no DOTALL), MAX_REPEAT / MIN_REPEAT are NOT distinguished (see below), SUBPATTERN, BRANCH,
AT_BOUNDARY (\\b, ASCII word characters as for bytes patterns), AT_BEGINNING, ASSERT_NOT look-ahead of ONE byte class.

Match length: `pattern.match(s)` is modelled as the LONGEST prefix of s in the pattern's language.  CPython's
backtracking matcher returns the first match in priority order, which for these patterns coincides with the longest
one; that is an assumed contract CROSS-CHECKED on every run by exhaustive comparison with the real `re` on all strings
up to a length bound over each pattern's relevant bytes (see crosscheck()).
"""
import itertools
import re
import re._parser as sre_parse
import re._constants as sc

END = 256                      # pseudo symbol: end of the chunk
ALL = (1 << 256) - 1
WORD = 0
for _c in itertools.chain(range(48, 58), range(65, 91), range(97, 123), [95]):
    WORD |= 1 << _c
DIGIT = sum(1 << c for c in range(48, 58))
SPACE = sum(1 << c for c in (9, 10, 11, 12, 13, 32))


class Unsupported(Exception):
    pass


def mask_of(byteset):
    m = 0
    for c in byteset:
        m |= 1 << c
    return m


def _category(cat):
    if cat == sc.CATEGORY_DIGIT:
        return DIGIT
    if cat == sc.CATEGORY_NOT_DIGIT:
        return ALL & ~DIGIT
    if cat == sc.CATEGORY_WORD:
        return WORD
    if cat == sc.CATEGORY_NOT_WORD:
        return ALL & ~WORD
    if cat == sc.CATEGORY_SPACE:
        return SPACE
    if cat == sc.CATEGORY_NOT_SPACE:
        return ALL & ~SPACE
    raise Unsupported('category %r' % (cat,))


def _in_mask(items):
    m, neg = 0, False
    for op, av in items:
        if op == sc.NEGATE:
            neg = True
        elif op == sc.LITERAL:
            m |= 1 << av
        elif op == sc.RANGE:
            for c in range(av[0], av[1] + 1):
                m |= 1 << c
        elif op == sc.CATEGORY:
            m |= _category(av)
        else:
            raise Unsupported('IN item %r' % (op,))
    return (ALL & ~m) if neg else m


class NFA:
    """Thompson automaton with consuming edges (byte mask), epsilon edges and guarded epsilon edges.
    A guard is ('b',) for \\b or ('n', mask) for 'next byte not in mask' (negative one-byte look-ahead)."""
    def __init__(self):
        self.edges = []            # per state: list of (kind, arg, target); kind 'c' mask / 'e' None / 'g' guard
        self.start = self.new()
        self.final = None
        self.masks = set()

    def new(self):
        self.edges.append([])
        return len(self.edges) - 1

    def add(self, s, kind, arg, t):
        self.edges[s].append((kind, arg, t))
        if kind == 'c':
            self.masks.add(arg)
        if kind == 'g' and arg[0] == 'n':
            self.masks.add(arg[1])


def build(pattern, flags=0):
    tree = sre_parse.parse(pattern, flags)
    n = NFA()
    end = _seq(n, list(tree), n.start)
    n.final = end
    n.pattern = pattern
    return n


def _seq(n, items, s):
    for op, av in items:
        s = _node(n, op, av, s)
    return s


def _node(n, op, av, s):
    if op == sc.LITERAL:
        t = n.new()
        n.add(s, 'c', 1 << av, t)
        return t
    if op == sc.NOT_LITERAL:
        t = n.new()
        n.add(s, 'c', ALL & ~(1 << av), t)
        return t
    if op == sc.ANY:
        t = n.new()
        n.add(s, 'c', ALL & ~(1 << 10), t)
        return t
    if op == sc.IN:
        t = n.new()
        n.add(s, 'c', _in_mask(av), t)
        return t
    if op == sc.SUBPATTERN:
        return _seq(n, list(av[3]), s)
    if op == sc.BRANCH:
        t = n.new()
        for alt in av[1]:
            a = n.new()
            n.add(s, 'e', None, a)
            e = _seq(n, list(alt), a)
            n.add(e, 'e', None, t)
        return t
    if op in (sc.MAX_REPEAT, sc.MIN_REPEAT):
        lo, hi, sub = av
        sub = list(sub)
        for _ in range(lo):
            s = _seq(n, sub, s)
        if hi == sc.MAXREPEAT:
            loop = n.new()
            n.add(s, 'e', None, loop)
            e = _seq(n, sub, loop)
            n.add(e, 'e', None, loop)
            return loop
        t = n.new()
        n.add(s, 'e', None, t)
        for _ in range(hi - lo):
            s = _seq(n, sub, s)
            n.add(s, 'e', None, t)
        return t
    if op == sc.AT:
        if av == sc.AT_BOUNDARY:
            t = n.new()
            n.add(s, 'g', ('b',), t)
            return t
        if av in (sc.AT_BEGINNING, sc.AT_BEGINNING_STRING):
            t = n.new()
            n.add(s, 'g', ('^',), t)
            return t
        raise Unsupported('AT %r' % (av,))
    if op == sc.ASSERT_NOT:
        direction, sub = av
        sub = list(sub)
        if direction != 1 or len(sub) != 1:
            raise Unsupported('look-around other than a one-byte negative look-ahead')
        o, a = sub[0]
        if o == sc.LITERAL:
            m = 1 << a
        elif o == sc.IN:
            m = _in_mask(a)
        else:
            raise Unsupported('look-ahead body %r' % (o,))
        t = n.new()
        n.add(s, 'g', ('n', m), t)
        return t
    raise Unsupported('sre op %r' % (op,))


class Matcher:
    """Deterministic simulation of one NFA.  A configuration is (frozenset of NFA states, prev_is_word, at_start)."""
    def __init__(self, nfa, name=None):
        self.n = nfa
        self.name = name or repr(nfa.pattern)
        self.init = (frozenset([nfa.start]), False, True)
        self._cl = {}
        self._st = {}

    def closure(self, conf, nxt):
        """NFA states reachable by (guarded) epsilon edges, given the next symbol (byte or END)."""
        key = (conf, nxt)
        r = self._cl.get(key)
        if r is not None:
            return r
        S, prevw, at_start = conf
        nextw = nxt != END and (WORD >> nxt) & 1 == 1
        seen = set(S)
        todo = list(S)
        while todo:
            s = todo.pop()
            for kind, arg, t in self.n.edges[s]:
                ok = False
                if kind == 'e':
                    ok = True
                elif kind == 'g':
                    if arg[0] == 'b':
                        ok = prevw != nextw
                    elif arg[0] == '^':
                        ok = at_start
                    else:
                        ok = nxt == END or (arg[1] >> nxt) & 1 == 0
                if ok and t not in seen:
                    seen.add(t)
                    todo.append(t)
        r = frozenset(seen)
        self._cl[key] = r
        return r

    def accepts(self, conf, nxt):
        return conf is not None and self.n.final in self.closure(conf, nxt)

    def step(self, conf, c):
        if conf is None:
            return None
        key = (conf, c)
        if key in self._st:
            return self._st[key]
        T = set()
        for s in self.closure(conf, c):
            for kind, arg, t in self.n.edges[s]:
                if kind == 'c' and (arg >> c) & 1:
                    T.add(t)
        r = (frozenset(T), (WORD >> c) & 1 == 1, False) if T else None
        self._st[key] = r
        return r

    def longest(self, s):
        """Length of the longest prefix of the byte string s in the language (None if there is none)."""
        conf, best = self.init, None
        for i in range(len(s) + 1):
            nxt = s[i] if i < len(s) else END
            if self.accepts(conf, nxt):
                best = i
            if i == len(s):
                break
            conf = self.step(conf, s[i])
            if conf is None:
                break
        return best


def byte_classes(masks):
    """Partition of 0..255 into classes indistinguishable by all the given masks (and word-ness); one
    representative per class."""
    sig = {}
    for c in range(256):
        k = tuple((m >> c) & 1 for m in masks) + ((WORD >> c) & 1,)
        sig.setdefault(k, []).append(c)
    return [v[0] for v in sig.values()], list(sig.values())


def crosscheck(pattern, maxlen=4, extra=b''):
    """Exhaustive comparison of Matcher.longest with the real re.match on all strings up to maxlen over one
    representative per byte class of the pattern (+ extra bytes).  Returns (comparisons, first mismatch or None)."""
    n = build(pattern)
    m = Matcher(n)
    reps, _ = byte_classes(sorted(n.masks))
    alpha = sorted(set(reps) | set(extra))
    rx = re.compile(pattern)
    cnt = 0
    for L in range(0, maxlen + 1):
        for t in itertools.product(alpha, repeat=L):
            s = bytes(t)
            cnt += 1
            r = rx.match(s)
            want = r.end() if r else None
            if m.longest(s) != want:
                return cnt, (s, want, m.longest(s))
    return cnt, None


# ------------------------------------------------------------------------------------------------ product exploration

class Product:
    """Lock-step run of many matchers over all byte strings s with a guessed split position p (1 <= p <= len s):
    per matcher the flags  E (accepts at some position 1..p-1), A (accepts at p), L (accepts at some position > p).
    `verdict(flagsets, split_done)` is evaluated at every reachable end of string; exploration is exhaustive
    (finitely many product states), so a property checked this way holds for ALL strings."""

    def __init__(self, matchers):
        self.ms = matchers
        masks = set()
        for m in matchers:
            masks |= m.n.masks
        self.reps, self.classes = byte_classes(sorted(masks))

    def explore(self, bad, limit=400000):
        """bad(flags) -> description or None, called for every (string, split) at end of string, where flags is a
        tuple of (E, A, L) per matcher.  Returns (states explored, witness or None); witness = (string, p, description)."""
        ms = self.ms
        k = len(ms)
        init = (tuple(m.init for m in ms), tuple((False, False, False) for _ in ms), False)
        seen = {init: None}
        frontier = [init]
        nstates = 0
        while frontier:
            nxt_frontier = []
            for st in frontier:
                nstates += 1
                if nstates > limit:
                    raise Unsupported('product automaton larger than %d states' % limit)
                confs, flags, split = st
                # end of string here: acceptance at the current position is evaluated with look-ahead END
                for do_split in ((False, True) if not split else (False,)):
                    f2 = self._accept_update(confs, flags, split, do_split, END)
                    if f2 is None:
                        continue
                    if split or do_split:
                        d = bad(f2)
                        if d:
                            return nstates, self._witness(seen, st, do_split, d)
                # consume one more symbol (one representative per byte class)
                for c in self.reps:
                    for do_split in ((False, True) if not split else (False,)):
                        f2 = self._accept_update(confs, flags, split, do_split, c)
                        if f2 is None:
                            continue
                        c2 = tuple(m.step(cf, c) for m, cf in zip(ms, confs))
                        ns = (c2, f2, split or do_split)
                        if ns not in seen:
                            seen[ns] = (st, c, do_split)
                            nxt_frontier.append(ns)
            frontier = nxt_frontier
        return nstates, None

    def _accept_update(self, confs, flags, split, do_split, nxt):
        """Flags after evaluating acceptance at the CURRENT position with next symbol nxt.  The split can only be
        placed at a position >= 1 (a token is non-empty): position 0 is recognised by all configurations being initial."""
        at0 = all(cf is not None and cf[2] for cf in confs)
        if do_split and at0:
            return None
        out = []
        for m, cf, (e, a, l) in zip(self.ms, confs, flags):
            acc = (not at0) and m.accepts(cf, nxt)
            if split:
                out.append((e, a, l or acc))
            elif do_split:
                out.append((e, acc, l))
            else:
                out.append((e or acc, a, l))
        return tuple(out)

    def _witness(self, seen, st, do_split_here, desc):
        syms, p = [], None
        cur = st
        pos_split = None
        path = []
        while seen[cur] is not None:
            prev, c, ds = seen[cur]
            path.append((c, ds))
            cur = prev
        path.reverse()
        s = bytes(c for c, _ in path)
        for i, (c, ds) in enumerate(path):
            if ds:
                pos_split = i
        if pos_split is None and do_split_here:
            pos_split = len(s)
        return s, pos_split, desc


class SplitProduct:
    """Two groups of matchers over w = c1 . c2 . r with the split placed at |c1| >= 1:
      * early matchers run from position 0; recorded: the SET of early matchers whose language contains c1 (judged on
        c1 alone: look-ahead sees the end of text), and whether maximal munch over the early group does NOT end the
        first token at the split (`later`: some early matcher accepts at a later position, or none accepts at the split
        in context);
      * late matchers start AT the split; recorded: the set of late matchers that accepted at some position after it;
      * the class (a byte of K, or 'o') of the last byte of c1 and of the first byte after the split.
    Exhaustive exploration of the reachable product => results hold for all byte strings.  Configurations are kept
    sparse (dead matchers dropped)."""

    def __init__(self, early, late, K=()):
        self.early, self.late = list(early), list(late)
        masks = set()
        for m in self.early + self.late:
            masks |= m.n.masks
        for k in K:
            masks.add(1 << k)
        self.reps, self.classes = byte_classes(sorted(masks))
        self.K = set(K)

    def _kc(self, c):
        return c if c in self.K else 'o'

    def explore(self, visit, limit=900000):
        """visit(members: frozenset, later: bool, late_acc: frozenset, last_class, first_class) -> iterable of keys,
        called at every reachable end of string after the split.  Returns (states, {key: (witness, split)})."""
        early, late = self.early, self.late
        init = (tuple((i, m.init) for i, m in enumerate(early)), None, None, None)
        seen = {init: None}
        frontier = [init]
        found = {}
        nstates = 0
        syms = list(self.reps) + [END]

        def record(keys, st):
            for key in keys or ():
                if key not in found:
                    found[key] = self._wit(seen, st)

        def step(confs, ms, c):
            out = []
            for i, cf in confs:
                n = ms[i].step(cf, c)
                if n is not None:
                    out.append((i, n))
            return tuple(out)
        while frontier:
            nxt = []
            for st in frontier:
                nstates += 1
                if nstates > limit:
                    raise Unsupported('product automaton larger than %d states' % limit)
                ec, lc, fl, lastk = st
                if fl is None:
                    at0 = lastk is None
                    for c in syms:
                        if not at0:
                            A = frozenset(i for i, cf in ec if early[i].accepts(cf, END))
                            if A:
                                broken = not any(early[i].accepts(cf, c) for i, cf in ec)
                                if c == END:
                                    record(visit(A, False, frozenset(), lastk, None), st)
                                else:
                                    e2 = () if broken else step(ec, early, c)
                                    l2 = tuple((j, n) for j, n in ((j, m.step(m.init, c)) for j, m in enumerate(late)) if n is not None)
                                    ns = (e2, l2, (A, broken, frozenset(), lastk, self._kc(c)), None)
                                    if ns not in seen:
                                        seen[ns] = (st, c, True)
                                        nxt.append(ns)
                        if c != END:
                            e2 = step(ec, early, c)
                            if e2:
                                ns = (e2, None, None, self._kc(c))
                                if ns not in seen:
                                    seen[ns] = (st, c, False)
                                    nxt.append(ns)
                    continue
                A, later, LA, lk, fk = fl
                for c in syms:
                    lat2 = later or any(early[i].accepts(cf, c) for i, cf in ec)
                    acc = [j for j, cf in lc if late[j].accepts(cf, c)]
                    LA2 = (LA | frozenset(acc)) if acc else LA
                    if c == END:
                        record(visit(A, lat2, LA2, lk, fk), st)
                        continue
                    e2 = () if lat2 else step(ec, early, c)
                    l2 = step(lc, late, c)
                    if not e2 and not l2 and not lat2:
                        continue                                  # nothing can change any more and no fusion was seen
                    ns = (e2, l2, (A, lat2, LA2, lk, fk), None)
                    if ns not in seen:
                        seen[ns] = (st, c, False)
                        nxt.append(ns)
            frontier = nxt
        return nstates, found

    def _wit(self, seen, st):
        path = []
        cur = st
        while seen[cur] is not None:
            prev, c, ds = seen[cur]
            path.append((c, ds))
            cur = prev
        path.reverse()
        s = bytes(c for c, _ in path)
        split = None
        for i, (c, ds) in enumerate(path):
            if ds:
                split = i
        if split is None:
            split = len(s)
        return s, split
