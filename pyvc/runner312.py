"""Runs under the REAL interpreter (/venv/bin/python): build real objects from a tagged value tree,
call the real repository function, dump result / exception / heap.  No z3 here.

stdin : JSON {"target": "mod:qual", "args": {name: tree}, "order": [names], "mode": "call"|"gen"}
stdout: JSON {"exc": str|null, "exc_msg": str, "result": tree, "heap": {id: tree}}
"""
import importlib
import json
import sys
import traceback


def build(t, cells):
    k = t['t']
    if k == 'int':
        return t['v']
    if k == 'bool':
        return t['v']
    if k == 'none':
        return None
    if k == 'bytes':
        return bytes.fromhex(t['v'])
    if k == 'str':
        return t['v']
    if k == 'tuple':
        return tuple(build(x, cells) for x in t['v'])
    if k == 'dict':
        return {kk: build(v, cells) for kk, v in t['v'].items()}
    if k == 'class':
        mod, cls = t['cls'].split(':')
        C = importlib.import_module(mod)
        for p in cls.split('.'):
            C = getattr(C, p)
        return C
    if k == 'ilist':          # immutable snapshot of a list (functional sequence)
        return [build(x, cells) for x in t['v']]
    cid = t['id']
    if cid in cells:
        return cells[cid]
    if k == 'bytearray':
        o = bytearray.fromhex(t['v'])
    elif k == 'list':
        o = []
        cells[cid] = o
        o.extend(build(x, cells) for x in t['v'])
    elif k == 'obj':
        mod, cls = t['cls'].split(':')
        C = importlib.import_module(mod)
        for p in cls.split('.'):
            C = getattr(C, p)
        o = C.__new__(C)
        cells[cid] = o
        for f, v in t['f'].items():
            setattr(o, f, build(v, cells))
    else:
        raise ValueError(k)
    cells[cid] = o
    return o


def dump(v, ids, depth=0):
    if depth > 6:
        return {'t': 'opaque', 'v': repr(v)[:80]}
    if v is None:
        return {'t': 'none'}
    if isinstance(v, bool):
        return {'t': 'bool', 'v': v}
    if isinstance(v, int):
        return {'t': 'int', 'v': v}
    if isinstance(v, bytes):
        return {'t': 'bytes', 'v': v.hex()}
    if isinstance(v, bytearray):
        return {'t': 'bytearray', 'id': ids.get(id(v), -1), 'v': v.hex()}
    if isinstance(v, str):
        return {'t': 'str', 'v': v}
    if isinstance(v, tuple):
        return {'t': 'tuple', 'v': [dump(x, ids, depth + 1) for x in v]}
    if isinstance(v, list):
        return {'t': 'list', 'id': ids.get(id(v), -1), 'v': [dump(x, ids, depth + 1) for x in v]}
    if isinstance(v, dict):
        return {'t': 'dict', 'v': {str(k): dump(x, ids, depth + 1) for k, x in v.items()}}
    if hasattr(v, '__dict__'):
        return {'t': 'obj', 'id': ids.get(id(v), -1), 'cls': type(v).__module__ + ':' + type(v).__qualname__,
                'f': {k: dump(x, ids, depth + 1) for k, x in vars(v).items()}}
    return {'t': 'opaque', 'v': repr(v)[:80]}


def main():
    req = json.load(sys.stdin)
    cells = {}
    args = {k: build(t, cells) for k, t in req['args'].items()}
    ids = {id(o): cid for cid, o in cells.items()}
    mod, qual = req['target'].split(':')
    f = importlib.import_module(mod)
    for p in qual.split('.'):
        f = getattr(f, p)
    if hasattr(f, '__func__') and isinstance(getattr(f, '__self__', None), type):
        f = f.__func__                 # classmethod: the class is passed explicitly as the first argument
    out = {'exc': None, 'exc_msg': '', 'result': None}
    try:
        pos = [args[n] for n in req['order']]
        kw = {k: v for k, v in args.items() if k not in req['order']}
        r = f(*pos, **kw)
        if req.get('mode') == 'gen' or hasattr(r, '__next__'):
            r = list(r)
        out['result'] = dump(r, ids)
    except BaseException as e:        # noqa: the exception class is the observation
        out['exc'] = type(e).__name__
        out['exc_msg'] = str(e)[:300]
        out['tb'] = traceback.format_exc()[-1500:]
    out['heap'] = {str(cid): dump(o, ids) for cid, o in cells.items()}
    json.dump(out, sys.stdout)


if __name__ == '__main__':
    main()
