"""Access to the REAL repository source: function ASTs by qualified name, source
hashes, and module constants / class tables obtained by importing the real
modules in the real interpreter (/venv/bin/python)."""
import ast
import hashlib
import os
import pickle
import subprocess
import sys

REPO = os.environ.get('VERIF_REPO', '/repo')
REAL_PY = os.environ.get('VERIF_REAL_PY', '/venv/bin/python')

_mod_cache = {}
_info_cache = {}


def mod_path(modname):
    p = os.path.join(REPO, *modname.split('.'))
    if os.path.isdir(p):
        return os.path.join(p, '__init__.py')
    return p + '.py'


def mod_ast(modname):
    if modname not in _mod_cache:
        path = mod_path(modname)
        with open(path, 'rb') as fh:
            src = fh.read().decode('utf-8')
        _mod_cache[modname] = (ast.parse(src, path), src, path)
    return _mod_cache[modname]


class FnSrc:
    def __init__(self, qual, node, src, path, clsname):
        self.qual, self.node, self.path, self.clsname = qual, node, path, clsname
        self.text = ast.get_source_segment(src, node)
        self.sha = hashlib.sha256(self.text.encode()).hexdigest()
        self.line = node.lineno
        self.module = qual.split(':')[0]


def find_function(qual):
    """qual = 'pico8.game.game:Game.write_cart_data' or 'pico8.util:bytes_to_hex'."""
    modname, path = qual.split(':')
    tree, src, fpath = mod_ast(modname)
    parts = path.split('.')
    body, clsname = tree.body, None
    for i, p in enumerate(parts):
        found = None
        for n in body:
            if isinstance(n, (ast.FunctionDef, ast.ClassDef)) and n.name == p:
                found = n
        if found is None:
            raise KeyError('no %s in %s' % (path, modname))
        if isinstance(found, ast.ClassDef):
            clsname = found.name
            body = found.body
        else:
            if i != len(parts) - 1:
                body = found.body
                continue
            return FnSrc(qual, found, src, fpath, clsname)
    raise KeyError(qual)


_DUMPER = r'''
import sys, pickle, importlib, inspect, types
mods = sys.argv[1:]
BASIC = (int, float, str, bytes, bool, type(None))
def basic(v, d=0):
    if isinstance(v, BASIC): return True
    if d > 6: return False
    if isinstance(v, (list, tuple, set, frozenset)): return all(basic(x, d+1) for x in v)
    if isinstance(v, dict): return all(basic(k, d+1) and basic(x, d+1) for k, x in v.items())
    return False
def fq(f):
    f = getattr(f, '__func__', f)
    if isinstance(f, (types.FunctionType,)):
        return f.__module__ + ':' + f.__qualname__
    return None
def plain(v, d=0):
    if isinstance(v, tuple) and hasattr(v, '_fields'):
        return ('__nt__', type(v).__name__, tuple(v._fields), tuple(plain(x, d+1) for x in v))
    if isinstance(v, tuple): return tuple(plain(x, d+1) for x in v)
    if isinstance(v, list): return [plain(x, d+1) for x in v]
    if isinstance(v, dict): return {plain(k, d+1): plain(x, d+1) for k, x in v.items()}
    return v
out = {}
for mn in mods:
    m = importlib.import_module(mn)
    info = {'consts': {}, 'funcs': {}, 'classes': {}, 'modules': {}, 'names': {}}
    for k, v in vars(m).items():
        if k.startswith('__'): continue
        if basic(v): info['consts'][k] = plain(v)
        elif isinstance(v, types.ModuleType): info['modules'][k] = v.__name__
        elif inspect.isclass(v):
            info['names'][k] = v.__module__ + ':' + v.__qualname__
            if v.__module__ == mn:
                ci = {'attrs': {}, 'methods': {}, 'kinds': {}, 'mro': [c.__module__ + ':' + c.__qualname__ for c in v.__mro__]}
                for a in dir(v):
                    if a.startswith('__') and a not in ('__init__',): continue
                    try: raw = inspect.getattr_static(v, a)
                    except AttributeError: continue
                    val = getattr(v, a)
                    if basic(val): ci['attrs'][a] = plain(val)
                    else:
                        q = fq(raw) or fq(val)
                        if q:
                            ci['methods'][a] = q
                            ci['kinds'][a] = ('classmethod' if isinstance(raw, classmethod) else
                                              'staticmethod' if isinstance(raw, staticmethod) else
                                              'property' if isinstance(raw, property) else 'method')
                info['classes'][k] = ci
        elif fq(v): info['funcs'][k] = fq(v)
    out[mn] = info
sys.stdout.buffer.write(pickle.dumps(out, protocol=4))
'''


def module_info(modname):
    """Constants / functions / classes of a real module (imported in REAL_PY)."""
    if modname not in _info_cache:
        load_infos([modname])
    return _info_cache[modname]


def load_infos(modnames):
    need = [m for m in modnames if m not in _info_cache]
    if not need:
        return
    env = dict(os.environ)
    env['PYTHONPATH'] = REPO
    env['PYTHONDONTWRITEBYTECODE'] = '1'
    r = subprocess.run([REAL_PY, '-c', _DUMPER] + need, env=env, capture_output=True, cwd='/')
    if r.returncode != 0:
        raise RuntimeError('module dump failed: ' + r.stderr.decode()[-2000:])
    _info_cache.update(pickle.loads(r.stdout))


def class_info(clsqual):
    modname, cname = clsqual.split(':')
    return module_info(modname)['classes'][cname]
