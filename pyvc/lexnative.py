"""BOUNDED native differential run: the real lexer against the reference tokenizer (specs/reflex.py) on enumerated
and random sources.  Executed in the real interpreter; never counted as proved."""
import json
import subprocess

from . import source

_SCRIPT = r'''
import sys, json, itertools, random
sys.path.insert(0, %(verif)r)
from specs import reflex, lexspec
from pico8.lua import lexer
SYMS = [bytes.fromhex(x) for x in %(syms)r]
KIND = {'TokComment': 'comment', 'TokSpace': 'space', 'TokNewline': 'newline', 'TokNumber': 'number', 'TokLabel': 'label',
        'TokKeyword': 'keyword', 'TokSymbol': 'symbol', 'TokName': 'name', 'TokString': 'string'}
def real(src, chunked):
    lx = lexer.Lexer(version=8)
    lines = src.split(b'\n')
    chunks = [l + b'\n' for l in lines[:-1]] + ([lines[-1]] if lines[-1] else []) if chunked else [src]
    lx.process_lines(chunks)
    out = []
    for t in lx.tokens:
        k = KIND[type(t).__name__]
        v = None
        if k == 'string': v = t.value
        if k == 'number': v = t.value
        out.append((k, t.code if k != 'string' else None, t._lineno, t._charno, v, getattr(t, '_multiline_quote', None) is not None))
    return out
def compare(src):
    try:
        ref = reflex.tokenize(src, SYMS)
    except reflex.Outside:
        return None
    except Exception as e:
        return None
    for chunked in (False, True):
        try:
            got = real(src, chunked)
        except Exception as e:
            return 'real lexer raised %%s: %%s (chunked=%%s)' %% (type(e).__name__, e, chunked)
        if len(got) != len(ref):
            return 'token count %%d vs reference %%d (chunked=%%s)' %% (len(got), len(ref), chunked)
        for (k, text, ln, col, v, ml), (rk, rtext, rln, rcol, rv) in zip(got, ref):
            if k != rk: return 'kind %%s vs %%s at %%r' %% (k, rk, rtext)
            if text is not None and text != rtext: return 'extent %%r vs %%r' %% (text, rtext)
            if (ln, col) != (rln, rcol): return 'position %%r vs %%r of %%r' %% ((ln, col), (rln, rcol), rtext)
            if k == 'string':
                if v != rv and not (ml and rv[:1] == b'\n' and v == rv) and not (ml and v[:1] == b'\n' and v[1:] == rv):
                    return 'string value %%r vs %%r of %%r' %% (v, rv, rtext)
            if k == 'number' and v != rv: return 'number value %%r vs %%r of %%r' %% (v, rv, rtext)
    return 'ok'
rnd = random.Random(%(seed)d)
n = ok = 0
bad = []
def run(src):
    global n, ok
    r = compare(src)
    if r is None: return
    n += 1
    if r == 'ok': ok += 1
    elif len(bad) < 12: bad.append([src.hex(), r])
# 1. every string up to length L over a token-relevant alphabet
alpha = [b'a', b'e', b'1', b'0', b'x', b'.', b'-', b'=', b'<', b'>', b'[', b']', b'"', b'\\', b' ', b'\n', b'\x80', b':', b'/', b'~']
for L in range(1, %(L)d + 1):
    for t in itertools.product(alpha, repeat=L):
        run(b''.join(t))
# 2. numerals
na = [b'0', b'1', b'9', b'a', b'f', b'A', b'x', b'X', b'b', b'B', b'.', b'e', b'E', b'+', b'-']
for L in range(1, %(NL)d + 1):
    for t in itertools.product(na, repeat=L):
        s = b''.join(t)
        if s[:1] in b'0123456789.': run(s)
# 3. random token sequences with random separators
pool = SYMS + [k for k in lexspec.KEYWORDS] + [b'x', b'foo', b'end1', b'_a\x80', b'\x8b', b'?', b'12', b'1.5', b'.5', b'0x1f', b'0XA.8',
        b'0b101', b'1e+5', b'3e-2', b'"s\\n\\"q"', b"'a\\065b'", b'"\\x41\\x7a"', b'[[long]]', b'[==[a]]b]==]', b'::lbl::', b'-- c', b'// c',
        b'--[[ block\n more ]]', b'"\\0001"', b'"\\*\\#"']
seps = [b'', b' ', b'\n', b'\t', b' \n ', b'\r\n']
for _ in range(%(R)d):
    k = rnd.randint(1, 7)
    s = b''
    for _ in range(k):
        s += rnd.choice(pool) + rnd.choice(seps)
    run(s)
for h in %(extra)r:
    run(bytes.fromhex(h))
print(json.dumps({'n': n, 'ok': ok, 'bad': bad}))
'''


def run(symbols, seed=0, L=3, NL=4, R=4000, extra=()):
    env = {'PYTHONPATH': source.REPO, 'PATH': '/usr/bin:/bin', 'PYTHONDONTWRITEBYTECODE': '1'}
    script = _SCRIPT % {'verif': '/verif', 'syms': [s.hex() for s in symbols], 'seed': seed, 'L': L, 'NL': NL, 'R': R,
                       'extra': [e.hex() for e in extra]}
    r = subprocess.run([source.REAL_PY, '-c', script], capture_output=True, text=True, env=env, cwd='/')
    if r.returncode != 0:
        raise RuntimeError('native lexer differential failed to run: ' + r.stderr[-1500:])
    return json.loads(r.stdout)
