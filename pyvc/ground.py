"""GROUND back end: closed obligations over finite domains, evaluated exhaustively (finite => complete).
Here: the assumed contracts of builtins used by the models in calls.py, cross-checked against the real CPython."""
import json
import subprocess

from . import source

_SCRIPT = r'''
import json
out = {}
out['fmt'] = [format(b, '02x') for b in range(256)]
iv = {}
fh = {}
for a in range(256):
    for b in range(256):
        s = bytes([a, b])
        try: iv[a * 256 + b] = int(s, 16)
        except ValueError: pass
        try:
            t = s.decode('ascii')
            fh[a * 256 + b] = list(bytes.fromhex(t))
        except (ValueError, UnicodeDecodeError): pass
out['int16'] = iv
out['fromhex'] = fh
out['int16_1'] = {}
for a in range(256):
    try: out['int16_1'][a] = int(bytes([a]), 16)
    except ValueError: pass
out['ws'] = [c for c in range(256) if bytes([c]).rstrip() == b'']
out['ascii'] = []
for c in range(256):
    try:
        str(bytes([c]), encoding='ascii'); out['ascii'].append(c)
    except UnicodeDecodeError: pass
print(json.dumps(out))
'''


def builtin_models():
    """[(name, ok, detail)] -- the typed builtin models of calls.py against CPython, over their whole domain."""
    r = subprocess.run([source.REAL_PY, '-c', _SCRIPT], capture_output=True, text=True)
    if r.returncode != 0:
        return [('GROUND:builtins/dump', False, r.stderr[-400:])]
    d = json.loads(r.stdout)

    def is_hex(c):
        return 48 <= c <= 57 or 65 <= c <= 70 or 97 <= c <= 102

    def hv(c):
        return c - 48 if c <= 57 else (c - 55 if c <= 70 else c - 87)

    def hexdigit(n):
        return n + 48 if n < 10 else n + 87
    res = []
    bad = [b for b in range(256) if d['fmt'][b] != chr(hexdigit(b // 16)) + chr(hexdigit(b % 16))]
    res.append(('GROUND:builtin/format(b,"02x")==hexdigit pair, all 256 bytes', not bad, str(bad[:5])))
    bad = [k for k in range(65536) if is_hex(k >> 8) and is_hex(k & 255) and d['int16'].get(str(k)) != hv(k >> 8) * 16 + hv(k & 255)]
    res.append(('GROUND:builtin/int(s,16) on all 2-char hex-digit strings', not bad, str(bad[:5])))
    bad = [k for k in range(65536) if is_hex(k >> 8) and is_hex(k & 255) and d['fromhex'].get(str(k)) != [hv(k >> 8) * 16 + hv(k & 255)]]
    res.append(('GROUND:builtin/bytes.fromhex on all 2-char hex-digit strings', not bad, str(bad[:5])))
    bad = [a for a in range(256) if is_hex(a) and d['int16_1'].get(str(a)) != hv(a)]
    res.append(('GROUND:builtin/int(s,16) on all 1-char hex-digit strings', not bad, str(bad[:5])))
    res.append(('GROUND:builtin/bytes.rstrip() whitespace set == {9,10,11,12,13,32}', d['ws'] == [9, 10, 11, 12, 13, 32], str(d['ws'])))
    res.append(('GROUND:builtin/str(b,"ascii") defined exactly on bytes < 128', d['ascii'] == list(range(128)), ''))
    return res


# Obligations decided by looking at the FORM of the source (syntactic scans, control-path enumeration, extracted step functions): a
# failure says that the code no longer has the form the obligation was written for -- after a harmless refactoring as well as after
# a breaking change.  They become a violation only together with a concrete failing input from the check's bounded native run.
STRUCTURAL_PREFIXES = ('SHAPE:', 'LAYOUT:', 'SCAN:', 'GROUND:wiring', 'PATHS:', 'SYMEX:')


def account(check, results, backend='GROUND'):
    for name, ok, detail in results:
        check.count(backend, 'discharged' if ok else 'failed', 0.0, name)
        if not ok and name.startswith(STRUCTURAL_PREFIXES):
            # a syntactic obligation about the SHAPE of the source: a failure means "the code no longer has the form the contract was
            # written for".  That is a violation only with a concrete failing input (from the check's bounded native run); a harmless
            # refactor must not raise an alarm -- it is reported as undecided (the contract has to be re-derived).
            check.structural_fail.append((name, detail))
            continue
        if not ok:
            # evaluated on the real module constants / through the real functions: the witness IS a native observation
            check.violation(name, {'witness': detail, 'solver_output': 'ground evaluation on the real code is false: ' + str(detail)}, True)
