"""Calls: modular (callee contract), inlined, and typed models of builtins.

An unmodelled builtin signature is 'unsupported' (SymErr -> undecided); it is never guessed.
Every model that is only exact on a sub-domain registers the sub-domain as an obligation
(kind 'no-<Exception>' when CPython would raise there, kind 'model-domain:*' otherwise).
"""
import ast
import z3

from . import values as V
from .values import (E, SInt, SBool, SSeq, SOpt, Ref, SymErr, toint, tobool, ite, vite, AND, OR, NOT,
                     implies, val_eq, forall)
from .execu import (Exec, Outcome, FuncVal, ModVal, ClassVal, BuiltinVal, ExternVal, BoundMethod,
                    SeqMethod, OpaqueStr, RaisedValue, NeedFork, State)
from . import source

WS = (9, 10, 11, 12, 13, 32)


def is_ws(c):
    return OR(*[c == w for w in WS])


def hexval(c):
    """Value of an ASCII hex digit (only meaningful where is_hex holds)."""
    return ite(c <= 57, c - 48, ite(c <= 70, c - 55, c - 87))


def is_hex(c):
    return OR(AND(c >= 48, c <= 57), AND(c >= 65, c <= 70), AND(c >= 97, c <= 102))


def hexdigit(n):
    """ASCII code of the lower-case hex digit of n in 0..15."""
    return ite(n < 10, n + 48, n + 87)


def do_call(ex, n, st):
    f = ex.ev(n.func, st)
    args = []
    for a in n.args:
        if isinstance(a, ast.Starred):
            v = ex.ev(a.value, st)
            if not isinstance(v, tuple):
                raise SymErr('*args of non-tuple')
            args.extend(v)
        else:
            args.append(ex.ev(a, st))
    kw = {}
    for k in n.keywords:
        if k.arg is None:
            v = ex.ev(k.value, st)
            if not isinstance(v, dict):
                raise SymErr('**kwargs of non-dict')
            kw.update(v)
        else:
            kw[k.arg] = ex.ev(k.value, st)
    hook = getattr(ex.c, 'call_hook', None)
    if hook is not None:
        r = hook(ex, n, f, args, kw, st)
        if r is not NotImplemented:
            return r
    if isinstance(f, BuiltinVal):
        return call_builtin(ex, f.name, args, kw, st, n)
    if isinstance(f, SeqMethod):
        return call_seq_method(ex, f.recv, f.name, args, kw, st, n)
    if isinstance(f, FuncVal):
        return call_repo(ex, f.qual, None, args, kw, st, n)
    if isinstance(f, BoundMethod):
        recv = f.recv
        if f.kind == 'staticmethod':
            return call_repo(ex, f.qual, None, args, kw, st, n)
        return call_repo(ex, f.qual, recv, args, kw, st, n)
    if isinstance(f, ClassVal):
        return construct(ex, f, args, kw, st, n)
    if hasattr(f, 'pyvc_call'):
        return f.pyvc_call(ex, args, kw, st, n)
    if isinstance(f, ExternVal):
        raise SymErr('call to external %s (line %d) without a model' % (f.name, n.lineno))
    raise SymErr('call of %r (line %d)' % (f, n.lineno))


def construct(ex, cls, args, kw, st, node):
    """cls(...): allocate the record, run the real __init__ (its contract, or inlined)."""
    ci = source.class_info(cls.qual)
    obj = st.alloc({}, cls.qual)
    init = ci['methods'].get('__init__')
    if init is None:
        if args or kw:
            raise SymErr('constructor arguments without __init__')
        return obj
    if init not in ex.reg and init not in getattr(ex.c, 'inline', ()):
        raise SymErr('constructor %s (line %d): no contract and not inlined' % (init, node.lineno))
    r = call_repo(ex, init, obj, args, kw, st, node)
    if isinstance(r, RaisedValue):
        return r
    return obj


def bind_args(fsrc, recv, args, kw, ex, st):
    a = fsrc.node.args
    names = [x.arg for x in a.posonlyargs + a.args]
    out = {}
    pos = list(args)
    if recv is not None:
        pos = [recv] + pos
    if len(pos) > len(names) and a.vararg is None:
        raise SymErr('too many positional arguments for %s' % fsrc.qual)
    for nm, v in zip(names, pos):
        out[nm] = v
    if a.vararg is not None:
        out['*' + a.vararg.arg] = tuple(pos[len(names):])
    extra = {}
    allnames = set(names) | {x.arg for x in a.kwonlyargs}
    for k, v in kw.items():
        if k in allnames:
            out[k] = v
        elif a.kwarg is not None:
            extra[k] = v
        else:
            raise SymErr('unexpected keyword %s for %s' % (k, fsrc.qual))
    if a.kwarg is not None:
        out['**' + a.kwarg.arg] = extra
    # defaults (constants only) so that contracts see every parameter
    defaults = a.defaults
    for nm, d in zip(names[len(names) - len(defaults):], defaults):
        if nm not in out:
            out[nm] = ast.literal_eval(d)
    for x, d in zip(a.kwonlyargs, a.kw_defaults):
        if x.arg not in out and d is not None:
            out[x.arg] = ast.literal_eval(d)
    return out


def call_repo(ex, qual, recv, args, kw, st, node, ctor=False):
    if qual in getattr(ex.c, 'ignore_calls', ()):
        ex.assumptions.add('call to %s has no effect on program state (ignored)' % qual)
        return None
    callee = ex.reg.get(qual)
    inline = qual in getattr(ex.c, 'inline', ())
    fsrc = source.find_function(qual)
    bound = bind_args(fsrc, recv, args, kw, ex, st)
    if callee is not None and not inline:
        return apply_contract(ex, callee, bound, st, node)
    if not inline and _loop_free(fsrc.node):
        # a helper without a contract of its own and without loops (e.g. one produced by an extract-function refactoring) is
        # executed as part of its caller: nothing is assumed about it
        inline = True
    if not inline:
        raise SymErr('call to %s (line %d): no contract and not inlined' % (qual, node.lineno))
    if ex.depth > 6:
        raise SymErr('inline depth')
    from .contract import Contract
    stub = callee if callee is not None else _inline_stub(ex.c, qual)
    sub = Exec(fsrc, stub, ex.reg, ex.obls, prefix=ex.prefix + '>' + qual.split(':')[1], depth=ex.depth + 1)
    sub._obn = ex._obn
    callst = State()
    callst.heap, callst.pc, callst.written, callst.trace = st.heap, st.pc, st.written, st.trace
    outs = sub.run(callst, bound)
    ex.assumptions |= sub.assumptions
    if len(outs) != 1:
        raise SymErr('inlined call to %s forks into %d outcomes' % (qual, len(outs)))
    o = outs[0]
    st.heap, st.pc, st.written, st.trace = o.st.heap, o.st.pc, o.st.written, o.st.trace
    if o.kind == 'raise':
        return RaisedValue(o.val.exc)
    return o.val


def _loop_free(fnode):
    return not any(isinstance(n, (ast.For, ast.While, ast.AsyncFor, ast.ListComp, ast.SetComp, ast.DictComp, ast.GeneratorExp, ast.Yield,
                                  ast.YieldFrom, ast.Lambda, ast.Try, ast.With)) for n in ast.walk(fnode))


_HOOKS = ('call_hook', 'contains_model', 'dict_model', 'builtin_model', 'method_model', 'join_model', 'with_model',
          'inline', 'ignore_calls', 'ghost_args', 'assume_clauses', 'subclass_of', 'no_merge', 'name_locals', 'attr_model')


def _inline_stub(parent, qual):
    """Contract object for an inlined callee without a contract of its own: the caller's modelling hooks apply inside
    the callee as well; loop specifications come from the caller's `inline_loops[qual]`."""
    from .contract import Contract
    stub = Contract()
    for h in _HOOKS:
        if hasattr(parent, h):
            setattr(stub, h, getattr(parent, h))
    stub.loops = getattr(parent, 'inline_loops', {}).get(qual, {})
    stub.inline_loops = getattr(parent, 'inline_loops', {})
    return stub


def apply_contract(ex, callee, bound, st, node):
    """Modular call: assert the callee's precondition, havoc its frame, assume its postcondition."""
    from .contract import Kit, Result
    K = Kit(st, ex)
    ga = getattr(ex.c, 'ghost_args', {}).get(callee.target)
    if ga is not None:
        bound.update(ga(ex, st, bound))        # ghost arguments of the callee, supplied by the caller's contract
    pre = ex.with_sink(st, node, lambda: callee.requires(K, bound))
    short = callee.target.split(':')[1]
    ex.oblige(st, pre, 'call:%s/pre' % short, node)
    st.assume(pre)
    # exceptional exits allowed by the callee contract
    for exc, cond in callee.raises(K, bound).items():
        if ex.decide(cond, st):
            return RaisedValue(exc)
    old = Kit(st.copy(), ex)
    upd = callee.update(old, bound)
    if upd is not None:
        done = set()
        for ref, want in upd:
            cur = st.heap[ref.id]
            st.write_cell(ref, SSeq.of(want).with_kind(cur.kind))
            done.add(ref.id)
        if any(r.id not in done for r in callee.modifies(K, bound)):
            raise SymErr('update() of %s does not cover its modifies set' % callee.target)
        res = Result('return', callee.result(K, bound))
        return res.value
    for ref in callee.modifies(K, bound):
        cur = st.heap[ref.id]
        if isinstance(cur, dict):
            hr = getattr(callee, 'havoc_record', None)
            if hr is None:
                raise SymErr('modifies of an object record')
            st.write_cell(ref, dict(cur, **hr(K, bound, ref, cur)))     # only the named fields change (frame of the record)
            continue
        st.write_cell(ref, callee.havoc(K, bound, ref, cur))
    val = callee.result(K, bound)
    if getattr(callee, 'abstract_result', False):
        ex.abstract_calls = True       # the callee's result is only constrained by its postcondition
    res = Result('return', val)
    only = getattr(ex.c, 'assume_clauses', {}).get(callee.target)
    for nm, cl in callee.ensures(K, bound, old, res):
        if only is None or nm in only:
            st.assume(cl)
    return res.value


# ------------------------------------------------------------------ comprehension

def comprehension(ex, n, st, kind):
    if len(n.generators) != 1:
        raise SymErr('nested comprehension')
    g = n.generators[0]
    if g.ifs:
        raise SymErr('comprehension filter')
    from .loops import iteration_space
    fake = ast.For(target=g.target, iter=g.iter, body=[], orelse=[], lineno=n.lineno)
    items, cnt, item = iteration_space(ex, fake, st)
    base = st

    def elem(v, record, idx=None):
        s2 = base.copy()
        if idx is not None and not isinstance(idx, int):
            s2.assume(AND(idx >= 0, idx < cnt))     # element terms are only used for in-range indices
        ex.assign(g.target, v, s2, n)
        if record:
            return s2, ex.freeze(ex.ev(n.elt, s2), s2)
        old = E.sink
        saved, savedn = len(ex.obls), dict(ex._obn)
        try:
            r = ex.freeze(ex.ev(n.elt, s2), s2)
        finally:
            ex.rollback(saved, savedn)
            E.sink = old
        return s2, r
    if items is not None:
        vals = [elem(v, True)[1] for v in items]
        return SSeq.of(vals, 'list')
    # symbolic count: obligations are generated once for an arbitrary index
    k = V.fresh_int('ci')
    s2 = base.copy()
    s2.assume(AND(k >= 0, k < cnt))
    ex.assign(g.target, ex.with_sink(s2, n, lambda: item(k)), s2, n)
    ex.ev(n.elt, s2)
    return SSeq(cnt, lambda i: elem(item(i), False, i)[1], 'list')


# ------------------------------------------------------------------ builtins

def seq_arg(ex, v, st):
    if isinstance(v, Ref):
        return st.seq(v)
    return SSeq.of(v)


def elem_len(sq):
    """Concrete common length of the elements of a sequence of sequences, or None."""
    if isinstance(sq.n, int):
        ls = set()
        for i in range(sq.n):
            e = sq.get(i)
            e = SSeq.of(e) if not isinstance(e, SSeq) else e
            if not isinstance(e.n, int):
                return None
            ls.add(e.n)
        return ls.pop() if len(ls) == 1 else None
    old = E.sink
    E.sink = None                     # a probe for the element shape only; raises no obligations
    try:
        e = sq.get(V.fresh_int('probe'))
    finally:
        E.sink = old
    if isinstance(e, (SSeq, bytes, str)):
        e = SSeq.of(e)
        if isinstance(e.n, int):
            return e.n
    return None


def join(ex, sep, parts, st, node):
    sepq = SSeq.of(sep)
    if not (isinstance(sepq.n, int) and sepq.n == 0):
        raise SymErr('join with non-empty separator')
    kind = sepq.kind
    if isinstance(parts, tuple):
        parts = SSeq.of([ex.freeze(p, st) for p in parts], 'list')
    sq = seq_arg(ex, parts, st)
    if isinstance(sq.n, int) and sq.n > 12:
        L = elem_len(sq)
        if L is not None and L > 0:
            g = sq.get
            return SSeq(sq.n * L, lambda k: SSeq.of(g(k // L)).get(k % L), kind)
    if isinstance(sq.n, int):
        r = SSeq.of([] if kind != 'str' else '', kind)
        r = SSeq(0, lambda k: 0, kind)
        for i in range(sq.n):
            e = sq.get(i)
            e = st.seq(e) if isinstance(e, Ref) else SSeq.of(e)
            r = r + e
        return r.with_kind(kind)
    L = elem_len(sq)
    if L is None:
        hook = getattr(ex.c, 'join_model', None)
        if hook is not None:
            return hook(ex, sq, st, kind)
        r = concat_model(sq, kind)
        ex.assumptions.add('sep.join(pieces) with a symbolic number of variable-length pieces is modelled as the '
                           'concatenation characterised by an offset function (builtin model of join)')
        return r
    if L == 0:
        return SSeq(0, lambda k: 0, kind)
    g = sq.get
    return SSeq(sq.n * L, lambda k: SSeq.of(g(k // L)).get(k % L), kind)


def concat_model(pieces, kind):
    """Concatenation of pieces.get(0..n-1), each an SSeq of symbolic length: characterised by an offset
    function OFF (OFF(0)=0, OFF(k+1)=OFF(k)+len(piece k)) and RES[OFF(k)+j] = piece(k)[j].  The axioms are global
    facts about fresh symbols (a definition), so they go to E.axioms."""
    n = pieces.n
    OFF = z3.Function(E.fresh('off'), V.isort(), V.isort())
    RES = z3.Function(E.fresh('cat'), V.isort(), V.isort())
    k, j = V.ivar(E.fresh('k')), V.ivar(E.fresh('j'))
    pk = SSeq.of(pieces.get(SInt(k)))
    nt = toint(n)
    E.axioms.append(OFF(V.iconst(0)) == V.iconst(0))
    E.axioms.append(z3.ForAll([k], z3.Implies(z3.And(k >= 0, k < nt),
                                              z3.And(toint(pk.n) >= 0, OFF(k + 1) == OFF(k) + toint(pk.n))),
                              patterns=[OFF(k)]))
    E.axioms.append(z3.ForAll([k, j], z3.Implies(z3.And(k >= 0, k < nt, j >= 0, j < toint(pk.n)),
                                                 RES(OFF(k) + j) == toint(pk.get(SInt(j)))),
                              patterns=[z3.MultiPattern(OFF(k), RES(OFF(k) + j))]))
    # lemma (by induction on b, both steps are obligations): OFF is monotone on [0, n]
    a, b = V.ivar(E.fresh('a')), V.ivar(E.fresh('b'))
    E.lemmas.append(('lemma.concat-offsets-monotone/base', [], z3.ForAll([a], OFF(a) <= OFF(a))))
    E.lemmas.append(('lemma.concat-offsets-monotone/step',
                     [z3.And(a >= 0, a <= b, b < nt, OFF(a) <= OFF(b))], OFF(a) <= OFF(b + 1)))
    E.axioms.append(z3.ForAll([a, b], z3.Implies(z3.And(a >= 0, a <= b, b <= nt), OFF(a) <= OFF(b)),
                              patterns=[z3.MultiPattern(OFF(a), OFF(b))]))
    r = SSeq(SInt(OFF(nt)), lambda i: SInt(RES(toint(i))), kind)
    CONCATS[id(r)] = (r, pieces, OFF)
    return r


CONCATS = {}


def call_builtin(ex, name, args, kw, st, node):
    A = args
    if name == 'len':
        v = A[0]
        if isinstance(v, (dict, tuple, set, frozenset)):
            return len(v)
        return seq_arg(ex, v, st).n
    if name in ('min', 'max'):
        if len(A) == 1:
            raise SymErr('min/max of iterable')
        r = ex.as_int(A[0], st, node)
        for x in A[1:]:
            x = ex.as_int(x, st, node)
            if isinstance(r, int) and isinstance(x, int):
                r = min(r, x) if name == 'min' else max(r, x)
            else:
                r = ite((x < r) if name == 'min' else (x > r), x, r)
        return r
    if name == 'abs':
        x = ex.as_int(A[0], st, node)
        return abs(x) if isinstance(x, int) else ite(x < 0, -x, x)
    if name == 'bool':
        return ex.truth(A[0], st)
    if name == 'isinstance':
        return model_isinstance(ex, A[0], node.args[1], st)
    if name in ('bytes', 'bytearray'):
        return model_bytes(ex, name, A, kw, st, node)
    if name == 'list' or name == 'tuple':
        if not A:
            return st.alloc(SSeq.of([], 'list'), 'list') if name == 'list' else ()
        v = A[0]
        if isinstance(v, tuple):
            v = SSeq.of([ex.freeze(x, st) for x in v], 'list')
        sq = seq_arg(ex, v, st)
        if name == 'tuple':
            if not isinstance(sq.n, int):
                raise SymErr('tuple() of symbolic length')
            return tuple(sq.get(i) for i in range(sq.n))
        return st.alloc(sq.with_kind('list'), 'list')
    if name == 'int':
        return model_int(ex, A, kw, st, node)
    if name == 'str':
        if len(A) == 1 and isinstance(A[0], (int, str)) and not kw:
            return str(A[0])
        if len(A) == 1 and isinstance(A[0], OpaqueStr):
            return A[0]
        enc = kw.get('encoding', A[1] if len(A) > 1 else None)
        if enc not in ('ascii', 'utf-8') or isinstance(A[0], str):
            raise SymErr('str() signature')
        sq = seq_arg(ex, A[0], st)
        if sq.kind != 'bytes':
            ex.oblige(st, False, 'no-TypeError(str of non-bytes)', node)
        ascii_only(ex, sq, st, node, 'no-UnicodeDecodeError')
        return sq.with_kind('str')
    if name == 'format':
        if len(A) == 2 and A[1] in ('02x', '02X'):
            b = ex.as_int(A[0], st, node)
            ex.oblige(st, AND(b >= 0, b <= 255), 'model-domain:format(b,"02x") for a byte', node)
            if isinstance(b, int):
                return format(b, A[1])
            if A[1] == '02X':
                up = lambda n: ite(n < 10, n + 48, n + 55)
                return SSeq.of([up(b // 16), up(b % 16)], 'str')
            return SSeq.of([hexdigit(b // 16), hexdigit(b % 16)], 'str')
        raise SymErr('format() signature')
    if name == 'bytearray.fromhex' or name == 'bytes.fromhex':
        r = model_fromhex(ex, A[0], st, node)
        return st.alloc(r, 'bytearray') if name.startswith('bytearray') else r
    if name in ('ValueError', 'TypeError', 'IndexError', 'AssertionError', 'Exception', 'KeyError'):
        return OpaqueStr()
    if name == 'getattr' and len(A) in (2, 3) and isinstance(A[1], str) and isinstance(A[0], Ref) and isinstance(st.heap[A[0].id], dict):
        rec = st.heap[A[0].id]
        if A[1] in rec:
            return rec[A[1]]
        if len(A) == 3:
            return A[2]
        ex.oblige(st, False, 'no-AttributeError(%s)' % A[1], node)
        return None
    if name == 'setattr' and len(A) == 3 and isinstance(A[1], str) and isinstance(A[0], Ref) and isinstance(st.heap[A[0].id], dict):
        rec = dict(st.heap[A[0].id])
        rec[A[1]] = A[2]
        st.write_cell(A[0], rec)
        return None
    if name in ('any', 'all') and len(A) == 1:
        v = A[0]
        sq = SSeq.of(list(v), 'list') if isinstance(v, tuple) else seq_arg(ex, v, st)
        if isinstance(sq.n, int):
            ts = [ex.truth(sq.get(i), st) for i in range(sq.n)]
            return OR(*ts) if name == 'any' else AND(*ts)
        raise SymErr('%s() over a sequence of symbolic length' % name)
    if name == 'chr' or name == 'ord':
        raise SymErr(name)
    if name == 'enumerate' or name == 'range' or name == 'zip':
        raise SymErr('%s() outside a for statement' % name)
    hook = getattr(ex.c, 'builtin_model', None)
    if hook is not None:
        r = hook(ex, name, A, kw, st, node)
        if r is not NotImplemented:
            return r
    raise SymErr('builtin %s (line %d) has no model for this signature' % (name, node.lineno))


def ascii_only(ex, sq, st, node, kind):
    if isinstance(sq.n, int) and sq.n <= 600:
        for i in range(sq.n):
            x = sq.get(i)
            if isinstance(x, int):
                if x >= 128:
                    ex.oblige(st, False, kind, node)
            else:
                ex.oblige(st, x < 128, kind, node)
        return
    ex.oblige(st, forall(0, sq.n, lambda k: sq.get(k) < 128), kind, node)


def model_isinstance(ex, v, tnode, st):
    names = []
    for e in (tnode.elts if isinstance(tnode, ast.Tuple) else [tnode]):
        names.append(e.id if isinstance(e, ast.Name) else e.attr)
    if isinstance(v, Ref):
        h = st.heap[v.id]
        if isinstance(h, dict):
            mro = [q.split(':')[1] for q in source.class_info(v.tag)['mro']]
            return any(nm in mro for nm in names)
        return v.tag in names
    if isinstance(v, (SInt, int)) and not isinstance(v, bool):
        return 'int' in names
    if isinstance(v, (SSeq, bytes, str)):
        k = SSeq.of(v).kind
        return k in names
    if v is None:
        return False
    raise SymErr('isinstance on %r' % (v,))


def model_bytes(ex, name, A, kw, st, node):
    mut = name == 'bytearray'

    def out(sq):
        sq = sq.with_kind('bytes')
        return st.alloc(sq, 'bytearray') if mut else sq
    if not A and not kw:
        return out(SSeq(0, lambda k: 0))
    v = A[0]
    enc = kw.get('encoding', A[1] if len(A) > 1 else None)
    if isinstance(v, (int, SInt)) and not isinstance(v, bool):
        if enc is not None:
            ex.oblige(st, False, 'no-TypeError(encoding without a string argument)', node)
        n = ex.as_int(v, st, node)
        ex.oblige(st, n >= 0 if not isinstance(n, int) else n >= 0, 'no-ValueError(negative count)', node)
        return out(SSeq(n, lambda k: 0))
    if isinstance(v, tuple):
        v = SSeq.of(list(v), 'list')
    sq = seq_arg(ex, v, st)
    if enc is not None:
        if sq.kind != 'str':
            # bytes(<bytes>, 'ascii') raises TypeError("encoding without a string argument")
            ex.oblige(st, False, 'no-TypeError(encoding without a string argument)', node)
            return out(sq)
        if enc not in ('ascii', 'utf-8'):
            raise SymErr('encoding %r' % enc)
        ascii_only(ex, sq, st, node, 'no-UnicodeEncodeError')
        return out(sq)
    if sq.kind == 'str':
        ex.oblige(st, False, 'no-TypeError(string argument without an encoding)', node)
    if sq.kind != 'bytes':
        if 'ValueError' in getattr(ex.c, 'implicit_raises', ()) and isinstance(sq.n, int) and sq.n <= 16:
            # the contract allows this call to raise ValueError: the out-of-range case is an exceptional OUTCOME
            ok = AND(*[AND(x >= 0, x <= 255) for x in (sq.get(i) for i in range(sq.n)) if not isinstance(x, int) or not 0 <= x <= 255])
            if not ex.decide(ok, st):
                return RaisedValue('ValueError')
        else:
            ex.byte_range(sq, st, node)
    return out(sq)


def model_int(ex, A, kw, st, node):
    call = node
    if len(A) == 1 and not kw:
        v = A[0]
        if isinstance(v, (int, SInt)) and not isinstance(v, bool):
            return v
        if isinstance(v, (bool, SBool)):
            return ex.as_int(v, st, node)
        if isinstance(v, TrueDiv):
            ex.oblige(st, AND(v.a >= 0, v.b > 0, v.a < (1 << 30)), 'model-domain:int(a/b) as floor division', node)
            return v.a // v.b
        raise SymErr('int() of %r' % (v,))
    base = kw.get('base', A[1] if len(A) > 1 else 10)
    if base == 16 and not isinstance(A[0], (int, SInt)):
        sq = seq_arg(ex, A[0], st)
        if not isinstance(sq.n, int) or not 1 <= sq.n <= 4:
            raise SymErr('int(s, 16) with symbolic or long length')
        r = 0
        for i in range(sq.n):
            c = sq.get(i)
            ex.oblige(st, is_hex(c), 'no-ValueError(int(s,16) on a non-hex-digit)', node)
            r = r * 16 + hexval(c)
        return r
    raise SymErr('int() signature')


class TrueDiv:
    def __init__(self, a, b):
        self.a, self.b = a, b


def model_fromhex(ex, v, st, node):
    sq = seq_arg(ex, v, st)
    if sq.kind != 'str':
        ex.oblige(st, False, 'no-TypeError(fromhex of non-str)', node)
    n = sq.n
    # exact on strings made of hex digits only (fromhex also skips ASCII whitespace between pairs;
    # that part of CPython's behaviour is outside the model and excluded by this obligation)
    if isinstance(n, int):
        if n % 2:
            ex.oblige(st, False, 'no-ValueError(fromhex odd length)', node)
        for i in range(n):
            ex.oblige(st, is_hex(sq.get(i)), 'no-ValueError(fromhex non-hex)', node)
    else:
        ex.oblige(st, n % 2 == 0, 'no-ValueError(fromhex odd length)', node)
        ex.oblige(st, forall(0, n, lambda k: is_hex(sq.get(k))), 'no-ValueError(fromhex non-hex)', node)
    g = sq.get
    return SSeq(n // 2, lambda k: hexval(g(2 * k)) * 16 + hexval(g(2 * k + 1)), 'bytes')


def call_seq_method(ex, recv, name, A, kw, st, node):
    if isinstance(recv, dict):
        if name == 'get':
            return recv.get(A[0], A[1] if len(A) > 1 else None)
        raise SymErr('dict.%s' % name)
    if isinstance(recv, (SInt, SOpt)):
        hook = getattr(ex.c, 'method_model', None)
        r = hook(ex, recv, name, A, kw, st, node) if hook is not None else NotImplemented
        if r is NotImplemented:
            raise SymErr('method %s of an abstract value (line %d)' % (name, node.lineno))
        return r
    hook0 = getattr(ex.c, 'method_model', None)
    if hook0 is not None and getattr(ex.c, 'method_model_first', False):
        r0 = hook0(ex, recv, name, A, kw, st, node)
        if r0 is not NotImplemented:
            return r0
    sq = seq_arg(ex, recv, st)
    mut = isinstance(recv, Ref)
    if name == 'append' and mut:
        v = A[0]
        if recv.tag == 'bytearray':
            v = ex.as_int(v, st, node)
            ex.oblige(st, AND(v >= 0 if not isinstance(v, int) else v >= 0, v <= 255), 'no-ValueError(byte range)', node)
        else:
            v = ex.freeze(v, st) if isinstance(v, Ref) and recv.tag == 'list' and getattr(ex.c, 'freeze_appends', True) else v
        st.write_cell(recv, (sq + SSeq.of([v], sq.kind)).with_kind(sq.kind))
        return None
    if name == 'clear' and mut and not A:
        st.write_cell(recv, SSeq(0, lambda k: 0, sq.kind))
        return None
    if name == 'extend' and mut:
        src = A[0]
        if isinstance(src, tuple):
            src = SSeq.of(list(src), 'list')
        src = seq_arg(ex, src, st)
        if recv.tag == 'bytearray':
            ex.byte_range(src, st, node)
        st.write_cell(recv, (sq + src).with_kind(sq.kind))
        return None
    if name == 'join':
        return join(ex, recv, A[0], st, node)
    if name == 'rstrip' and not A:
        return model_rstrip(ex, sq, st, node)
    if name == 'strip' and len(A) == 1:
        p = seq_arg(ex, A[0], st)
        if isinstance(p.n, int) and p.n == 1:
            c = p.get(0)
            lo, hi = V.fresh_int('strip.lo'), V.fresh_int('strip.hi')
            V.note_range(lo, 0, sq.n + 1)
            V.note_range(hi, 0, sq.n + 1)
            st.assume(AND(lo >= 0, lo <= hi, hi <= sq.n,
                          forall(0, lo, lambda k: sq.get(k) == c), forall(hi, sq.n, lambda k: sq.get(k) == c),
                          OR(lo == hi, AND(NOT(sq.get(lo) == c), NOT(sq.get(hi - 1) == c)))))
            return sq.slice(lo, hi)
        raise SymErr('strip() signature')
    if name == 'replace' and len(A) == 2:
        p, q = seq_arg(ex, A[0], st), seq_arg(ex, A[1], st)
        if isinstance(p.n, int) and p.n == 1 and isinstance(q.n, int) and q.n == 1:
            a, b, g = p.get(0), q.get(0), sq.get
            return SSeq(sq.n, lambda k: ite(g(k) == a, b, g(k)), sq.kind)
        raise SymErr('replace() signature')
    if name in ('startswith', 'endswith') and len(A) == 1:
        p = seq_arg(ex, A[0], st)
        if not isinstance(p.n, int):
            raise SymErr('%s with symbolic-length affix' % name)
        if name == 'startswith':
            return AND(sq.n >= p.n, *[val_eq(sq.get(i), p.get(i)) for i in range(p.n)])
        return AND(sq.n >= p.n, *[val_eq(sq.get(sq.n - p.n + i), p.get(i)) for i in range(p.n)])
    if name == 'find' and len(A) == 1:
        p = seq_arg(ex, A[0], st)
        if isinstance(p.n, int) and p.n == 1 and isinstance(sq.n, int) and sq.n <= 32:
            c = p.get(0)
            r = -1
            for i in range(sq.n - 1, -1, -1):
                r = ite(val_eq(sq.get(i), c), i, r)
            return r
        raise SymErr('find() signature')
    if name == 'split' and len(A) == 1:
        p = seq_arg(ex, A[0], st)
        if isinstance(p.n, int) and p.n == 1 and isinstance(sq.n, int) and sq.n <= 32:
            c = p.get(0)
            parts, start = [], 0
            for i in range(sq.n):
                if ex.decide(val_eq(sq.get(i), c), st):
                    parts.append(sq.slice(start, i))
                    start = i + 1
            parts.append(sq.slice(start, sq.n))
            return st.alloc(SSeq.of(parts, 'list'), 'list')
        raise SymErr('split() signature')
    if name == 'index' and len(A) == 1 and isinstance(A[0], (int, SInt)):
        # first index of a byte; raises ValueError when absent
        c = A[0]
        k = V.ivar(E.fresh('ix'))
        present = SBool(z3.Exists([k], z3.And(toint(0) <= k, k < toint(sq.n), tobool(sq.get(SInt(k)) == c))))
        if not ex.decide(present, st):
            return RaisedValue('ValueError')
        r = V.fresh_int('index')
        st.assume(AND(r >= 0, r < sq.n, sq.get(r) == c, forall(0, r, lambda j: sq.get(j) != c)))
        return r
    hook = getattr(ex.c, 'method_model', None)
    if hook is not None:
        r = hook(ex, recv, name, A, kw, st, node)
        if r is not NotImplemented:
            return r
    raise SymErr('method %s (line %d) has no model for this signature' % (name, node.lineno))


def model_rstrip(ex, sq, st, node):
    n = sq.n
    if isinstance(n, int) and n <= 600:
        m = n
        while m > 0 and ex.decide(is_ws(sq.get(m - 1)), st):
            m -= 1
        return sq.slice(0, m)
    m = V.fresh_int('rstrip')
    st.assume(AND(m >= 0, m <= n, forall(m, n, lambda k: is_ws(sq.get(k))),
                  OR(m == 0, NOT(is_ws(sq.get(m - 1))))))
    return sq.slice(0, m)
