"""C11: a failed cart write never damages the file already at the destination.

Contract of pico8.game.file:to_file, as an EFFECT-ORDER contract discharged on every control path of the real function
(every call may raise; see pyvc/effects.py):
   (E1) every event that can create / truncate / remove / rename a file by path happens after `fmt.to_file(...)` -- the
        encoder -- has RETURNED normally; hence on every path that leaves to_file by an exception raised in or before
        the encoder, no such event has happened and the destination is as it was;
   (E2) the stream handed to the encoder is the anonymous temporary file, not a file opened on the destination;
   (E3) non-vacuity: some path calls the encoder and then opens the destination for writing.
Frame of the encoders (syntactic effect scan over everything reachable from the two to_file class methods inside the
repository): no path-modifying primitive, no open() for writing, every .write() goes to `outstr` (or the message streams
of util).  Callers (tool.writep8/luamin/luafmt/process_game_files, build.do_build) reach the destination only through
file.to_file.  BOUNDED: fault injection at the k-th write of the temporary stream and at each internal failure source.
"""
import ast
import json
import os
import subprocess

from pyvc.report import Check
from pyvc import source, effects, ground

TO_FILE = 'pico8.game.file:to_file'
ENCODERS = ('pico8.game.formatter.p8:P8Formatter.to_file', 'pico8.game.formatter.p8png:P8PNGFormatter.to_file')
CALLERS = ('pico8.tool:writep8', 'pico8.tool:luamin', 'pico8.tool:luafmt', 'pico8.tool:process_game_files', 'pico8.build.build:do_build')
REPO_MODULES = ['pico8.util', 'pico8.game.file', 'pico8.game.game', 'pico8.game.compress', 'pico8.game.formatter.p8',
                'pico8.game.formatter.p8png', 'pico8.game.formatter.base', 'pico8.lua.lua', 'pico8.lua.lexer', 'pico8.lua.parser',
                'pico8.gfx.gfx', 'pico8.gff.gff', 'pico8.map.map', 'pico8.sfx.sfx', 'pico8.music.music', 'pico8.tool', 'pico8.build.build']
STREAM_OK = ('outstr', 'sys.stdout', 'sys.stderr', '_write_stream', '_error_stream', 'util')


def all_functions():
    """{qualified name: ast node} of every function / method defined in the repository modules."""
    out = {}
    for m in REPO_MODULES:
        try:
            tree, src, path = source.mod_ast(m)
        except (FileNotFoundError, OSError):
            continue
        for n in tree.body:
            if isinstance(n, ast.FunctionDef):
                out['%s:%s' % (m, n.name)] = n
            elif isinstance(n, ast.ClassDef):
                for k in n.body:
                    if isinstance(k, ast.FunctionDef):
                        out['%s:%s.%s' % (m, n.name, k.name)] = k
    return out


def reachable(roots, funcs):
    """Over-approximate call graph closure: a call `f(...)` / `mod.f(...)` reaches every repository function named f; a
    call `x.m(...)` reaches every repository method named m; a class name reaches its __init__."""
    by_name = {}
    for q, n in funcs.items():
        by_name.setdefault(q.split(':')[1].split('.')[-1], []).append(q)
        if q.endswith('.__init__'):
            by_name.setdefault(q.split(':')[1].split('.')[0], []).append(q)
    seen, todo = set(), list(roots)
    while todo:
        q = todo.pop()
        if q in seen or q not in funcs:
            continue
        seen.add(q)
        for c in ast.walk(funcs[q]):
            if isinstance(c, ast.Call):
                nm = c.func.id if isinstance(c.func, ast.Name) else (c.func.attr if isinstance(c.func, ast.Attribute) else None)
                for t in by_name.get(nm, ()):
                    if t not in seen:
                        todo.append(t)
    return seen


def scan(quals, funcs, allow_to_file=False):
    """Destructive primitives and stray .write() receivers in the given functions."""
    bad = []
    for q in sorted(quals):
        for c in ast.walk(funcs[q]):
            if not isinstance(c, ast.Call):
                continue
            ev = effects.call_event(c)
            if effects.is_destructive(ev):
                bad.append('%s line %d: %s(%s)' % (q, c.lineno, ev[1], ', '.join(ev[2])))
            if isinstance(c.func, ast.Attribute) and c.func.attr in ('write', 'writelines', 'truncate'):
                recv = ast.unparse(c.func.value)
                ok = recv in STREAM_OK or (recv == 'wr' and ev[2][:1] == ('outstr',))
                if not ok:
                    bad.append('%s line %d: %s.%s(...) writes to something other than the output stream' % (q, c.lineno, recv, c.func.attr))
    return bad


_NATIVE = r'''
import io, json, os, sys, tempfile, shutil
from pico8.game import file as pfile, game
from pico8.lua import lua
import tempfile as _tf
REAL_TF = _tf.TemporaryFile
class Boom(RuntimeError): pass
class FailingStream:
    """wraps the real temporary file; raises at the k-th write"""
    def __init__(self, fh, k, exc): self.fh, self.k, self.n, self.exc = fh, k, 0, exc
    def write(self, b):
        if self.n == self.k: raise self.exc('injected fault at write %d' % self.k)
        self.n += 1
        return self.fh.write(b)
    def __getattr__(self, a): return getattr(self.fh, a)
    def __enter__(self): self.fh.__enter__(); return self
    def __exit__(self, *a): return self.fh.__exit__(*a)
class BadWriter(lua.LuaEchoWriter):
    def to_lines(self):
        yield b'x = 1\n'
        raise Boom('writer failed')
class UnparsableWriter(lua.LuaEchoWriter):
    def to_lines(self):
        yield b'x = = 1 )\n'
work = tempfile.mkdtemp(prefix='c11_')
bad, n = [], 0
def make_game():
    g = game.Game.make_empty_game(filename='x.p8')
    g.lua.update_from_lines([b'x = 1\n', b'print(x)\n'])
    return g
def attempt(desc, ext, exists, fn, source_fails=False):
    # source_fails: the cart cannot be produced (one of the failure sources the statement names) -- the destination has to stay as it
    # was whether or not the failure surfaces as an exception
    global n
    n += 1
    dest = os.path.join(work, 'dest%d%s' % (n, ext))
    before = None
    if exists:
        # a valid cart of the right kind (the .p8.png writer reads the label of an existing destination)
        pfile.to_file(make_game(), dest)
        before = open(dest, 'rb').read()
    try:
        fn(dest)
        failed = False
    except BaseException as e:
        failed = True
    if failed or source_fails:
        after = open(dest, 'rb').read() if os.path.exists(dest) else None
        if after != before:
            bad.append([desc, ext, exists, 'destination %s' % ('was created (%d bytes)' % len(after) if before is None else
                        'changed' if after is not None else 'was removed') + ('' if failed else ' although the call returned normally')])
    return failed
for ext in ('.p8', '.p8.png'):
    for exists in (False, True):
        for exc in (Boom, OSError, ValueError):
            k = 0
            while k < @K@:
                def run(dest, k=k, exc=exc):
                    _tf.TemporaryFile = lambda *a, **kw: FailingStream(REAL_TF(*a, **kw), k, exc)
                    pfile.tempfile.TemporaryFile = _tf.TemporaryFile
                    try:
                        pfile.to_file(make_game(), dest)
                    finally:
                        _tf.TemporaryFile = REAL_TF
                        pfile.tempfile.TemporaryFile = REAL_TF
                if not attempt('fault at stream write %d (%s)' % (k, exc.__name__), ext, exists, run):
                    break          # k beyond the number of writes: the write succeeded
                k += 1
        attempt('Lua writer raises', ext, exists, lambda dest: pfile.to_file(make_game(), dest, lua_writer_cls=BadWriter), True)
        attempt('transformed Lua does not re-parse', ext, exists, lambda dest: pfile.to_file(make_game(), dest, lua_writer_cls=UnparsableWriter),
                ext == '.p8')          # only the .p8 encoder re-parses what it wrote; the .p8.png encoder produces the cart
        def badversion(dest):
            g = make_game(); g.version = 300 if ext == '.p8.png' else object()
            g.gfx = None if ext == '.p8' else g.gfx
            pfile.to_file(g, dest)
        attempt('section / version encoder raises', ext, exists, badversion, True)
# the commands that write over their input: luafmt --overwrite / luamin on carts whose code the parser does not take to its end
from pico8 import tool
import io, contextlib
for code in (b'x = 1\na |= 1\ny = 2\n', b'local a<const> = 1\n', b'x = 1\n?x,y\n', b'x = = 1\n', b'if x then\n'):
    for cmd in (['luafmt', '--overwrite'], ['luafmt'], ['luamin'], ['writep8']):
        n += 1
        src = os.path.join(work, 'cli%d.p8' % n)
        body = b'pico-8 cartridge // http://www.pico-8.com\nversion 8\n__lua__\n' + code + b'__gfx__\n' + (b'0' * 128 + b'\n') * 2
        open(src, 'wb').write(body)
        try:
            with contextlib.redirect_stdout(io.StringIO()), contextlib.redirect_stderr(io.StringIO()):
                tool.main(cmd + [src])
        except BaseException:
            pass
        if not os.path.exists(src) or open(src, 'rb').read() != body:
            bad.append(['p8tool %s on code the parser does not take to its end' % ' '.join(cmd), '.p8', True,
                        'the input cart was %s' % ('changed' if os.path.exists(src) else 'removed')])
shutil.rmtree(work, ignore_errors=True)
print(json.dumps({'n': n, 'bad': bad[:8]}))
'''


def native(K):
    env = {'PYTHONPATH': source.REPO, 'PATH': '/usr/bin:/bin', 'PYTHONDONTWRITEBYTECODE': '1'}
    try:
        r = subprocess.run([source.REAL_PY, '-c', _NATIVE.replace('@K@', str(K))], capture_output=True, text=True, env=env, cwd='/', timeout=600)
    except subprocess.TimeoutExpired:
        return {'timeout': True, 'n': 0, 'bad': []}
    if r.returncode != 0:
        return {'error': r.stderr[-1500:], 'n': 0, 'bad': []}
    return json.loads(r.stdout.strip().splitlines()[-1])


def deductive(chk):
    fn = source.find_function(TO_FILE)
    chk.functions.append({'function': TO_FILE, 'file': 'pico8/game/file.py', 'line': fn.line, 'sha256': fn.sha, 'paths': 0, 'ints': '-'})
    # ---- effect-order contract of file.to_file
    file_args = {}
    for s in fn.node.body:            # `file_args = {'mode': 'wb+'}`: the literal the two opens are called with
        if isinstance(s, ast.Assign) and len(s.targets) == 1 and isinstance(s.targets[0], ast.Name) and isinstance(s.value, ast.Dict):
            try:
                file_args[s.targets[0].id] = ast.literal_eval(s.value)
            except Exception:
                pass

    def resolve(name):
        d = file_args.get(name)
        return d.get('mode', 'r') if isinstance(d, dict) else None
    try:
        outs = effects.Paths().function(fn.node)
    except (NotImplementedError, effects.TooManyPaths) as e:
        chk.undecide('file.to_file left the subset of the effect analysis: %r' % (e,))
        return
    chk.functions[0]['paths'] = len(outs)
    enc_call = [e for _, t in outs for e in t if e[0] == 'call' and e[1].endswith('.to_file')]
    enc_names = sorted({e[1] for e in enc_call})
    e1_bad, e2_bad, reach = [], [], False
    temp_vars = set()
    for node in ast.walk(fn.node):
        if isinstance(node, ast.With):
            for it in node.items:
                if isinstance(it.context_expr, ast.Call) and ast.unparse(it.context_expr.func) in ('tempfile.TemporaryFile', 'tempfile.SpooledTemporaryFile', 'io.BytesIO') \
                        and it.optional_vars is not None:
                    temp_vars.add(ast.unparse(it.optional_vars))
    for kind, t in outs:
        returned = False
        for e in t:
            if e[0] == 'ret' and e[1].endswith('.to_file'):
                returned = True
            if e[0] == 'call' and e[1].endswith('.to_file'):
                stream = e[2][1] if len(e[2]) > 1 else dict(e[3]).get('outstr')
                if stream not in temp_vars:
                    e2_bad.append('encoder called with stream %r' % (stream,))
            if effects.is_destructive(e, resolve):
                if not returned:
                    e1_bad.append('%s(%s) on a path where the encoder has not returned (path ends with %s)' % (e[1], ', '.join(e[2]), kind))
                else:
                    reach = True
    ground.account(chk, [
        ('PATHS:file.to_file/(E1) on all %d control paths (every call may raise) a file is created, truncated, removed or renamed only after '
         'the encoder returned normally' % len(outs), not e1_bad, str(sorted(set(e1_bad))[:3])),
        ('PATHS:file.to_file/(E2) the encoder writes into the anonymous temporary file', bool(enc_call) and not e2_bad, str(e2_bad[:2])),
        ('PATHS:file.to_file/(E3) non-vacuity: some path runs the encoder (%s) and then opens the destination for writing' % ', '.join(enc_names),
         reach and bool(enc_call), '')], 'PATHS')
    # ---- frame of the encoders and of everything they reach
    funcs = all_functions()
    missing = [q for q in ENCODERS + CALLERS if q not in funcs]
    if missing:
        chk.undecide('functions not found: %s' % missing)
        return
    reach_set = reachable(ENCODERS, funcs) - {TO_FILE}
    bad = scan(reach_set, funcs)
    ground.account(chk, [('SCAN:encoders/the %d repository functions reachable from P8Formatter.to_file and P8PNGFormatter.to_file contain no '
                          'path-modifying primitive, no open() for writing, and write only to outstr / the message streams' % len(reach_set),
                          not bad, str(bad[:4]))], 'SCAN')
    cbad = scan(CALLERS, funcs)
    through = [q for q in ('pico8.tool:writep8', 'pico8.tool:luamin', 'pico8.tool:luafmt', 'pico8.build.build:do_build')
               if 'file.to_file(' not in ast.unparse(funcs[q])]
    ground.account(chk, [('SCAN:callers/writep8, luamin, luafmt, process_game_files and do_build contain no path-modifying primitive and reach '
                          'the destination only through file.to_file', not cbad and not through, str((cbad + through)[:4]))], 'SCAN')
    chk.extra['reachable_from_encoders'] = sorted(reach_set)[:80]


def run(tier, seed):
    chk = Check('C11', 'proof', tier, seed)
    deductive(chk)
    # ---- bounded native fault injection (also the replay of a failed obligation)
    nat = native(400 if tier == 'thorough' else 60)
    if nat.get('timeout') or nat.get('error'):
        chk.undecide('BOUNDED:c11/native fault injection did not run: %s' % (nat.get('error') or 'timeout'))
    chk.bounded = {'rule': 'BOUNDED: fault injected at the k-th write of the temporary stream (k = 0.. up to the number of writes, three '
                           'exception types), failing Lua writer, unparsable transformed Lua, failing section/version encoder; x {.p8, '
                           '.p8.png} x {destination exists, does not exist}; destination bytes compared before/after',
                   'evaluations': nat.get('n', 0), 'failures': len(nat.get('bad', []))}
    chk.native_witness = nat.get('bad')
    for v in chk.violations:
        if nat.get('bad'):
            p = json.load(open(v['replay']))
            p['native_witness'] = nat['bad'][:3]
            json.dump(p, open(v['replay'], 'w'), indent=1)
            v['confirmed'] = True
        else:
            v['confirmed'] = False
    if nat.get('bad') and not chk.violations:
        chk.violation('BOUNDED:c11/native fault injection', {'witness': nat['bad']}, True)
    chk.trust('effect-path enumeration over the real ast (pyvc/effects.py): path-insensitive, every call may raise, loops 0/1/2 times')
    chk.assume('OS semantics: an anonymous temporary file is not the destination; opening a file in mode r/rb and os.path.exists do not modify it')
    chk.assume('a failure of the final copy itself (open / write of the destination after the encoder returned) is outside the statement')
    chk.assume('call-graph closure by name (a call x.m() reaches every repository method named m); pypng writes only to the stream it is given')
    return chk.finish()
