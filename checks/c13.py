"""C13: build takes each cart section from exactly the source the arguments name."""
import json
import subprocess

from pyvc.report import Check
from bounded import clinative
from pyvc import units, source
from contracts import buildsel

_NATIVE = r'''
import itertools, json, os, random, shutil, tempfile
from pico8.game import file as pfile, game
from pico8.build import build
from pico8 import util
util.set_verbosity(util.VERBOSITY_QUIET)
work = os.path.realpath(tempfile.mkdtemp(prefix='c13_'))
rnd = random.Random(@SEED@)
SECS = ('lua', 'gfx', 'gff', 'map', 'sfx', 'music')
def rand_game(tag):
    g = game.Game.make_empty_game(filename='x.p8')
    g.lua.update_from_lines([b'-- ' + tag.encode() + b'\n', b'x_' + tag.encode() + b' = %d\n' % rnd.randint(0, 999)])
    for s in SECS[1:]:
        d = getattr(g, s)._data
        for i in range(len(d)): d[i] = rnd.randint(0, 255)
        if s == 'music':
            for i in range(3, len(d), 4): d[i] &= 0x7f
    for i in range(len(g.label._data)): g.label._data[i] = rnd.randint(0, 255)
    return g
def sec_bytes(g, s):
    return b''.join(g.lua.to_lines()) if s == 'lua' else bytes(getattr(g, s)._data)
SRC = {}
for kind, ext in (('p8', '.p8'), ('png', '.p8.png')):
    for s in SECS:
        p = os.path.join(work, 'src_%s_%s%s' % (s, kind, ext))
        pfile.to_file(rand_game(s + kind), p)
        SRC[(s, kind)] = p
open(os.path.join(work, 'main.lua'), 'wb').write(b'-- main lua\nmainvar = 7\n')
class A: pass
def mkargs(out, assign):
    a = A(); a.filename = out; a.lua_path = None; a.lua_format = False; a.lua_minify = False; a.optimize_tokens = False
    for s in SECS:
        setattr(a, s, None); setattr(a, 'empty_' + s, False)
        v = assign.get(s)
        if v == 'empty': setattr(a, 'empty_' + s, True)
        elif v in ('p8', 'png'): setattr(a, s, SRC[(s, v)])
        elif v == 'luafile': setattr(a, s, os.path.join(work, 'main.lua'))
    return a
empty = game.Game.make_empty_game(filename='e.p8')
bad, n = [], 0
def one(assign, out_kind, out_ext):
    global n
    n += 1
    out = os.path.join(work, 'out%d%s' % (n, out_ext))
    prev = None
    if out_kind != 'absent':
        prev_g = rand_game('prev')
        pfile.to_file(prev_g, out)
        prev = pfile.from_file(out)
    rc = build.do_build(mkargs(out, assign))
    if rc != 0:
        bad.append([json.dumps(assign), out_kind + out_ext, 'build failed rc=%r' % rc]); return
    got = pfile.from_file(out)
    for s in SECS:
        v = assign.get(s)
        if v in ('p8', 'png'): want = sec_bytes(pfile.from_file(SRC[(s, v)]), s)
        elif v == 'luafile': want = None
        elif v == 'empty': want = sec_bytes(empty, s)
        else: want = sec_bytes(prev, s) if prev is not None else sec_bytes(empty, s)
        have = sec_bytes(got, s)
        if s == 'lua' and want is not None: want, have = want.rstrip(b'\n'), have.rstrip(b'\n')
        if want is not None and have != want:
            if len(bad) < 8: bad.append([json.dumps(assign), out_kind + out_ext, 'section %s is not the prescribed one' % s])
    if out_ext == '.p8' and prev is not None and bytes(got.label._data) != bytes(prev.label._data):
        if len(bad) < 8: bad.append([json.dumps(assign), out_kind + out_ext, 'label section of the existing .p8 OUT was not kept'])
choices = [None, 'p8', 'png', 'empty']
combos = []
for s in SECS:                       # one section at a time, every choice
    for c in choices[1:]:
        combos.append({s: c})
combos.append({}); combos.append({s: 'empty' for s in SECS}); combos.append({s: 'p8' for s in SECS}); combos.append({s: 'png' for s in SECS})
combos.append({'lua': 'luafile'}); combos.append({'lua': 'luafile', 'gfx': 'png', 'sfx': 'empty'})
for _ in range(@R@):
    combos.append({s: rnd.choice(choices) for s in SECS})
for assign in combos:
    for out_kind, out_ext in (('absent', '.p8'), ('exists', '.p8'), ('absent', '.p8.png'), ('exists', '.p8.png')):
        try:
            one(assign, out_kind, out_ext)
        except Exception as e:
            if len(bad) < 8: bad.append([json.dumps(assign), out_kind + out_ext, 'raised %s: %s' % (type(e).__name__, e)])
# failing argument sets leave OUT untouched: the unusable argument on each section in turn, alone and together with a good source on
# an earlier / a later section
open(os.path.join(work, 'notes.txt'), 'wb').write(b'not a cart\n')
for bi, bsec in enumerate(SECS):
    for desc, mut in (('both --%s and --empty-%s' % (bsec, bsec), lambda a: setattr(a, 'empty_' + bsec, True)),
                      ('missing source file for --%s' % bsec, lambda a: setattr(a, bsec, os.path.join(work, 'nope.p8'))),
                      ('wrong extension for --%s' % bsec, lambda a: setattr(a, bsec, os.path.join(work, 'notes.txt')))):
        others = [{}] + ([{SECS[bi - 1]: 'p8'}] if bi > 0 else []) + ([{SECS[bi + 1]: 'png'}] if bi + 1 < len(SECS) else []) + \
                 ([{SECS[0]: 'png', SECS[-1]: 'p8'}] if 0 < bi < len(SECS) - 1 else [])
        for other in others:
            for exists in (False, True):
                n += 1
                out = os.path.join(work, 'err%d.p8' % n)
                before = None
                if exists:
                    pfile.to_file(rand_game('prev'), out); before = open(out, 'rb').read()
                assign = dict(other); assign[bsec] = 'p8'
                a = mkargs(out, assign); mut(a)
                try: rc = build.do_build(a)
                except Exception as e: rc = 'exc'
                after = open(out, 'rb').read() if os.path.exists(out) else None
                if rc == 0 or after != before:
                    if len(bad) < 8: bad.append([desc + ' with ' + json.dumps(other), 'exists=%s' % exists, 'rc=%r, OUT %s' % (rc, 'changed' if after != before else 'unchanged')])
shutil.rmtree(work, ignore_errors=True)
print(json.dumps({'n': n, 'bad': bad[:8]}))
'''


def native(seed, reps):
    env = {'PYTHONPATH': source.REPO, 'PATH': '/usr/bin:/bin', 'PYTHONDONTWRITEBYTECODE': '1', 'HOME': '/nonexistent'}
    try:
        r = subprocess.run([source.REAL_PY, '-c', _NATIVE.replace('@SEED@', str(seed)).replace('@R@', str(reps))], capture_output=True,
                           text=True, env=env, cwd='/', timeout=900)
    except subprocess.TimeoutExpired:
        return {'timeout': True, 'n': 0, 'bad': []}
    if r.returncode != 0:
        return {'error': r.stderr[-1500:], 'n': 0, 'bad': []}
    return json.loads(r.stdout)


def run(tier, seed):
    chk = Check('C13', 'proof', tier, seed)
    reg = {c.target: c for c in buildsel.CONTRACTS}
    units.run_contracts(chk, buildsel.CONTRACTS, reg, tier, seed, conformance_paths=0)
    nat = native(seed, 60 if tier == 'thorough' else 8)
    if nat.get('timeout') or nat.get('error'):
        chk.undecide('BOUNDED:c13/native build run did not finish: %s' % (nat.get('error') or 'timeout'))
    for v in chk.violations:
        if not v['confirmed'] and nat.get('bad'):
            p = json.load(open(v['replay']))
            p['native_witness'] = nat['bad'][:3]
            p['solver'] = 'z3 counter-model over abstract carts; concrete failing build from the bounded native run'
            json.dump(p, open(v['replay'], 'w'), indent=1, default=str)
            v['confirmed'] = True
    chk.bounded = {'rule': 'BOUNDED: real do_build on single-section and random assignments of {unspecified, .p8 source, .p8.png source, empty} '
                           '(+ --lua main.lua) x {OUT absent, OUT existing} x {.p8, .p8.png}, random contents in every source; OUT read back and '
                           'each section (and the .p8 label) compared; failing argument sets must leave OUT untouched',
                   'evaluations': nat.get('n', 0), 'failures': len(nat.get('bad', []))}
    if nat.get('bad') and not chk.violations:
        chk.violation('BOUNDED:c13/native build differs from the prescription', {'witness': nat['bad'][:4]}, True)
    clinative.fold(chk, 'build')
    chk.trust('pyvc symbolic executor (real do_build, loop over the six sections unrolled exactly, state merging) + z3')
    chk.assume('carts are abstract: file.from_file(f) is a Game whose section X is SEC(f, X) and whose label is LABEL(f); make_empty_game '
               'gives EMPTY(X); file names are abstract values with uninterpreted exists / endswith predicates (suffix exclusivity axiom)')
    chk.assume('--lua main.lua: the built code is an abstract function of the file (C14); _evaluate_require may raise LuaBuildError')
    chk.assume('file.to_file writes what it is given to the named file (C03 / C04 / C11); a .p8.png OUT keeps its label image through '
               'file.to_file\'s label_fname logic (C04)')
    return chk.finish()
