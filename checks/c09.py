"""C09: luafmt changes only whitespace, works on every valid program, never drops code.

Partly within reach of contracts (level `other`):
  PROVED  the cursor helper _get_code_for_spaces (base class): consumes exactly the maximal run of trivia tokens at the
          cursor, bounded by the node's end / the end of the list, and returns their codes (loop invariant, termination);
          no silent loss: the region at the head of LuaASTEchoWriter.to_lines (inherited by luafmt and every other
          tree-driven writer) raises ParserError iff a non-trivia token lies at or after the point where the parser
          stopped -- for every token list and every stopping point;
          emission discipline of all _walk_* handlers (every yield is a cursor-helper result, an item of a nested walk, or a
          token's own code with a cursor step): the writer cannot invent or drop token text without losing lock-step.
  BOUNDED reference-grammar programs x 6 layouts x indent widths through the real formatter: succeeds, tokens and comments
          identical (reference tokenizer), output parses to the same tree (line-scoped constructs keep their extent), token
          count unchanged; lexable-but-unparsed inputs: every tree-driven writer raises or keeps all tokens.
"""
import json
import os
import subprocess

from pyvc.report import Check
from pyvc import units, ground, source
from pyvc.values import SymErr
from pyvc.solve import solve_all
from contracts import astwriter
from bounded import astnative, trivianative, clinative

_UNPARSED = r'''
import sys, json
sys.path.insert(0, @VERIF@)
from specs import reflex
from pico8.lua import lexer, lua
SYMS = sorted({p.pattern.replace(b'\\', b'') for p, c in lexer._TOKEN_MATCHERS if c is lexer.TokSymbol} | {b'\\'}, key=len, reverse=True)
def sig(src):
    return [(k, t.strip() if k == 'comment' else t) for k, t, l, c, v in reflex.tokenize(src, SYMS) if k not in ('space', 'newline')]
base = [b'x = 1\n', b'function f(a)\n return a\nend\n', b'if (a) b = 1\n', b'for i = 1, 2 do\n x = i\nend\n', b't = {1, 2}\n', b'y = 3\n']
extra = [b'a |= 1\n', b'?x,y\n', b'x = = 2\n', b'end\n', b') y = 1\n', b'local = 3\n', b'x = (1\n', b'until a\n', b'b ~= 2\n', b'#include foo.lua\n', b'a=b=c\n']
bad, n = [], 0
for i in range(len(base) + 1):
    for e in extra:
        src = b''.join(base[:i]) + e + b''.join(base[i:])
        try:
            l = lua.Lua.from_lines([src], version=8)
        except Exception:
            continue              # rejected by the lexer or parser: fine
        for w in (lua.LuaFormatterWriter, lua.LuaASTEchoWriter, lua.LuaMinifyWriter):
            n += 1
            try:
                out = b''.join(l.to_lines(writer_cls=w, writer_args={'indentwidth': 2}))
            except Exception:
                continue          # fails with an error: what the property asks for
            try:
                a, b = sig(src), sig(out)
            except reflex.Outside:
                continue
            if w is lua.LuaMinifyWriter:
                a = [x for x in a if x[0] != 'comment']; b = [x for x in b if x[0] != 'comment']
                if len(a) != len(b) and len(bad) < 6: bad.append([src.decode('latin1'), w.__name__, 'wrote %d of %d tokens: %r' % (len(b), len(a), out[:120])])
            elif a != b and len(bad) < 6:
                bad.append([src.decode('latin1'), w.__name__, 'wrote a shortened / different program: %r' % out[:160]])
print(json.dumps({'n': n, 'bad': bad}))
'''


def unparsed(verif):
    env = {'PYTHONPATH': source.REPO, 'PATH': '/usr/bin:/bin', 'PYTHONDONTWRITEBYTECODE': '1'}
    try:
        r = subprocess.run([source.REAL_PY, '-c', _UNPARSED.replace('@VERIF@', repr(verif))], capture_output=True, text=True, env=env, cwd='/', timeout=600)
    except subprocess.TimeoutExpired:
        return {'timeout': True}
    if r.returncode != 0:
        return {'error': r.stderr[-1500:]}
    return json.loads(r.stdout)


def run(tier, seed):
    chk = Check('C09', 'other', tier, seed)
    reg = {c.target: c for c in astwriter.CONTRACTS}
    units.run_contracts(chk, astwriter.CONTRACTS, reg, tier, seed, conformance_paths=0)
    try:
        obls, ax, fn, ok_exc, before = astwriter.no_silent_loss_obligations()
        chk.functions.append({'function': fn.qual + '[end-of-input check]', 'file': 'pico8/lua/lua.py', 'line': fn.line, 'sha256': fn.sha, 'ints': 'lia'})
        solve_all(obls, ax)
        for ob in obls:
            chk.count(ob.backend or 'z3', ob.status, ob.secs, ob.name)
            if ob.status == 'failed':
                chk.violation(ob.name, {'function': fn.qual, 'solver_model': str(ob.model)[:1500]}, False)
            elif ob.status != 'discharged':
                chk.undecide(ob.name)
        ground.account(chk, [('SHAPE:no-silent-loss/the check runs before anything is yielded and raises ParserError', ok_exc and before == ['self._pos = 0'], str(before))], 'SHAPE')
    except SymErr as e:
        # the check is missing or changed shape (on the pinned, unfixed tree there was none at all): a structural failure -- a
        # violation only together with a natively observed silent loss (the run on unparsed inputs below), otherwise undecided
        ground.account(chk, [('SHAPE:no-silent-loss/to_lines checks that the parser consumed every non-trivia token before writing', False,
                              'region not found or outside the subset: %s' % e)], 'SHAPE')
    ground.account(chk, astwriter.emission_obligations(), 'SCAN')
    verif = os.path.dirname(os.path.dirname(os.path.abspath(__file__)))
    un = unparsed(verif)
    big = tier == 'thorough'
    nat = astnative.run('fmt', seed, 1500 if big else 150, depth=3, widths=tuple(range(9)) if big else (0, 2, 5))
    for d, what in ((un, 'unparsed inputs'), (nat, 'grammar run')):
        if d.get('timeout') or d.get('error'):
            chk.undecide('BOUNDED:c09/%s did not finish: %s' % (what, d.get('error') or 'timeout'))
    tri = trivianative.run(4 if big else 3, tuple(range(9)) if big else (0, 2, 5))
    if tri.get('timeout') or tri.get('error'):
        chk.undecide('BOUNDED:c09/trivia-run enumeration did not finish: %s' % (tri.get('error') or 'timeout'))
        tri = {}
    nbad = (un.get('bad') or []) + (nat.get('bad') or []) + (tri.get('bad9') or [])
    chk.bounded = {'rule': 'BOUNDED: %d reference-grammar programs x 6 layouts x indent widths %s through LuaFormatterWriter: succeeds; tokens and '
                           'comments identical under the reference tokenizer; output parses to the same tree; token count unchanged. Plus %d '
                           'runs of the three tree-driven writers on lexable-but-unparsed inputs (a stray token / newer syntax inserted at every '
                           'statement position): must raise or keep every token.  Plus EXHAUSTIVE: all %d trivia runs of up to %d symbols (blank, tab, LF, CRLF, '
                           'comment lines) at the start, between statements (depth 0 and 2) and at the end of the code, degenerate endings included: '
                           'luafmt succeeds and keeps tokens and comments'
                           % (nat.get('programs', 0), 'all 0-8' if big else '{0,2,5}', un.get('n', 0), tri.get('runs', 0), tri.get('n', 0)),
                   'evaluations': nat.get('runs', 0) + un.get('n', 0) + tri.get('evaluations', 0), 'failures': len(nbad)}
    if chk.bounded and nat.get('corpus'):
        chk.bounded['rule'] += '.  Plus %d runs over the hand-written corpus specs/luacorpus.py (shapes random generation reaches only by luck)' % nat['corpus']
    chk.native_witness = nbad
    if nbad:
        for v in chk.violations:
            if not v['confirmed']:
                p = json.load(open(v['replay']))
                p['native_witness'] = nbad[:2]
                json.dump(p, open(v['replay'], 'w'), indent=1, default=str)
                v['confirmed'] = True
        if not chk.violations:
            chk.violation('BOUNDED:c09/luafmt changed, dropped or failed on code', {'witness': nbad[:4]}, True)
    clinative.fold(chk, 'luafmt')
    chk.trust('pyvc VC generator + z3 (cursor helper, end-of-input region); syntactic scan of the handlers; reference grammar / tokenizer (bounded)')
    chk.assume('tokens are abstract values with uninterpreted trivia predicates; token codes are opaque')
    chk.assume('Token.matches is an uninterpreted relation between a token and a pattern; a trivia token does not match the symbol pattern ";" '
               '(Token.matches compares classes) -- precondition of the _get_semis contract')
    chk.assume('_get_semis: the list of byte strings that is only appended to and finally joined is represented by its concatenation '
               '(join(l + [x]) == join(l) + x); _get_text / _get_name: the precondition "the first non-trivia token at the cursor exists and '
               'matches" is what the handlers supply (each asks for the token its node was parsed with) -- that correspondence is the '
               'parser-side C08 obligations plus the bounded runs, not a discharged obligation')
    chk.assume('LuaFormatterWriter._get_code_for_spaces: re.sub results are arbitrary byte strings (only the cursor movement is under contract)')
    chk.assume('formatter success on every valid program and token identity of the whole output need an induction over grammar derivations that is '
               'not attempted: that part is the bounded enumeration (never counted as proved)')
    return chk.finish(explanation='partial proof (cursor helper contract, no-silent-loss region, emission discipline) + bounded enumeration of '
                                  'reference-grammar programs and of unparsed inputs')
