"""C08: the parser consumes every valid program entirely and builds the tree it denotes.

Partly within reach of contracts (level `other`):
  PROVED  Parser._accept against its specification (skips only non-matching trivia, returns the first candidate iff it
          matches and lies before the short-if fence, else restores the cursor; terminates) -- every other parser
          function moves the cursor only through it;
          the short-if fence computed in Parser._stat is the first newline token at or after the condition (or the end of
          the code), installed for the body and always removed (try / finally).
          cursor hygiene of every parser function on all control paths (given the _accept contract, inductively): a function
          that returns None has restored the cursor -- except _var / _varlist, whose only callers restore it -- and every node is
          built with start = a position saved from the cursor and end = the cursor.
  BOUNDED completeness and tree adequacy: programs generated from an independent reference grammar
          (specs/luagrammar.py) with the tree each denotes, in six layouts, through the real lexer and parser: accepted,
          consumed to the last token, tree == derivation (operators / operands in source order), short-if extents.
"""
import ast

from pyvc.report import Check
from pyvc import units, ground, source
from pyvc.values import SymErr
from pyvc.solve import solve_all
from contracts import parsercur
from bounded import astnative

PARSER = 'pico8.lua.parser:Parser'


def shapes():
    res = []
    cls = [n for n in source.mod_ast('pico8.lua.parser')[0].body if isinstance(n, ast.ClassDef) and n.name == 'Parser'][0]
    # the cursor is written only by _accept, by restoring a saved position, and by process_tokens
    writers = {}
    for f in cls.body:
        if not isinstance(f, ast.FunctionDef):
            continue
        for n in ast.walk(f):
            tgt = None
            if isinstance(n, ast.Assign) and any(ast.unparse(t) == 'self._pos' for t in n.targets):
                tgt = ast.unparse(n.value)
            if isinstance(n, ast.AugAssign) and ast.unparse(n.target) == 'self._pos':
                tgt = 'AUG ' + ast.unparse(n.value)
            if tgt is not None:
                writers.setdefault(f.name, set()).add(tgt)
    bad = {k: sorted(v) for k, v in writers.items()
           if k not in ('_accept', 'process_tokens', '__init__') and not v <= {'pos', 'then_pos', 'for_pos', 'last_pos'}}
    res.append(('SHAPE:parser/outside _accept the cursor is only ever RESTORED to a position saved earlier in the same function '
                '(pos / then_pos / for_pos / last_pos); it advances through _accept alone', not bad, str(bad)))
    pt = ast.unparse(source.find_function(PARSER + '.process_tokens').node)
    ok = "self._tokens = list(tokens)" in pt and 'self._pos = 0' in pt and "self._ast = self._assert(self._chunk(), 'input to be a program')" in pt
    res.append(('SHAPE:parser/process_tokens parses one chunk from position 0 of the token list', ok, ''))
    ex = ast.unparse(source.find_function(PARSER + '._expect').node)
    ok = 'tok = self._accept(tok_pattern)' in ex and 'if tok is not None:\n        return tok' in ex and 'raise ParserError(' in ex
    res.append(('SHAPE:parser/_expect is _accept or ParserError; _assert raises exactly for None', ok and
                'if node_or_none is not None:\n        return node_or_none' in ast.unparse(source.find_function(PARSER + '._assert').node), ''))
    st = ast.unparse(source.find_function(PARSER + '._stat').node)
    ok = "self._accept(lexer.TokKeyword(b'then')) is None and self._accept(lexer.TokKeyword(b'do')) is None and (self._tokens[exp._end_token_pos - 1] == lexer.TokSymbol(b')'))" in st.replace('\n', ' ').replace('  ', ' ') or \
        ("self._accept(lexer.TokKeyword(b'then')) is None" in st and "self._tokens[exp._end_token_pos - 1] == lexer.TokSymbol(b')')" in st)
    res.append(('SHAPE:parser/the short form is taken when neither `then` nor `do` follows a condition that ends in ")"', ok, ''))
    return res


def run(tier, seed):
    chk = Check('C08', 'other', tier, seed)
    reg = {c.target: c for c in parsercur.CONTRACTS}
    units.run_contracts(chk, parsercur.CONTRACTS, reg, tier, seed, conformance_paths=0)
    try:
        obls, ax, fn, shape_ok = parsercur.shortif_fence_obligations()
        chk.functions.append({'function': fn.qual + '[short-if fence region]', 'file': 'pico8/lua/parser.py', 'line': fn.line, 'sha256': fn.sha, 'ints': 'lia'})
        solve_all(obls, ax)
        for ob in obls:
            chk.count(ob.backend or 'z3', ob.status, ob.secs, ob.name)
            if ob.status == 'failed':
                chk.violation(ob.name, {'function': fn.qual, 'solver_model': str(ob.model)[:1500],
                                        'solver': 'z3 counter-model over abstract tokens; concrete program from the bounded grammar run'}, False)
            elif ob.status != 'discharged':
                chk.undecide(ob.name)
        ground.account(chk, [('SHAPE:parser/the fence is installed (self._max_pos = then_end_pos) for the short-if body and removed in a finally clause', shape_ok, '')], 'SHAPE')
    except SymErr as e:
        chk.undecide('Parser._stat left the supported subset: %s' % e)
    ground.account(chk, shapes(), 'SHAPE')
    try:
        from contracts import parserpaths
        from pyvc import effects
        hres, dirty = parserpaths.hygiene()
        ground.account(chk, hres, 'PATHS')
        chk.extra['parser_functions_that_rely_on_their_caller_to_restore_the_cursor'] = dirty
    except (NotImplementedError, effects.TooManyPaths) as e:
        chk.undecide('a parser function left the subset of the path analysis: %r' % (e,))
    big = tier == 'thorough'
    nat = astnative.run('parse', seed, 6000 if big else 700, depth=4 if big else 3)
    if nat.get('timeout') or nat.get('error'):
        chk.undecide('BOUNDED:c08/grammar run did not finish: %s' % (nat.get('error') or 'timeout'))
    else:
        chk.bounded = {'rule': 'BOUNDED: %d programs generated from the reference grammar (every statement kind first / middle / last in a block and '
                               'inside every block-bearing statement, then random programs to expression depth %d) x 6 layouts (one statement per line, '
                               'one line, one token per line, comments between tokens, semicolons, no final newline): accepted, consumed to the last '
                               'token, tree == derivation, short-if extents' % (nat['programs'], 4 if big else 3),
                       'evaluations': nat['runs'], 'failures': len(nat['bad'])}
        if nat['bad']:
            for v in chk.violations:
                if not v['confirmed']:
                    import json
                    p = json.load(open(v['replay']))
                    p['native_witness'] = nat['bad'][:2]
                    json.dump(p, open(v['replay'], 'w'), indent=1, default=str)
                    v['confirmed'] = True
            if not chk.violations:
                chk.violation('BOUNDED:c08/the parser disagrees with the reference grammar', {'witness': nat['bad'][:4]}, True)
    if chk.bounded and nat.get('corpus'):
        chk.bounded['rule'] += '.  Plus %d runs over the hand-written corpus specs/luacorpus.py (shapes random generation reaches only by luck)' % nat['corpus']
    chk.native_witness = nat.get('bad')
    chk.trust('pyvc VC generator + z3 for the cursor primitive and the fence region; reference grammar specs/luagrammar.py (bounded part)')
    chk.assume('tokens are abstract values; `tok.matches(pattern)` and the three trivia classes are uninterpreted predicates of the token')
    chk.assume('dialect decisions: a short-if inside a short-if is outside the dialect; `?x,y` is outside the dialect; parentheses are not part '
               'of the tree (operators and operands are compared in source order)')
    return chk.finish(explanation='partial proof (cursor primitive _accept and short-if fence region: pyvc VCs discharged by z3) + bounded enumeration '
                                  'of reference-grammar programs for completeness and tree adequacy (never counted as proved)')
