"""C18: raw cart-memory writes land at the addressed bytes and only there."""
from pyvc.report import Check
from pyvc import units


def run(tier, seed):
    chk = Check('C18', 'proof', tier, seed)
    reg = units.registry()
    units.run_contracts(chk, [reg['pico8.game.game:Game.write_cart_data']], reg, tier, seed)
    units.replay_known(chk, reg)
    chk.trust('pyvc symbolic executor (ast of the real source -> z3); functional-sequence semantics of '
              'bytes/bytearray slicing and slice assignment, cross-checked against CPython on a model of every path')
    chk.trust('z3 4.x (python wheel 5.1.0) as the deciding solver; cvc5 only for z3 unknowns')
    chk.assume('the five region buffers are distinct bytearray objects of the PICO-8 region sizes (holds for '
               'every Game built by make_empty_game / the formatters)')
    chk.assume('python ints are mathematical integers (ints="lia"; exact, no machine arithmetic)')
    chk.assume('sequences of writes: the contract is a total function on states, so the postcondition of one '
               'write is the precondition of the next')
    return chk.finish()
