"""C16: on-disk encodings match the PICO-8 cart formats, not merely each other."""
from pyvc.report import Check
from pyvc import units, ground, specsanity
from contracts import p8text, p8png, sections


def run(tier, seed):
    chk = Check('C16', 'proof', tier, seed)
    reg = units.registry()
    # oracle first: the format specs must reproduce what PICO-8 itself wrote (tests/testdata)
    ground.account(chk, specsanity.run(), 'GROUND(spec-sanity)')
    ground.account(chk, ground.builtin_models())
    cs = list(p8text.CONTRACTS) + list(p8png.CONTRACTS)
    # the note/property accessors the sfx codec is built on (their contracts are used modularly above)
    cs += [reg[t] for t in ('pico8.sfx.sfx:Sfx.get_note', 'pico8.sfx.sfx:Sfx.set_note',
                            'pico8.sfx.sfx:Sfx.get_properties', 'pico8.sfx.sfx:Sfx.set_properties')]
    units.run_contracts(chk, cs, reg, tier, seed)
    units.replay_known(chk, reg)
    chk.trust('pyvc VC generator + z3; format specs /verif/specs/p8spec.py (written from the PICO-8 format '
              'description, validated on every run against the carts PICO-8 saved as both .p8 and .p8.png)')
    chk.trust('typed models of builtins (format(b,"02x"), int(s,16), bytes.fromhex, rstrip, str(b,"ascii")) -- '
              'cross-checked against CPython over their whole finite domain on every run (GROUND)')
    chk.assume('in-format input rows for the readers: the right number of hex digits (either case) per row, newline '
               'terminated; sfx digits within pitch 00-3f / volume 0-7 / effect 0-7, music flags 00-07 and channel '
               'bytes 00-7f, at most 64 sfx rows; rows of a wrong length are skipped by the code and are outside the format')
    chk.assume('cart images are 160x205 RGBA8 (the geometry of every PICO-8 cart); other geometries are not covered')
    chk.assume('ints="bv" exact under discharged no-wrap obligations (Sfx.from_lines: mathematical integers)')
    chk.assume('not under contract here: Map.from_lines / Map.from_bytes (keyword plumbing around BaseSection), the '
               'memory slicing inside get_raw_data_from_p8png_file and the join in P8PNGFormatter.to_file (see C04)')
    return chk.finish()
