"""C16: on-disk encodings match the PICO-8 cart formats, not merely each other."""
import json
import os
import subprocess

from pyvc.report import Check
from pyvc import units, ground, specsanity, source
from contracts import p8text, p8png, sections
from checks import c04

VERIF = os.path.dirname(os.path.dirname(os.path.abspath(__file__)))

# BOUNDED (never counted as proved): whole files.  (a) the carts PICO-8 itself saved both as .p8 and as .p8.png (tests/testdata) load,
# through the real loaders, to identical data regions; (b) carts with distinct random regions written by the real .p8.png writer, read
# by the reference PNG decoder + steganographic unpack, must show the PICO-8 memory map: gfx, map, gff, music, sfx, code, version.
_NATIVE = r'''
import json, os, random, shutil, sys, tempfile
sys.path.insert(0, @VERIF@)
from specs.pngref import png_decode, mem_from_pixels
from pico8.game import file as pfile, game
from pico8 import util
util.set_verbosity(util.VERBOSITY_QUIET)
bad, n = [], 0
td = os.path.join(@REPO@, 'tests', 'testdata')
for f in sorted(os.listdir(td)):
    if f.endswith('.p8') and os.path.exists(os.path.join(td, f + '.png')):
        n += 1
        a, b = pfile.from_file(os.path.join(td, f)), pfile.from_file(os.path.join(td, f + '.png'))
        for s in ('gfx', 'gff', 'map', 'sfx', 'music'):
            if bytes(getattr(a, s)._data) != bytes(getattr(b, s)._data):
                bad.append([f, 'region %s differs between the .p8 and the .p8.png PICO-8 saved' % s])
rnd = random.Random(@SEED@)
work = tempfile.mkdtemp(prefix='c16_')
MAP = [('gfx', 0x0000, 0x2000), ('map', 0x2000, 0x3000), ('gff', 0x3000, 0x3100), ('music', 0x3100, 0x3200), ('sfx', 0x3200, 0x4300)]
for k in range(@N@):
    n += 1
    g = game.Game.make_empty_game(filename='x.p8')
    g.lua.update_from_lines([b'x=%d\n' % k])
    for s, lo, hi in MAP:
        d = getattr(g, s)._data
        for i in range(len(d)): d[i] = rnd.randint(0, 255) if k else (MAP.index((s, lo, hi)) * 40 + i) & 255
    g.version = rnd.choice([5, 8, 16, 41])
    dest = os.path.join(work, 'c%d.p8.png' % k)
    pfile.to_file(g, dest)
    w, h, rows = png_decode(open(dest, 'rb').read())
    mem = mem_from_pixels(w, h, rows)
    if (w, h) != (160, 205): bad.append(['cart %d' % k, 'image is %dx%d' % (w, h)])
    for s, lo, hi in MAP:
        if bytes(mem[lo:hi]) != bytes(getattr(g, s)._data): bad.append(['cart %d' % k, 'memory 0x%04x-0x%04x of the written image is not the %s region' % (lo, hi, s)])
    if mem[0x8000] != g.version: bad.append(['cart %d' % k, 'byte 0x8000 is %d, version %d' % (mem[0x8000], g.version)])
    g2 = pfile.from_file(dest)
    for s, lo, hi in MAP:
        if bytes(getattr(g2, s)._data) != bytes(getattr(g, s)._data): bad.append(['cart %d' % k, 'region %s read back differently' % s])
shutil.rmtree(work, ignore_errors=True)
print(json.dumps({'n': n, 'bad': bad[:8]}))
'''


def native(seed, n):
    env = {'PYTHONPATH': source.REPO, 'PATH': '/usr/bin:/bin', 'PYTHONDONTWRITEBYTECODE': '1', 'HOME': '/nonexistent'}
    script = _NATIVE.replace('@VERIF@', repr(VERIF)).replace('@REPO@', repr(source.REPO)).replace('@SEED@', str(seed)).replace('@N@', str(n))
    try:
        r = subprocess.run([source.REAL_PY, '-c', script], capture_output=True, text=True, env=env, cwd='/', timeout=900)
    except subprocess.TimeoutExpired:
        return {'timeout': True}
    if r.returncode != 0:
        return {'error': r.stderr[-1500:]}
    return json.loads(r.stdout)


def run(tier, seed):
    chk = Check('C16', 'proof', tier, seed)
    reg = units.registry()
    # oracle first: the format specs must reproduce what PICO-8 itself wrote (tests/testdata)
    ground.account(chk, specsanity.run(), 'GROUND(spec-sanity)')
    ground.account(chk, ground.builtin_models())
    cs = list(p8text.CONTRACTS) + list(p8png.CONTRACTS)
    # the note/property accessors the sfx codec is built on (their contracts are used modularly above)
    cs += [reg[t] for t in ('pico8.sfx.sfx:Sfx.get_note', 'pico8.sfx.sfx:Sfx.set_note',
                            'pico8.sfx.sfx:Sfx.get_properties', 'pico8.sfx.sfx:Sfx.set_properties')]
    units.run_contracts(chk, cs, reg, tier, seed)
    units.replay_known(chk, reg)
    # the memory map of the image: slicing in the reader, join in the writer (obligations shared with C04)
    ground.account(chk, c04.layout_obligations(chk), 'LAYOUT')
    nat = native(seed, 24 if tier == 'thorough' else 6)
    if nat.get('timeout') or nat.get('error'):
        chk.undecide('BOUNDED:c16/whole-file run did not finish: %s' % (nat.get('error') or 'timeout'))
        nat = {}
    chk.native_witness = nat.get('bad')
    chk.bounded = {'rule': 'BOUNDED: the carts PICO-8 saved as both .p8 and .p8.png load to identical data regions through the real loaders; carts '
                           'with distinct / random regions written by the real .p8.png writer and read by a reference PNG decoder + 2-bit unpack '
                           'show gfx, map, gff, music, sfx at their PICO-8 addresses and the version at 0x8000, and read back unchanged',
                   'evaluations': nat.get('n', 0), 'failures': len(nat.get('bad') or [])}
    if nat.get('bad'):
        for v in chk.violations:
            if not v['confirmed']:
                p = json.load(open(v['replay']))
                p['native_witness'] = nat['bad'][:3]
                json.dump(p, open(v['replay'], 'w'), indent=1, default=str)
                v['confirmed'] = True
        if not chk.violations and not chk.structural_fail:
            chk.violation('BOUNDED:c16/whole files do not follow the PICO-8 memory map', {'witness': nat['bad'][:4]}, True)
    chk.trust('pyvc VC generator + z3; format specs /verif/specs/p8spec.py (written from the PICO-8 format '
              'description, validated on every run against the carts PICO-8 saved as both .p8 and .p8.png)')
    chk.trust('typed models of builtins (format(b,"02x"), int(s,16), bytes.fromhex, rstrip, str(b,"ascii")) -- '
              'cross-checked against CPython over their whole finite domain on every run (GROUND)')
    chk.assume('in-format input rows for the readers: the right number of hex digits (either case) per row, newline '
               'terminated; sfx digits within pitch 00-3f / volume 0-7 / effect 0-7, music flags 00-07 and channel '
               'bytes 00-7f, at most 64 sfx rows; rows of a wrong length are skipped by the code and are outside the format')
    chk.assume('cart images are 160x205 RGBA8 (the geometry of every PICO-8 cart); other geometries are not covered')
    chk.assume('ints="bv" exact under discharged no-wrap obligations (Sfx.from_lines: mathematical integers)')
    chk.assume('not under contract here: Map.from_lines / Map.from_bytes (keyword plumbing around BaseSection); the memory slicing inside '
               'get_raw_data_from_p8png_file and the join in P8PNGFormatter.to_file are LAYOUT obligations (read off the ast, compared with the '
               'PICO-8 memory map) backed by the bounded whole-file run')
    return chk.finish()
