"""C16: on-disk encodings match the PICO-8 cart formats, not merely each other."""
import json
import os
import subprocess

from pyvc.report import Check
from pyvc import units, ground, specsanity, source
from contracts import p8text, p8png, sections
from checks import c04

VERIF = os.path.dirname(os.path.dirname(os.path.abspath(__file__)))

# BOUNDED (never counted as proved): whole files.  (a) the carts PICO-8 itself saved both as .p8 and as .p8.png (tests/testdata) load,
# through the real loaders, to identical data regions; (b) carts with distinct random regions written by the real .p8.png writer, read
# by the reference PNG decoder + steganographic unpack, must show the PICO-8 memory map: gfx, map, gff, music, sfx, code, version.
_NATIVE = r'''
import json, os, random, shutil, sys, tempfile
sys.path.insert(0, @VERIF@)
from specs.pngref import png_decode, mem_from_pixels
from pico8.game import file as pfile, game
from pico8 import util
util.set_verbosity(util.VERBOSITY_QUIET)
bad, n = [], 0
td = os.path.join(@REPO@, 'tests', 'testdata')
for f in sorted(os.listdir(td)):
    if f.endswith('.p8') and os.path.exists(os.path.join(td, f + '.png')):
        n += 1
        a, b = pfile.from_file(os.path.join(td, f)), pfile.from_file(os.path.join(td, f + '.png'))
        for s in ('gfx', 'gff', 'map', 'sfx', 'music'):
            if bytes(getattr(a, s)._data) != bytes(getattr(b, s)._data):
                bad.append([f, 'region %s differs between the .p8 and the .p8.png PICO-8 saved' % s])
rnd = random.Random(@SEED@)
work = tempfile.mkdtemp(prefix='c16_')
MAP = [('gfx', 0x0000, 0x2000), ('map', 0x2000, 0x3000), ('gff', 0x3000, 0x3100), ('music', 0x3100, 0x3200), ('sfx', 0x3200, 0x4300)]
for k in range(@N@):
    n += 1
    g = game.Game.make_empty_game(filename='x.p8')
    g.lua.update_from_lines([b'x=%d\n' % k])
    for s, lo, hi in MAP:
        d = getattr(g, s)._data
        for i in range(len(d)): d[i] = rnd.randint(0, 255) if k else (MAP.index((s, lo, hi)) * 40 + i) & 255
    g.version = rnd.choice([5, 8, 16, 41])
    dest = os.path.join(work, 'c%d.p8.png' % k)
    pfile.to_file(g, dest)
    w, h, rows = png_decode(open(dest, 'rb').read())
    mem = mem_from_pixels(w, h, rows)
    if (w, h) != (160, 205): bad.append(['cart %d' % k, 'image is %dx%d' % (w, h)])
    for s, lo, hi in MAP:
        if bytes(mem[lo:hi]) != bytes(getattr(g, s)._data): bad.append(['cart %d' % k, 'memory 0x%04x-0x%04x of the written image is not the %s region' % (lo, hi, s)])
    if mem[0x8000] != g.version: bad.append(['cart %d' % k, 'byte 0x8000 is %d, version %d' % (mem[0x8000], g.version)])
    g2 = pfile.from_file(dest)
    for s, lo, hi in MAP:
        if bytes(getattr(g2, s)._data) != bytes(getattr(g, s)._data): bad.append(['cart %d' % k, 'region %s read back differently' % s])
shutil.rmtree(work, ignore_errors=True)
print(json.dumps({'n': n, 'bad': bad[:8]}))
'''


# BOUNDED / ground conformance of the section codecs on concrete regions: the SPEC text is computed here from specs/p8spec.py, the real
# from_lines / to_lines run in the real interpreter.  Covers all 65,536 sfx note words, all byte values in every gfx / music column.
_CODEC = r'''
import json, sys
from pico8.gfx.gfx import Gfx
from pico8.gff.gff import Gff
from pico8.map.map import Map
from pico8.sfx.sfx import Sfx
from pico8.music.music import Music
CLS = {'gfx': Gfx, 'gff': Gff, 'map': Map, 'sfx': Sfx, 'music': Music}
cases = json.load(open(sys.argv[1]))
bad, n = [], 0
for sec, data_hex, rows_hex in cases:
    n += 1
    data = bytes.fromhex(data_hex); rows = [bytes.fromhex(r) for r in rows_hex]
    cls = CLS[sec]
    try:
        got = bytes(cls.from_lines(list(rows), version=8)._data)
        if got != data:
            k = next(i for i in range(min(len(got), len(data))) if got[i] != data[i]) if len(got) == len(data) else -1
            if len(bad) < 8: bad.append([sec, 'from_lines(spec text) differs from the region at byte %d (%d vs %d bytes)' % (k, len(got), len(data))])
        out = list(cls(data=bytearray(data), version=8).to_lines())
        if b''.join(out) != b''.join(rows):
            k = next((i for i in range(min(len(out), len(rows))) if out[i] != rows[i]), -1)
            if len(bad) < 8: bad.append([sec, 'to_lines differs from the spec text at row %d: %r vs %r' % (k, out[k][:40] if 0 <= k < len(out) else None, rows[k][:40] if 0 <= k < len(rows) else None)])
    except Exception as e:
        if len(bad) < 8: bad.append([sec, 'raised %s: %s' % (type(e).__name__, e)])
print(json.dumps({'n': n, 'bad': bad}))
'''


def codec_cases(seed, big):
    import random
    from pyvc.values import E, SSeq
    from specs import p8spec as P
    E.reset('lia')
    E.concrete = True
    r = random.Random(seed)
    cases = []

    def text(rowsq):
        return [bytes(rowsq.get(i).get(j) for j in range(rowsq.get(i).n)).hex() for i in range(rowsq.n)]
    try:
        for k in range(32):                      # all 65,536 note words: word w = k * 2048 + n at note n of the region
            d = bytearray(0x1100)
            for n in range(2048):
                w = k * 2048 + n
                d[(n // 32) * 68 + (n % 32) * 2] = w & 255
                d[(n // 32) * 68 + (n % 32) * 2 + 1] = w >> 8
            for i in range(64):
                d[i * 68 + 64: i * 68 + 68] = bytes(r.randrange(256) for _ in range(4))
            cases.append(('sfx', bytes(d).hex(), text(P.sfx_rows(SSeq.of(bytes(d))))))
        for k in range(0, 256, 32 if not big else 8):          # every byte value in every column of a gfx row
            d = bytes((i + k + (i // 64) * 7) & 255 for i in range(0x2000))
            cases.append(('gfx', d.hex(), text(P.gfx_rows(SSeq.of(d)))))
        for k in range(4):                       # every value of every channel byte / flag combination
            d = bytearray((i + 64 * k) & 255 for i in range(0x100))
            for i in range(3, 0x100, 4):
                d[i] &= 0x7f                     # the one bit the text format has no place for
            cases.append(('music', bytes(d).hex(), text(P.music_rows(SSeq.of(bytes(d))))))
        for sec, size in (('gff', 0x100), ('map', 0x1000), ('gfx', 0x2000), ('music', 0x100)):
            d = bytearray(r.randrange(256) for _ in range(size))
            if sec == 'music':
                for i in range(3, 0x100, 4):
                    d[i] &= 0x7f
            rows = {'gff': lambda x: P.hex_rows(x, 128), 'map': lambda x: P.hex_rows(x, 128), 'gfx': P.gfx_rows, 'music': P.music_rows}[sec](SSeq.of(bytes(d)))
            cases.append((sec, bytes(d).hex(), text(rows)))
    finally:
        E.concrete = False
    return cases


def codec_native(seed, big):
    import tempfile
    cases = codec_cases(seed, big)
    with tempfile.NamedTemporaryFile('w', suffix='.json', delete=False) as fh:
        json.dump(cases, fh)
    env = {'PYTHONPATH': source.REPO, 'PATH': '/usr/bin:/bin', 'PYTHONDONTWRITEBYTECODE': '1'}
    try:
        r = subprocess.run([source.REAL_PY, '-c', _CODEC, fh.name], capture_output=True, text=True, env=env, cwd='/', timeout=900)
    except subprocess.TimeoutExpired:
        return {'timeout': True}
    finally:
        os.unlink(fh.name)
    if r.returncode != 0:
        return {'error': r.stderr[-1500:]}
    return json.loads(r.stdout)


def native(seed, n):
    env = {'PYTHONPATH': source.REPO, 'PATH': '/usr/bin:/bin', 'PYTHONDONTWRITEBYTECODE': '1', 'HOME': '/nonexistent'}
    script = _NATIVE.replace('@VERIF@', repr(VERIF)).replace('@REPO@', repr(source.REPO)).replace('@SEED@', str(seed)).replace('@N@', str(n))
    try:
        r = subprocess.run([source.REAL_PY, '-c', script], capture_output=True, text=True, env=env, cwd='/', timeout=900)
    except subprocess.TimeoutExpired:
        return {'timeout': True}
    if r.returncode != 0:
        return {'error': r.stderr[-1500:]}
    return json.loads(r.stdout)


def run(tier, seed):
    chk = Check('C16', 'proof', tier, seed)
    reg = units.registry()
    # oracle first: the format specs must reproduce what PICO-8 itself wrote (tests/testdata)
    ground.account(chk, specsanity.run(), 'GROUND(spec-sanity)')
    ground.account(chk, ground.builtin_models())
    cs = list(p8text.CONTRACTS) + list(p8png.CONTRACTS)
    # the note/property accessors the sfx codec is built on (their contracts are used modularly above)
    cs += [reg[t] for t in ('pico8.sfx.sfx:Sfx.get_note', 'pico8.sfx.sfx:Sfx.set_note',
                            'pico8.sfx.sfx:Sfx.get_properties', 'pico8.sfx.sfx:Sfx.set_properties')]
    units.run_contracts(chk, cs, reg, tier, seed)
    units.replay_known(chk, reg)
    # the memory map of the image: slicing in the reader, join in the writer (obligations shared with C04)
    ground.account(chk, c04.layout_obligations(chk), 'LAYOUT')
    nat = native(seed, 24 if tier == 'thorough' else 6)
    if nat.get('timeout') or nat.get('error'):
        chk.undecide('BOUNDED:c16/whole-file run did not finish: %s' % (nat.get('error') or 'timeout'))
        nat = {}
    cod = codec_native(seed, tier == 'thorough')
    if cod.get('timeout') or cod.get('error'):
        chk.undecide('BOUNDED:c16/codec conformance run did not finish: %s' % (cod.get('error') or 'timeout'))
        cod = {}
    nat = dict(nat, n=nat.get('n', 0) + cod.get('n', 0), bad=(nat.get('bad') or []) + (cod.get('bad') or []))
    chk.native_witness = nat.get('bad')
    chk.bounded = {'rule': 'BOUNDED: the real section codecs against the spec text on concrete regions (all 65,536 sfx note words, every byte '
                           'value in every gfx and music column, random gff / map regions): from_lines(spec text) == region and to_lines(region) '
                           '== spec text.  The carts PICO-8 saved as both .p8 and .p8.png load to identical data regions through the real loaders; carts '
                           'with distinct / random regions written by the real .p8.png writer and read by a reference PNG decoder + 2-bit unpack '
                           'show gfx, map, gff, music, sfx at their PICO-8 addresses and the version at 0x8000, and read back unchanged',
                   'evaluations': nat.get('n', 0), 'failures': len(nat.get('bad') or [])}
    if nat.get('bad'):
        for v in chk.violations:
            if not v['confirmed']:
                p = json.load(open(v['replay']))
                p['native_witness'] = nat['bad'][:3]
                json.dump(p, open(v['replay'], 'w'), indent=1, default=str)
                v['confirmed'] = True
        if not chk.violations and not chk.structural_fail:
            chk.violation('BOUNDED:c16/whole files do not follow the PICO-8 memory map', {'witness': nat['bad'][:4]}, True)
    chk.trust('pyvc VC generator + z3; format specs /verif/specs/p8spec.py (written from the PICO-8 format '
              'description, validated on every run against the carts PICO-8 saved as both .p8 and .p8.png)')
    chk.trust('typed models of builtins (format(b,"02x"), int(s,16), bytes.fromhex, rstrip, str(b,"ascii")) -- '
              'cross-checked against CPython over their whole finite domain on every run (GROUND)')
    chk.assume('in-format input rows for the readers: the right number of hex digits (either case) per row, newline '
               'terminated; sfx digits within pitch 00-3f / volume 0-7 / effect 0-7, music flags 00-07 and channel '
               'bytes 00-7f, at most 64 sfx rows; rows of a wrong length are skipped by the code and are outside the format')
    chk.assume('cart images are 160x205 RGBA8 (the geometry of every PICO-8 cart); other geometries are not covered')
    chk.assume('ints="bv" exact under discharged no-wrap obligations (Sfx.from_lines: mathematical integers)')
    chk.assume('not under contract here: Map.from_lines / Map.from_bytes (keyword plumbing around BaseSection); the memory slicing inside '
               'get_raw_data_from_p8png_file and the join in P8PNGFormatter.to_file are LAYOUT obligations (read off the ast, compared with the '
               'PICO-8 memory map) backed by the bounded whole-file run')
    return chk.finish()
