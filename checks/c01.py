"""C01 (and, with prop='C19', C19): the token minifier keeps the program / keeps the header comments.

Deciding steps (see pyvc/minify.py, pyvc/lexreg.py):
  1. the REAL loop body of LuaMinifyTokenWriter.to_lines is executed symbolically once per (control state x token
     class) -> the transition relation of the minifier (chunks emitted, next control state);
  2. the reachable (control state x ghost state) space is explored exhaustively; each transition must satisfy the
     clauses of the property (every significant token emitted, nothing else but blanks/newlines; a newline is kept
     iff the source had one; header comments verbatim on their own lines at the very top; no fusion);
  3. 'no fusion' uses the relation FUSE over LexSpec token classes, decided by the REG back end for ALL texts of each
     class pair; a pair counts only if a witness program, accepted by the real parser on this run, makes it adjacent;
  4. BOUNDED: every witness program through the real minifier and the reference tokenizer (three configurations).
"""
import ast
import json
import os
import multiprocessing as mp

from pyvc.report import Check
from bounded import clinative
from pyvc import minify, minnative, lexreg, source, reglang as R
from pyvc.values import SymErr
from specs import lexspec as LS, adjacency as ADJ

NOEND = {'sym:' + x.decode('latin1') for x in ADJ.NO_STATEMENT_END} | {'kw:' + x.decode() for x in ADJ.NO_STATEMENT_END_KEYWORDS}
PAYLOAD = {'TokName': ('short-code',), 'TokLabel': ('label-short',), 'TokKeyword': ('code',), 'TokNumber': ('code',),
           'TokString': ('code',), 'TokSymbol': ('code',)}


def refinements(cls, lit):
    """Spec token classes a real token of this class can belong to."""
    if cls == 'TokSymbol':
        return ['sym:' + lit.decode('latin1')]
    if cls == 'TokKeyword':
        return ['kw:' + k.decode() for k in LS.KEYWORDS]
    if cls == 'TokName':
        return ['name', 'name:?']
    if cls == 'TokNumber':
        return ['num:%d' % i for i in range(len(LS.NUMBER_PICO8))]
    if cls == 'TokLabel':
        return ['label']
    if cls == 'TokString':
        return ['str:dq', 'str:sq', 'str:long']
    return [None]


def _fuse_variant(a):
    return lexreg.fusion_relation(*a)


def explore(table, init, fuse, adjacent, K):
    """Exhaustive exploration.  Returns (transitions checked, reachable states, {obligation name: [witnesses]})."""
    classes = sorted({tc for (_, tc) in table}, key=repr)

    def kc(b):
        return b if b in K else 'o'
    # ghost: (prev (spec class, last byte class) or None, newline token since prev, '\n' emitted since prev, ' ' emitted
    #         since prev, header comments emitted so far (0..2), comments seen before any code (0..2), something other
    #         than header output emitted before code, significant token seen)
    g0 = (None, False, False, False, 0, 0, False, False)
    start = (init, g0)
    seen = {start: None}
    todo = [start]
    fails = {}
    ntrans = 0

    def fail(name, node, tok, detail):
        if name not in fails:
            fails[name] = []
        if len(fails[name]) < 3:
            fails[name].append({'token_path': path_to(node) + [tok], 'detail': detail})

    def path_to(node):
        p = []
        while seen[node] is not None:
            node, t = seen[node][0], seen[node][1]
            p.append(t)
        return list(reversed(p))
    qi = 0
    while qi < len(todo):
        node = todo[qi]
        qi += 1
        s, g = node
        prev, nl, enl, esp, hc, cs, junk, sigseen = g
        for tc in classes:
            cls, lit, f, l, single = tc
            if lit is not None:
                f, l = kc(lit[0]), kc(lit[-1])
            outs = table[(s, tc)]
            for ref in refinements(cls, lit):
                for chunks, s2, hint in outs:
                    tokname = '%s|%s|%s' % (ref or cls, f, l) + ('#' + hint if hint else '')
                    ntrans += 1
                    g2 = None
                    if cls == 'TokSpace':
                        if chunks != ():
                            fail('FSM:minify/blanks emit nothing', node, tokname, 'emitted %r' % (chunks,))
                        g2 = g
                    elif cls == 'TokComment':
                        header = (not sigseen) and cs < 2
                        if header:
                            if chunks != (('code',), ('const', b'\n')):
                                fail('FSM:minify/a header comment (one of the first two comments before any code) is emitted verbatim '
                                     'followed by a newline', node, tokname, 'emitted %r' % (chunks,))
                            if junk:
                                fail('FSM:minify/nothing is emitted before or between the header comments', node, tokname,
                                     'output precedes this header comment')
                            g2 = (prev, nl, enl, esp, min(hc + 1, 2), min(cs + 1, 2), junk, sigseen)
                        else:
                            if chunks != ():
                                fail('FSM:minify/a comment that is not a header comment emits nothing (never becomes code)', node,
                                     tokname, 'emitted %r' % (chunks,))
                            g2 = (prev, nl, enl, esp, hc, min(cs + 1, 2), junk, sigseen)
                    elif cls == 'TokNewline':
                        if chunks not in ((), (('const', b'\n'),)):
                            fail('FSM:minify/a newline token emits at most one newline', node, tokname, 'emitted %r' % (chunks,))
                        em = chunks != ()
                        g2 = (prev, nl or prev is not None, enl or (em and prev is not None), esp, hc, cs,
                              junk or (em and not sigseen), sigseen)
                    else:
                        want = PAYLOAD.get(cls)
                        if want is None:
                            fail('FSM:minify/unknown token class', node, tokname, cls)
                            continue
                        if not chunks or chunks[-1] != want:
                            fail('FSM:minify/every significant token is emitted with its own text (names through the name factory)',
                                 node, tokname, 'emitted %r, expected payload %r' % (chunks, want))
                            continue
                        sep = chunks[:-1]
                        if any(c not in (('const', b' '), ('const', b'\n')) for c in sep):
                            fail('FSM:minify/only blanks and newlines are emitted between tokens', node, tokname, 'emitted %r' % (chunks,))
                        has_nl = enl or ('const', b'\n') in sep
                        has_sp = esp or ('const', b' ') in sep
                        if prev is not None:
                            if nl and not has_nl and prev[0] not in NOEND:
                                fail('FSM:minify/a line break between two tokens is kept (line-scoped shorthand ends where it ended)',
                                     node, tokname, 'tokens %s and %s were on different lines, no newline is emitted between them' % (prev[0], ref))
                            if not nl and has_nl:
                                fail('FSM:minify/no line break is inserted between two tokens of one line', node, tokname,
                                     'a newline is emitted between %s and %s' % (prev[0], ref))
                            if not has_nl and not has_sp:
                                pair = (prev, (ref, f))
                                if pair in fuse and pair in adjacent:
                                    fail('REG:minify/no fusion: %s (ending in %s) directly followed by %s (starting with %s)' %
                                         (prev[0], _bn(prev[1]), ref, _bn(f)), node, tokname,
                                         {'lexspec_witness': repr(fuse[pair][0]), 'split': fuse[pair][1],
                                          'program': repr(adjacent[pair])})
                        g2 = ((ref, l), False, False, False, hc, cs, True, True)
                    if g2 is None:
                        continue
                    nn = (s2, g2)
                    if nn not in seen:
                        seen[nn] = (node, tokname)
                        todo.append(nn)
    return ntrans, len(seen), fails


def _bn(b):
    return 'another byte' if b == 'o' else repr(chr(b))


def wiring():
    """Syntactic facts (read from the real AST) that connect the CLI to the writer under contract."""
    res = []
    f = source.find_function('pico8.tool:luamin')
    txt = ast.unparse(f.node)
    res.append(('GROUND:wiring/tool.luamin passes lua_writer_cls=lua.LuaMinifyTokenWriter to file.to_file',
                'file.to_file(' in txt and 'lua_writer_cls=lua.LuaMinifyTokenWriter' in txt, ''))
    res.append(('GROUND:wiring/tool.luamin forwards keep_all_names and keep_names_from_file',
                "'keep_all_names': args.keep_all_names" in txt and "'keep_names_from_file': args.keep_names_from_file" in txt, ''))
    f = source.find_function('pico8.game.formatter.p8:P8Formatter.to_file')
    txt = ast.unparse(f.node)
    res.append(('GROUND:wiring/P8Formatter.to_file writes game.lua.to_lines(writer_cls=lua_writer_cls, writer_args=lua_writer_args)',
                txt.count('game.lua.to_lines(writer_cls=lua_writer_cls, writer_args=lua_writer_args)') >= 2, ''))
    f = source.find_function('pico8.lua.lua:Lua.to_lines')
    txt = ast.unparse(f.node)
    res.append(('GROUND:wiring/Lua.to_lines instantiates writer_cls(tokens=self._lexer.tokens, ..., args=writer_args) and yields its lines',
                'writer_cls(tokens=self._lexer.tokens' in txt and 'args=writer_args' in txt and 'for line in writer.to_lines()' in txt, ''))
    f = source.find_function('pico8.lua.lua:LuaMinifyTokenWriter.__init__')
    txt = ast.unparse(f.node)
    res.append(('GROUND:wiring/the writer builds its name factory from keep_all_names / keep_names_from_file',
                "keep_all_names=self._args.get('keep_all_names', False)" in txt and
                "keep_names_from_file=self._args.get('keep_names_from_file')" in txt, ''))
    return res


def _bounded_only(chk, prop, nat=None):
    """The deductive part could not be built (the writer left the supported subset): the bounded runs still decide what they can -- a
    failing input found natively is a violation whatever the state of the proof."""
    try:
        if nat is None:
            nat = minnative.run(LS.NUMBER_PICO8, lexreg.symbols_of_impl(), True, (), True, ())
    except Exception as e:
        chk.undecide('BOUNDED:minify/native differential did not run: %r' % (e,))
        nat = {'bad': [], 'accepted': 0, 'n_compared': 0}
    if prop == 'C01':
        for src, args, why in nat['bad'][:4]:
            if 'renamed' in why or 'two identifiers' in why:
                continue
            chk.violation('BOUNDED:minify/native differential: %s' % why[:60],
                          {'program': repr(bytes.fromhex(src)), 'config': args, 'observed': why}, True)
        chk.bounded = {'rule': 'BOUNDED: %d witness programs x 3 configurations through the real minifier and the reference tokenizer' % nat['accepted'],
                       'evaluations': nat['n_compared'], 'failures': len(nat['bad'])}
    else:
        hn = header_native()
        if hn.get('timeout') or hn.get('error'):
            chk.undecide('BOUNDED:minify/header run did not finish: %s' % (hn.get('error') or 'timeout'))
        else:
            chk.bounded = {'rule': 'BOUNDED: header shapes x 2 configurations through the real minifier (see the C19 check)', 'evaluations': hn['n'],
                           'failures': len(hn['bad'])}
            if hn['bad']:
                chk.violation('BOUNDED:minify/header comments are not kept at the top of the output', {'witness': hn['bad'][:4]}, True)
    return chk.finish()


def run(tier, seed, prop='C01'):
    chk = Check(prop, 'proof', tier, seed)
    from pyvc import ground
    # 1.-3. in parallel: transition relation from the real body; FUSE from LexSpec (both admitted numeral readings; a pair
    # counts only if it fuses under both); adjacency witnesses + bounded native differential
    from concurrent.futures import ProcessPoolExecutor
    try:
        init = minify.initial_state()
        classes = minify.token_classes()
    except SymErr as e:
        chk.undecide('LuaMinifyTokenWriter.to_lines left the supported subset: %s' % e)
        return _bounded_only(chk, prop)
    syms = lexreg.symbols_of_impl()
    with ProcessPoolExecutor(max_workers=15, mp_context=mp.get_context('fork')) as pool:
        K = minify.byte_constants()
        f_fuse = [pool.submit(_fuse_variant, (i, K)) for i in (0, 1)]
        f_nat = pool.submit(minnative.run, LS.NUMBER_PICO8, syms, True, (), True, K)
        try:
            init, table, side = minify.reachable_table(pool)
        except SymErr as e:
            chk.undecide('LuaMinifyTokenWriter.to_lines left the supported subset: %s' % e)
            return _bounded_only(chk, prop, f_nat.result())
        try:
            rs = [f.result() for f in f_fuse]
        except R.Unsupported as e:
            chk.undecide('REG: %s' % e)
            return chk.finish()
        nat = f_nat.result()
    fn = source.find_function(minify.TARGET)
    chk.functions.append({'function': minify.TARGET, 'file': 'pico8/lua/lua.py', 'line': fn.line, 'sha256': fn.sha,
                          'paths': sum(len(v) for v in table.values()), 'ints': 'lia'})
    chk.extra['data_dependent_transitions'] = sum(1 for v in table.values() for r in v if r[2] is not None)
    for name, status, secs, backend, model in side:
        chk.count(backend or 'z3', status, secs, name)
        if status == 'failed':
            chk.violation(name, {'function': minify.TARGET, 'solver_model': model}, False)
        elif status != 'discharged':
            chk.undecide(name)
    chk.count('SYMEX', 'discharged', 0.0, 'SYMEX:minify/transition relation extracted: %d (state, token class) cases of the real loop body, '
              'each with a control-state successor that is a function of (state, class)' % len(table))
    ground.account(chk, wiring())
    if prop == 'C01':
        try:
            w = minify.token_weights()
            ok = w.get('TokName') == [1] and w.get('TokLabel') == [1] and w.get('TokString') == [1] and w.get('TokComment') == [0] and \
                w.get('TokSpace') == [0] and w.get('TokNewline') == [0] and all(isinstance(v, list) and None not in v for v in w.values())
            chk.count('SYMEX', 'discharged' if ok else 'failed', 0.0, 'SYMEX:stats/in Lua.get_token_count a name, a label and a string token weigh 1 whatever '
                      'their text, trivia weighs 0, and every other token keeps its text through the minifier: the stats token count is unchanged')
            if not ok:
                chk.violation('SYMEX:stats/the stats weight of a renamed or re-spelled token depends on its text', {'weights': str(w)}, False)
        except SymErr as e:
            chk.undecide('Lua.get_token_count left the supported subset: %s' % e)
    fuse = {k: v for k, v in rs[0][0].items() if k in rs[1][0]}
    chk.extra['fuse_relation'] = {'pairs_fusing_under_every_admitted_reading': len(fuse), 'product_states': [r[1]['states'] for r in rs],
                                  'token_classes': rs[0][1]['classes']}
    chk.count('REG', 'discharged', 0.0, 'REG:lexspec/FUSE relation over %d x %d token classes decided for all texts (product of %d states)'
              % (rs[0][1]['classes'], rs[0][1]['classes'], rs[0][1]['states']))
    adjacent = nat['pairs']
    chk.extra['adjacency'] = {'witness_programs_accepted_by_the_real_parser': nat['accepted'], 'rejected': nat['rejected'],
                              'adjacent_class_pairs': len(adjacent), 'fusing_and_adjacent': len([p for p in fuse if p in adjacent])}
    if nat['accepted'] == 0:
        chk.error('no witness program was accepted by the real parser (adjacency precondition is vacuous)')
    # 4. exploration
    ntrans, nstates, fails = explore(table, init, fuse, adjacent, set(K))
    names = ['FSM:minify/blanks emit nothing',
             'FSM:minify/a header comment (one of the first two comments before any code) is emitted verbatim followed by a newline',
             'FSM:minify/nothing is emitted before or between the header comments',
             'FSM:minify/a comment that is not a header comment emits nothing (never becomes code)',
             'FSM:minify/a newline token emits at most one newline',
             'FSM:minify/every significant token is emitted with its own text (names through the name factory)',
             'FSM:minify/only blanks and newlines are emitted between tokens',
             'FSM:minify/a line break between two tokens is kept (line-scoped shorthand ends where it ended)',
             'FSM:minify/no line break is inserted between two tokens of one line',
             'REG:minify/no fusion for every adjacent class pair emitted without separator']
    c19 = set(names[1:4])
    fused = {k: v for k, v in fails.items() if k.startswith('REG:minify/no fusion')}
    for nm in names[:-1]:
        if prop == 'C19' and nm not in c19 and nm != names[0]:
            continue
        bad = fails.get(nm)
        chk.count('FSM', 'failed' if bad else 'discharged', 0.0, nm)
        if bad:
            confirmed, payload = replay_path(bad[0], nm)
            chk.violation(nm, payload, confirmed)
    if prop == 'C01' or True:
        chk.count('REG', 'failed' if fused else 'discharged', 0.0, names[-1])
        known = {k['class'] for k in chk.known if k.get('status') == 'known'}
        for nm, bad in sorted(fused.items()):
            d = bad[0]['detail']
            prog = eval(d['program'])
            r = minnative.run(LS.NUMBER_PICO8, lexreg.symbols_of_impl(), compare=True, extra=[prog], corpus=False)
            hit = [b for b in r['bad'] if bytes.fromhex(b[0]) == prog]
            payload = {'function': minify.TARGET, 'pair': nm, 'lexspec_witness': d['lexspec_witness'], 'program': d['program'],
                       'native': hit[:1], 'solver': 'REG witness (shortest fusing text of the class pair) + witness program through the real '
                       'minifier and the reference tokenizer'}
            chk.violation(nm, payload, bool(hit))
    chk.extra['exploration'] = {'transitions_checked': ntrans, 'reachable_states': nstates}
    # 5. bounded
    chk.bounded = {'rule': 'BOUNDED: %d witness programs x 3 configurations (default, keep_all_names, keep_names_from_file) through the '
                           'real minifier; input and output tokenized by the reference tokenizer (specs/reflex.py); compares kinds, '
                           'texts, string values, numeric values, renaming consistency/injectivity, line-break positions, stats token '
                           'count' % nat['accepted'],
                   'evaluations': nat['n_compared'], 'failures': len(nat['bad'])}
    for src, args, why in nat['bad'][:4]:
        if prop == 'C19':
            break
        if 'renamed' in why or 'two identifiers' in why:
            continue        # renaming clauses belong to C02
        chk.violation('BOUNDED:minify/native differential: %s' % why[:60],
                      {'program': repr(bytes.fromhex(src)), 'config': args, 'observed': why}, True)
    chk.native_witness = [b for b in nat['bad'] if 'renamed' not in b[2] and 'two identifiers' not in b[2]]
    if prop == 'C19':
        hn = header_native()
        if hn.get('timeout') or hn.get('error'):
            chk.undecide('BOUNDED:minify/header run did not finish: %s' % (hn.get('error') or 'timeout'))
        else:
            chk.bounded = {'rule': 'BOUNDED: header shapes (0-3 leading comments of kinds --, //, one-line and multi-line block comments, level-2 '
                                   'brackets; blank / whitespace lines or a blank before and between them; code on the next line or the same '
                                   'line; a later comment) x 2 configurations through the real minifier: the output begins with the first two '
                                   'leading comments (found by the reference tokenizer), each followed by a line end, and the rest has the '
                                   'code tokens of the input and no comment turned into code',
                           'evaluations': hn['n'], 'failures': len(hn['bad'])}
            chk.native_witness = hn['bad']
            if hn['bad']:
                for v in chk.violations:
                    if not v['confirmed']:
                        p = json.load(open(v['replay']))
                        p['native_witness'] = hn['bad'][:2]
                        json.dump(p, open(v['replay'], 'w'), indent=1, default=str)
                        v['confirmed'] = True
                if not chk.violations:
                    chk.violation('BOUNDED:minify/header comments are not kept at the top of the output', {'witness': hn['bad'][:4]}, True)
    clinative.fold(chk, 'luamin')
    chk.trust('pyvc symbolic executor (real loop body -> transition relation); exhaustive exploration of the finite control x ghost space')
    chk.trust('REG decision procedure over LexSpec (specs/lexspec.py) for the FUSE relation; real patterns parsed with re._parser')
    chk.assume('the loop body depends on the token only through its class, `token.code in b\'])}\'` and the chunks it yields (checked: '
               'the extracted successor state must be a function of (state, class), else the run is undecided)')
    chk.assume('adjacency: no-fusion is demanded only for class pairs made adjacent by a witness program that the real parser accepts '
               'on this run (specs/adjacency.py); other pairs are outside the quantifier')
    chk.assume('a blank or a newline between two tokens separates them (no LexSpec token class contains a blank or newline, except '
               'strings/comments which are closed tokens); quoted strings are re-spelled by TokString.code (value preservation: C06)')
    chk.assume('token texts handed to the writer are the lexer\'s (C07); generated names are in [a-z]+ and never reserved (C02)')
    return chk.finish()


CANDIDATES = {
    'TokComment': [b'-- c', b'// c', b'-- c]', b'-- c)', b'-- c}', b'-- c:', b'-- c-', b'-- c.', b'-- c[', b'-- c '],
    'TokNewline': [b'\n', b'\r\n', b'\r'], 'TokSpace': [b' ', b'\t', b' \t', b'\t '],
    'name': [b'foo'], 'name:?': [b'?'], 'label': [b'::lbl::'], 'str:dq': [b'"s"'], 'str:sq': [b"'s'"], 'str:long': [b'[[s]]'],
    'num:0': [b'12', b'1.', b'1e5'], 'num:1': [b'.5'], 'num:2': [b'0x1f', b'0x1.8'], 'num:3': [b'0x.8'], 'num:4': [b'0b101'],
    'num:5': [b'0b.1']}


def concretise(path, K):
    """One concrete program for an abstract token path (class|first byte class|last byte class per token)."""
    def kc(b):
        return str(b) if b in K else 'o'
    toks = []
    for i, t in enumerate(path):
        t, _, hint = t.partition('#')
        base, f, l = t.rsplit('|', 2)
        if hint:
            cands = [bytes.fromhex(hint)]
        elif base.startswith('sym:'):
            cands = [base[4:].encode('latin1')]
        elif base.startswith('kw:'):
            cands = [base[3:].encode()]
        else:
            cands = CANDIDATES.get(base, [b''])
        if base == 'TokComment':
            nxt = path[i + 1].partition('#')[0].rsplit('|', 2)[0] if i + 1 < len(path) else 'TokNewline'
            if nxt != 'TokNewline':
                cands = [b'--[[c]]']               # a line comment would swallow the rest of the line
        pick = [c for c in cands if c and kc(c[0]) == f and kc(c[-1]) == l] or cands
        toks.append((base, pick[0]))
    src = b''
    for i, (base, txt) in enumerate(toks):
        if i and base not in ('TokSpace', 'TokNewline') and toks[i - 1][0] not in ('TokSpace', 'TokNewline'):
            src += b' '
        src += txt
    return src


def replay_path(bad, name):
    """Concretise an abstract token path into a program and run it through the real minifier + reference tokenizer."""
    K = set(minify.byte_constants())
    src = concretise(bad['token_path'], K)
    payload = {'function': minify.TARGET, 'abstract_token_path': bad['token_path'], 'detail': bad['detail'],
               'program': repr(src), 'solver': 'exhaustive exploration of the extracted transition relation; abstract path concretised with one '
               'representative text per token class and run through the real minifier'}
    confirmed = False
    for cand in (src, src + b'\n', src + b'\nx = 1\n', src + b' x = 1\n'):
        try:
            r = minnative.run(LS.NUMBER_PICO8, lexreg.symbols_of_impl(), compare=True, extra=[cand], corpus=False)
            out = header_observation(cand)
        except Exception as e:
            payload['replay_error'] = repr(e)
            continue
        hit = [b for b in r['bad'] if 'renamed' not in b[2] and 'two identifiers' not in b[2]]
        if hit or out.get('header_violated', False):
            payload.update({'program': repr(cand), 'observed': out, 'native': hit[:1]})
            confirmed = True
            break
        payload.setdefault('tried', []).append({'program': repr(cand), 'observed': out})
    return confirmed, payload


_HEADER_NATIVE = r'''
import itertools, json, sys
sys.path.insert(0, @VERIF@)
from specs import reflex
from pico8.lua import lua, lexer
SYMS = sorted({p.pattern.replace(b'\\', b'') for p, c in lexer._TOKEN_MATCHERS if c is lexer.TokSymbol} | {b'\\'}, key=len, reverse=True)
LINE = [b'-- title', b'// by me', b'--', b'-- trailing  ', b'--title']
BLOCK = [b'--[[ block ]]', b'--[[ two\nlines ]]', b'--[==[ lvl ]] ]==]', b'--[[\nstarts with a line end\n]]']
bad, n = [], 0
def check(src):
    global n
    try:
        toks = reflex.tokenize(src, SYMS)
    except reflex.Outside:
        return
    hdr = []
    for kind, text, line, col, value in toks:
        if kind == 'comment':
            if len(hdr) < 2: hdr.append(text)
        elif kind not in ('space', 'newline'):
            break
    want = b''.join(c + b'\n' for c in hdr)
    for args in ({}, {'keep_all_names': True}):
        n += 1
        try:
            l = lua.Lua.from_lines([src], version=8)
            out = b''.join(l.to_lines(writer_cls=lua.LuaMinifyTokenWriter, writer_args=dict(args)))
        except Exception as e:
            if len(bad) < 8: bad.append([src.decode('latin1'), 'luamin raised %s: %s' % (type(e).__name__, e)])
            continue
        if not out.startswith(want):
            if len(bad) < 8: bad.append([src.decode('latin1'), 'the output %r does not begin with the header comments %r' % (out[:80], want)])
            continue
        try:
            rest = [(k, t) for k, t, *_ in reflex.tokenize(out[len(want):], SYMS) if k not in ('space', 'newline')]
            code = [(k, t) for k, t, *_ in toks if k not in ('space', 'newline', 'comment')]
        except reflex.Outside:
            continue
        if [k for k, t in rest if k != 'comment'] != [k for k, t in code]:
            if len(bad) < 8: bad.append([src.decode('latin1'), 'a comment turned into code or code into a comment: %r' % out[:100]])
for lead in (b'', b'\n', b'  ', b'\n\n \n'):
    for k in range(0, 4):
        for cs in itertools.product(LINE[:3] + BLOCK[:3], repeat=k) if k < 3 else [(LINE[0], BLOCK[1], LINE[1]), (BLOCK[3], LINE[3], LINE[4]), (BLOCK[0], BLOCK[0], BLOCK[0])]:
            for sep in (b'\n', b'\n\n', b'\n \t\n', b' '):
                for tail in (b'\nx=1\n', b' x=1\n', b'\n\nx=1 -- later\ny=2\n', b'\n', b''):
                    parts, ok = [], True
                    for i, c in enumerate(cs):
                        parts.append(c)
                        nxt = sep if i + 1 < len(cs) else tail
                        if c in LINE and not nxt.startswith(b'\n') and nxt != b'': ok = False      # a line comment swallows what follows on its line
                        parts.append(nxt)
                    if not cs: parts = [tail]
                    if ok: check(lead + b''.join(parts))
print(json.dumps({'n': n, 'bad': bad}))
'''


def header_native():
    import json
    import subprocess
    verif = os.path.dirname(os.path.dirname(os.path.abspath(__file__)))
    env = {'PYTHONPATH': source.REPO, 'PATH': '/usr/bin:/bin', 'PYTHONDONTWRITEBYTECODE': '1'}
    try:
        r = subprocess.run([source.REAL_PY, '-c', _HEADER_NATIVE.replace('@VERIF@', repr(verif))], capture_output=True, text=True, env=env, cwd='/', timeout=900)
    except subprocess.TimeoutExpired:
        return {'timeout': True}
    if r.returncode != 0:
        return {'error': r.stderr[-1500:]}
    return json.loads(r.stdout)


def header_observation(src):
    import json
    import subprocess
    script = r'''
import json, sys
from pico8.lua import lua, lexer
src = bytes.fromhex(%r)
l = lua.Lua.from_lines([src], version=8)
out = b''.join(l.to_lines(writer_cls=lua.LuaMinifyTokenWriter))
hdr = []
for t in l._lexer.tokens:
    if isinstance(t, lexer.TokComment):
        if len(hdr) < 2: hdr.append(t.code)
    elif not isinstance(t, (lexer.TokSpace, lexer.TokNewline)):
        break
want = b''.join(c + b'\n' for c in hdr)
print(json.dumps({'output': repr(out), 'expected_prefix': repr(want), 'header_violated': not out.startswith(want)}))
''' % src.hex()
    env = {'PYTHONPATH': source.REPO, 'PATH': '/usr/bin:/bin', 'PYTHONDONTWRITEBYTECODE': '1'}
    r = subprocess.run([source.REAL_PY, '-c', script], capture_output=True, text=True, env=env, cwd='/')
    if r.returncode != 0:
        return {'error': r.stderr[-400:]}
    return json.loads(r.stdout)
