"""C02: luamin renaming is a consistent injection that respects reserved names."""
import json
import os
import subprocess

from pyvc.report import Check
from bounded import clinative
from pyvc import units, ground, source, minify
from pyvc.solve import solve_all
from pyvc.execu import Obligation
from pyvc.values import SymErr
from contracts import names

VERIF = os.path.dirname(os.path.dirname(os.path.abspath(__file__)))

_NATIVE = r'''
import json, os, tempfile, itertools, random
from pico8.lua import lua, lexer
P = lua.MinifyNameFactory.PRESERVED_NAMES
def check(keep, population, keep_all=False):
    """first violated clause or None"""
    path = None
    if keep is not None:
        fh = tempfile.NamedTemporaryFile('wb', delete=False, suffix='.txt'); path = fh.name
        fh.write(b'# names to keep\n\n' + b''.join(b'  ' + k + b' \n' for k in keep)); fh.close()
    try:
        f = lua.MinifyNameFactory(keep_all_names=keep_all, keep_names_from_file=path)
        out = {}
        for n in population:
            r = f.get_short_name(n)
            if n in out and out[n] != r: return 'name %r renamed to %r and later to %r' % (n, out[n], r)
            out[n] = r
            kept = keep_all or n in P or (keep is not None and n in keep)
            if kept and r != n: return 'kept name %r written as %r' % (n, r)
            if not kept and (r in P or (keep is not None and r in keep)): return 'generated name %r for %r is reserved/kept' % (r, n)
            if not kept and lexer.LUA_KEYWORDS & {r}: return 'generated name %r is a keyword' % r
        inv = {}
        for n, r in out.items():
            if r in inv and inv[r] != n: return 'names %r and %r both become %r' % (inv[r], n, r)
            inv[r] = n
        return None
    finally:
        if path: os.unlink(path)
rnd = random.Random(@SEED@)
base = [b'foo%d' % i for i in range(@N@)]
special = [b'a', b'b', b'c', b'z', b'ba', b'bb', b'zz', b'baa', b't', b'do', b'print', b'_init', b'x1', b'\x80', b'A', b'aA']
bad, runs = [], 0
keeps = [None, [], [b'a'], [b'b', b'ba'], [b'c', b'foo1'], [b'a', b'b', b'c', b'd', b'e'], [b'zz', b'baa', b'bc']]
for keep in keeps:
    for order in range(3):
        pop = base + special
        if order == 1: pop = special + base
        if order == 2: rnd.shuffle(pop)
        pop = pop + pop[:50]
        runs += 1
        r = check(keep, pop)
        if r: bad.append([repr(keep), order, r])
runs += 1
r = check([b'a'], base[:30] + special, keep_all=True)
if r: bad.append(['keep_all', 0, r])
# ids: every generated short name in a bounded exhaustive range is distinct, lower-case, not reserved after skipping
seen = {}
for i in range(@IDS@):
    nm = lua.MinifyNameFactory._name_for_id(i)
    if nm in seen: bad.append(['ids', i, 'id %d and %d both spell %r' % (seen[nm], i, nm)]); break
    if not nm.isalpha() or not nm.islower(): bad.append(['ids', i, 'id %d spells %r' % (i, nm)]); break
    seen[nm] = i
# keep-file reader
def ref_read(data):
    out = set()
    for line in data.split(b'\n'):
        line = line.strip()
        if not line or line.startswith(b'#'): continue
        out.add(line)
    return out
nread = 0
for data in [b'', b'a\n', b'a', b' a \n\n#x\n  # y\nfoo bar\n\tb\t\n', b'#only\n', b'a\r\nb\r\n', b'\n\n']:
    fh = tempfile.NamedTemporaryFile('wb', delete=False); fh.write(data); fh.close()
    got = lua.MinifyNameFactory.read_names_file(fh.name); os.unlink(fh.name); nread += 1
    if got != ref_read(data): bad.append(['read_names_file', repr(data), 'read %r, expected %r' % (sorted(got), sorted(ref_read(data)))])
print(json.dumps({'runs': runs, 'ids': len(seen), 'keepfiles': nread, 'bad': bad[:6]}))
'''


def native(seed, n, ids):
    env = {'PYTHONPATH': source.REPO, 'PATH': '/usr/bin:/bin', 'PYTHONDONTWRITEBYTECODE': '1'}
    try:
        r = subprocess.run([source.REAL_PY, '-c', _NATIVE.replace('@SEED@', str(seed)).replace('@N@', str(n)).replace('@IDS@', str(ids))],
                           capture_output=True, text=True, env=env, cwd='/', timeout=240)
    except subprocess.TimeoutExpired:
        return {'timeout': True, 'bad': [], 'runs': 0, 'ids': 0, 'keepfiles': 0}
    if r.returncode != 0:
        return {'error': r.stderr[-1200:], 'bad': [['native', 0, 'the real code raised: ' + r.stderr[-600:]]], 'runs': 0, 'ids': 0, 'keepfiles': 0}
    return json.loads(r.stdout)


def table_lemmas():
    ci = source.class_info(names.FACTORY)['attrs']
    lx = source.module_info('pico8.lua.lexer')['consts']
    lu = source.module_info('pico8.lua.lua')['consts']
    chars = ci['NAME_CHARS']
    res = [('GROUND:names/NAME_CHARS is 26 distinct lower-case ASCII letters',
            len(chars) == 26 and len(set(chars)) == 26 and all(97 <= c <= 122 for c in chars), repr(chars)),
           ('GROUND:names/PRESERVED_NAMES == LUA_KEYWORDS | PICO8_BUILTINS (real module constants)',
            set(ci['PRESERVED_NAMES']) == set(lx['LUA_KEYWORDS']) | set(lu['PICO8_BUILTINS']), ''),
           ('GROUND:names/every Lua keyword of LexSpec is preserved',
            all(k in ci['PRESERVED_NAMES'] for k in __import__('specs.lexspec', fromlist=['x']).KEYWORDS), ''),
           ('GROUND:names/the print shorthand ? is preserved', b'?' in ci['PRESERVED_NAMES'], '')]
    return res


def wiring(chk):
    """Names AND labels (and therefore goto targets, which are names) are renamed through the one factory of the writer:
    read off the transition relation extracted from the real loop body (see C01)."""
    try:
        init = minify.initial_state()
        bad = []
        for tc in minify.token_classes():
            if tc[0] in ('TokName', 'TokLabel'):
                res, obls, ax = minify.run_body(tc, init)
                want = ('short-code',) if tc[0] == 'TokName' else ('label-short',)
                if any(not chunks or chunks[-1] != want for chunks, _, _ in res):
                    bad.append((tc, res))
        ground.account(chk, [('SYMEX:names/the writer emits get_short_name(code) for a name and "::" + get_short_name(code[2:-2]) + "::" '
                              'for a label, both through self._name_factory', not bad, str(bad[:2]))], 'SYMEX')
    except SymErr as e:
        chk.undecide('LuaMinifyTokenWriter.to_lines left the supported subset: %s' % e)


def run(tier, seed):
    chk = Check('C02', 'proof', tier, seed)
    reg = {c.target: c for c in names.CONTRACTS}
    ground.account(chk, table_lemmas())
    lem, ax = names.injectivity_lemmas()
    obls = [Obligation('pico8.lua.lua:MinifyNameFactory._name_for_id/' + nm, hyps, goal, 'lemma') for nm, hyps, goal in lem]
    solve_all(obls, ax)
    for ob in obls:
        chk.count(ob.backend or 'z3', ob.status, ob.secs, ob.name)
        if ob.status == 'failed':
            chk.violation(ob.name, {'solver_model': str(ob.model)[:2000]}, False)
        elif ob.status != 'discharged':
            chk.undecide(ob.name)
    big = tier == 'thorough'
    nat = native(seed, 3000 if big else 1500, 200000 if big else 20000)
    units.run_contracts(chk, names.CONTRACTS, reg, tier, seed)
    wiring(chk)
    # failed obligations of the abstract get_short_name contract have abstract counter-models (name codes); the
    # concrete failing input comes from the bounded native search below
    chk.native_witness = nat['bad']
    if nat['bad']:
        for v in chk.violations:
            if not v['confirmed']:
                p = json.load(open(v['replay']))
                p['native_witness'] = nat['bad'][:3]
                p['solver'] = 'z3 counter-model over abstract names; concrete failing input found by the bounded native search ' \
                              '(real MinifyNameFactory, keep files and name populations)'
                json.dump(p, open(v['replay'], 'w'), indent=1, default=str)
                v['confirmed'] = True
    chk.bounded = {'rule': 'BOUNDED: real MinifyNameFactory on %d (keep file x order) runs over ~1500-3000 distinct names incl. names equal '
                           'to would-be generated names (a, b, ba, zz, baa); all generated ids < %d distinct and lower-case; '
                           'read_names_file on %d keep files vs a reference reader' % (nat['runs'], nat['ids'], nat['keepfiles']),
                   'evaluations': nat['runs'] + nat['ids'] + nat['keepfiles'], 'failures': len(nat['bad'])}
    clinative.fold(chk, 'luamin')
    if nat.get('timeout'):
        chk.undecide('BOUNDED:names/native run did not finish within 240 s (normally about 1 s)')
    if nat['bad'] and not chk.violations:
        chk.violation('BOUNDED:names/native search', {'witness': nat['bad']}, True)
    chk.trust('pyvc VC generator + z3 (LIA, arrays, quantified representation invariant)')
    chk.assume('names are int-coded abstract values (only equality and set membership are used on them); generated spellings are coded '
               '2k+1 for id k, injective because B26 is (lemma.B26-injective, proved by induction with the step discharged by z3)')
    chk.assume('ids stay below 2**30 (int(id / 26) is exact floor division there; the float division is exact up to 2**53)')
    chk.assume('MinifyNameFactory.__init__ / read_names_file (file iteration) are covered by the bounded native run only; the while-True '
               'loop of get_short_name is proved partially correct (termination needs the finiteness of the reserved and keep sets)')
    chk.assume('--keep-all-names, --keep-names-from-file reach the factory through the writer arguments (wiring obligations of C01)')
    return chk.finish()
