"""C03: .p8 text cart write/read round trip preserves the whole cart.

  * Section codecs: every to_lines / from_lines is proved equal to the P8Spec text / bytes functions (contracts shared
    with C16, re-discharged here).  On top of them, SPEC-LEVEL inverse lemmas, discharged by z3 for all region contents:
        bytes_X(text_X(d)) == d        (music: up to bit 7 of each pattern's 4th channel byte, as the statement says)
        text_X(bytes_X(text_X(d))) == text_X(d)            (re-writing the re-read cart gives the same text)
        every row of text_X(d) is an in-format row (the precondition of the reader contracts).
  * Framing, read off the real source on every run (all control paths of the writer; loop body of the reader):
    the writer emits header, version line, __lua__, the code chunks through p8scii_to_unicode + UTF-8, a newline if the
    last chunk has none, __gfx__, optional __label__, a blank line, __gff__, __map__, __sfx__, __music__, a blank line --
    in that order on every path, everything to outstr; the reader groups the lines after a `__name__` line under that name,
    converts them with unicode_to_p8scii(str(line, 'utf-8')) and hands each group to the section class of that name.
  * P8SCII <-> Unicode is C15, the default Lua writer is C06.
  * BOUNDED: whole-file round trips of random carts through the real file objects.
"""
import ast
import json
import subprocess

from pyvc.report import Check
from pyvc import units, ground, source, effects
from pyvc import values as V
from pyvc.values import E, SSeq, SInt, AND, OR, NOT, implies, ite, seq_of, val_eq
from pyvc.execu import Obligation
from pyvc.solve import solve_all
from specs import p8spec as P
from contracts import p8text

P8 = 'pico8.game.formatter.p8'


# ------------------------------------------------------------------------------------------------ spec lemmas

def _obls(prefix, a, b, hyps=()):
    out = []
    for suf, cl in V.split_eq(a, b):
        if cl is True:
            continue
        out.append(Obligation(prefix + suf, list(hyps), V.tobool(cl), 'lemma'))
    return out


def spec_lemmas():
    """[(Obligation, axioms)] groups; everything is about the spec functions of specs/p8spec.py / contracts/p8text.py."""
    groups = []

    def group(build):
        E.reset('lia')
        obls = build()
        groups.append((obls, list(E.axioms)))

    def is_hex_lc(c):
        return OR(AND(c >= 48, c <= 57), AND(c >= 97, c <= 102))

    def gfx():
        d = V.byte_seq('gfx', 0x2000)
        rows = P.gfx_rows(d)
        o = _obls('LEMMA:p8spec/gfx: bytes(text(d)) == d', P.bytes_of_gfx_rows(rows), d)
        r, c = V.fresh_int('r'), V.fresh_int('c')
        o.append(Obligation('LEMMA:p8spec/gfx: every text row is 128 lower-case hex digits + newline', [],
                            V.tobool(implies(AND(r >= 0, r < 128, c >= 0, c < 128), is_hex_lc(rows.get(r).get(c)))), 'lemma'))
        return o

    def hexsec(name, size):
        def f():
            d = V.byte_seq(name, size)
            rows = P.hex_rows(d, 128)
            o = _obls('LEMMA:p8spec/%s: bytes(text(d)) == d' % name, P.bytes_of_hex_rows(rows, 128), d)
            r, c = V.fresh_int('r'), V.fresh_int('c')
            o.append(Obligation('LEMMA:p8spec/%s: every text row is 256 lower-case hex digits + newline' % name, [],
                                V.tobool(implies(AND(r >= 0, r < size // 128, c >= 0, c < 256), is_hex_lc(rows.get(r).get(c)))), 'lemma'))
            return o
        return f

    def sfx():
        d = V.byte_seq('sfx', 0x1100)
        rows = P.sfx_rows(d)
        o = []
        back = p8text.sfx_bytes(rows)
        pp = V.fresh_int('p')
        for off in range(68):
            o.append(Obligation('LEMMA:p8spec/sfx: bytes(text(d)) == d at offset %d of every pattern' % off, [],
                                V.tobool(implies(AND(pp >= 0, pp < 64), val_eq(back.get(pp * 68 + off), d.get(pp * 68 + off)))), 'lemma'))
        r = V.fresh_int('r')
        for c in range(168):
            ch = rows.get(r).get(c)
            m = p8text.sfx_digit_mask(c)
            o.append(Obligation('LEMMA:p8spec/sfx: column %d of every text row is a hex digit within the format limit' % c, [],
                                V.tobool(implies(AND(r >= 0, r < 64), AND(is_hex_lc(ch), P.hexv(ch) <= m))), 'lemma'))
        return o

    def music():
        d = V.byte_seq('music', 0x100)
        rows = P.music_rows(d)
        back = p8text.music_bytes(rows)
        want = seq_of(0x100, lambda i: ite(i % 4 == 3, d.get(i) % 128, d.get(i)), 'bytes')
        o = _obls("LEMMA:p8spec/music: bytes(text(d)) == d except bit 7 of each pattern's 4th channel byte", back, want)
        r = V.fresh_int('r')
        again = P.music_rows(back)
        for c in range(12):
            o.append(Obligation('LEMMA:p8spec/music: text(bytes(text(d))) == text(d) at column %d of every row (the re-written file is identical)' % c,
                                [], V.tobool(implies(AND(r >= 0, r < 64), val_eq(again.get(r).get(c), rows.get(r).get(c)))), 'lemma'))
        for c in range(11):
            ch = rows.get(r).get(c)
            if c == 2:
                cl = val_eq(ch, 32)
            else:
                cl = AND(is_hex_lc(ch), P.hexv(ch) <= p8text.music_mask(c))
            o.append(Obligation('LEMMA:p8spec/music: column %d of every text row is in format' % c, [], V.tobool(implies(AND(r >= 0, r < 64), cl)), 'lemma'))
        return o
    group(gfx)
    group(hexsec('gff', 0x100))
    group(hexsec('map', 0x1000))
    group(sfx)
    group(music)
    return groups


# ------------------------------------------------------------------------------------------------ framing

WRITER_ORDER = ['HEADER_TITLE_STR', "bytes('version %s\\n' % game.version, 'utf-8')", "b'__lua__\\n'", 'LUA*', 'NL?', "b'__gfx__\\n'", 'GFX*',
                'LABEL?', "b'\\n'", "b'__gff__\\n'", 'GFF*', "b'__map__\\n'", 'MAP*', "b'__sfx__\\n'", 'SFX*', "b'__music__\\n'", 'MUSIC*', "b'\\n'"]


def writer_obligations(chk):
    fn = source.find_function(P8 + ':P8Formatter.to_file')
    chk.functions.append({'function': fn.qual, 'file': 'pico8/game/formatter/p8.py', 'line': fn.line, 'sha256': fn.sha, 'ints': '-'})
    res = []
    outs = effects.Paths(may_raise=lambda c: False, dataflow=True, max_iter=1, limit=2000000).function(fn.node)
    # classify each write by the loop it sits in (syntactic): map `for line in X: outstr.write(E)` to a symbol
    loop_of = {}
    for n in ast.walk(fn.node):
        if isinstance(n, ast.For):
            for c in ast.walk(n):
                if isinstance(c, ast.Call) and ast.unparse(c.func) == 'outstr.write':
                    loop_of[ast.unparse(c.args[0])] = (ast.unparse(n.target), ast.unparse(n.iter))
    sym = {('line', 'game.lua.to_lines(writer_cls=lua_writer_cls, writer_args=lua_writer_args)'): 'LUA',
           ('line', 'game.gfx.to_lines()'): 'GFX', ('line', 'game.label.to_lines()'): 'LABELROW', ('line', 'game.gff.to_lines()'): 'GFF',
           ('line', 'game.map.to_lines()'): 'MAP', ('line', 'game.sfx.to_lines()'): 'SFX', ('line', 'game.music.to_lines()'): 'MUSIC'}
    import re
    pattern = re.compile(r"^H V L (LUA )*(NL )?G (GFX )*(LB (LABELROW )*)?B F (GFF )*M (MAP )*S (SFX )*U (MUSIC )*B $")
    short = {'HEADER_TITLE_STR': 'H', "bytes('version %s\\n' % game.version, 'utf-8')": 'V', "b'__lua__\\n'": 'L', "b'__gfx__\\n'": 'G',
             "b'__label__\\n'": 'LB', "b'\\n'": 'B', "b'__gff__\\n'": 'F', "b'__map__\\n'": 'M', "b'__sfx__\\n'": 'S', "b'__music__\\n'": 'U'}
    bad, npaths = [], 0
    other_streams = set()
    for kind, t in outs:
        if kind != 'return':
            continue
        npaths += 1
        seq, cur_iter = [], []
        iters = {}
        for e in t:
            if e[0] == 'iterate':
                iters[ast.unparse(e[1])] = ast.unparse(e[2])
            if e[0] == 'call' and e[1].endswith('.write') and e[1] != 'outstr.write':
                other_streams.add(e[1])
            if e[0] == 'call' and e[1] == 'outstr.write':
                arg = e[2][0]
                if arg in short:
                    s = short[arg]
                elif arg == "bytes(lua.p8scii_to_unicode(line), 'utf-8')" and sym.get(('line', iters.get('line'))) == 'LUA':
                    s = 'LUA'
                elif arg == 'line' and ('line', iters.get('line')) in sym:
                    s = sym[('line', iters.get('line'))]
                else:
                    s = '?' + arg
                seq.append(s)
        # the newline supplied after the code: `if not ended_in_newline: outstr.write(b'\n')` directly after the Lua loop
        txt = ' '.join(seq) + ' '
        txt2 = re.sub(r"^(H V L (?:LUA )*)B G ", r"\1NL G ", txt)
        if not pattern.match(txt2):
            bad.append(txt[:200])
    res.append(('PATHS:p8-writer/on all %d paths the chunks are written in the order header, version, __lua__, code chunks (through '
                'p8scii_to_unicode, UTF-8), optional newline, __gfx__ rows, optional __label__ rows, blank, __gff__, __map__, __sfx__, '
                '__music__ rows, blank' % npaths, not bad and npaths > 0, str(bad[:2])))
    res.append(('PATHS:p8-writer/every write goes to outstr', not other_streams, str(sorted(other_streams))))
    t = ast.unparse(fn.node)
    ok = "ended_in_newline = None" in t and "ended_in_newline = line.endswith(b'\\n')" in t and \
        "if not ended_in_newline:\n        outstr.write(b'\\n')" in t.replace('    if not ended_in_newline:\n        outstr.write', 'if not ended_in_newline:\n        outstr.write')
    res.append(('SHAPE:p8-writer/a newline is supplied after the code exactly when the last chunk does not end in one (or there is no code)', ok, ''))
    ok = 'if game.label:' in t
    res.append(('SHAPE:p8-writer/the __label__ section is written iff the cart has a label', ok, ''))
    return res


def reader_obligations(chk):
    fn = source.find_function(P8 + ':_get_raw_data_from_p8_file')
    chk.functions.append({'function': fn.qual, 'file': 'pico8/game/formatter/p8.py', 'line': fn.line, 'sha256': fn.sha, 'ints': '-'})
    res = []
    t = ast.unparse(fn.node)
    loop = [n for n in ast.walk(fn.node) if isinstance(n, ast.While)]
    ok = len(loop) == 1
    if ok:
        body = [ast.unparse(s) for s in loop[0].body]
        want = ['line = instr.readline()', 'if not line:\n    break', 'section_delim_m = SECTION_DELIM_RE.match(line)',
                "if section_delim_m:\n    section = str(section_delim_m.group(1), encoding='utf-8')\n    section_lines[section] = []\n"
                "elif section:\n    p8scii_line = lua.unicode_to_p8scii(str(line, encoding='utf-8'))\n    section_lines[section].append(p8scii_line)"]
        ok = body == want
    res.append(('SHAPE:p8-reader/loop body: a `__name__` line opens the group `name`; any other line after the first opener is appended, converted '
                'by unicode_to_p8scii(str(line, utf-8)), to the group of the most recent opener; nothing else', ok, '' if ok else str(body)[:300]))
    ok = 'header_title_str = instr.readline()' in t and 'if header_title_str != HEADER_TITLE_STR:\n        raise InvalidP8HeaderError()' in t and \
        'version = int(version_m.group(1))' in t and 'data.version = version' in t and 'data.section_lines = section_lines' in t and \
        'section = None\n    section_lines = {}' in t
    res.append(('SHAPE:p8-reader/the first line must be the header, the second `version N`; N becomes the version; groups start empty', ok, ''))
    mod = source.mod_ast(P8)[0]
    pats = {}
    for n in mod.body:
        if isinstance(n, ast.Assign) and isinstance(n.value, ast.Call) and ast.unparse(n.value.func) == 're.compile':
            try:
                pats[ast.unparse(n.targets[0])] = ast.literal_eval(n.value.args[0])
            except Exception:
                pass
    ok = pats.get('SECTION_DELIM_RE') == rb'__(\w+)__\n' and pats.get('HEADER_VERSION_RE') == rb'version (\d+)\n'
    res.append(('GROUND:p8-reader/SECTION_DELIM_RE is __(\\w+)__\\n and no row of any section text starts with "_" (rows are hex digits, blanks or '
                'the blank separator line), so a data row is never taken for an opener', ok, str(pats)))
    ff = source.find_function(P8 + ':P8Formatter.from_file')
    chk.functions.append({'function': ff.qual, 'file': 'pico8/game/formatter/p8.py', 'line': ff.line, 'sha256': ff.sha, 'ints': '-'})
    ft = ast.unparse(ff.node)
    pairs = [("'gfx'", 'new_game.gfx = Gfx.from_lines(data.section_lines[section], version=data.version)'),
             ("'gff'", 'new_game.gff = Gff.from_lines(data.section_lines[section], version=data.version)'),
             ("'map'", 'new_game.map = Map.from_lines(data.section_lines[section], version=data.version, gfx=my_gfx)'),
             ("'sfx'", 'new_game.sfx = Sfx.from_lines(data.section_lines[section], version=data.version)'),
             ("'music'", 'new_game.music = Music.from_lines(data.section_lines[section], version=data.version)'),
             ("'label'", 'new_game.label = Gfx.from_lines(data.section_lines[section], version=data.version)')]
    ok = all(("section == %s:" % k) in ft and v in ft for k, v in pairs) and 'new_game.lua = lua.Lua.from_lines(lualines, version=data.version)' in ft \
        and 'new_game.version = data.version' in ft and 'new_game.label = None' in ft and 'new_game = Game.make_empty_game(filename=filename)' in ft \
        and 'raise InvalidP8SectionError(section)' in ft and 'my_map._gfx = new_game.gfx' in ft and "my_gfx = getattr(new_game, 'gfx')" in ft
    res.append(('SHAPE:p8-reader/each group goes to the section class of its name (label -> Gfx), lua through Lua.from_lines, version and "no '
                'label unless present" are set, the map shares the gfx whichever section comes first, an unknown name is an error', ok, ''))
    mf = ast.unparse(source.find_function('pico8.map.map:Map.from_lines').node)
    ok = 'result = super().from_lines(*args, **kwargs)' in mf and 'result._gfx = gfx' in mf
    res.append(('SHAPE:map/Map.from_lines is BaseSection.from_lines plus the gfx reference', ok, mf[-200:] if not ok else ''))
    return res


_NATIVE = r'''
import io, json, os, random, shutil, tempfile
from pico8.game import file as pfile, game
from pico8.game.formatter import p8 as p8fmt
from pico8 import util
util.set_verbosity(util.VERBOSITY_QUIET)
rnd = random.Random(@SEED@)
work = os.path.realpath(tempfile.mkdtemp(prefix='c03_'))
def rand_game(code_lines, label, fill):
    g = game.Game.make_empty_game(filename='x.p8')
    g.lua.update_from_lines(code_lines)
    for s in ('gfx', 'gff', 'map', 'sfx', 'music'):
        d = getattr(g, s)._data
        for i in range(len(d)): d[i] = fill(i)
    for i in range(3, 0x100, 4): g.music._data[i] &= 0x7f          # the one bit the format has no place for
    if label:
        for i in range(len(g.label._data)): g.label._data[i] = rnd.randint(0, 255)
    else:
        g.label = None
    g.version = rnd.choice([0, 5, 8, 16, 29, 41, 255])
    return g
allbytes = bytes(b for b in range(1, 256) if b not in (10, 13, 34, 92))
codes = [[], [b'x = 1\n'], [b'x = 1'], [b'-- ' + allbytes + b'\n', b's = "' + allbytes.replace(b'\x00', b'') + b'"\n'],
         [b'\x80\x81 = "\xff\xfe"\n', b'print(\x80\x81)'], [b'a = 1\n', b'\n', b'b = 2\n', b'\n'],
         [b'-- ' + bytes(b for b in range(1, 32) if b not in (10, 13)) + b'\x7f\n', b's = "' + bytes(range(14, 32)) + b'\x7f"\n', b'x = 1 -- \x10\n'],      # control glyphs on lines without any high byte
         [b'-- title\r\n', b'x = 1\r\n'], [b's = [[one\r\ntwo]]\n', b'y = 2\r', b'z = 3\n'], [b'-- \r\r\n', b'\r\n', b'w = 4\n\r']]     # CR is a P8SCII byte like any other
fills = [lambda i: 0, lambda i: 255, lambda i: i & 255, lambda i: rnd.randint(0, 255), lambda i: (i * 7 + 3) & 255, lambda i: 0x80 | (i & 0x7f)]
bad, n = [], 0
for ci, code in enumerate(codes):
    for fi, fill in enumerate(fills):
        for label in (False, True):
            if (ci + fi) % 2 and label: continue
            n += 1
            g = rand_game(list(code), label, fill)
            a = os.path.join(work, 'a%d.p8' % n); b = os.path.join(work, 'b%d.p8' % n)
            try:
                pfile.to_file(g, a)
                g2 = pfile.from_file(a)
            except Exception as e:
                bad.append(['cart %d' % n, 'raised %s: %s' % (type(e).__name__, e)]); continue
            # the code as the default writer emits it (string literals may be re-spelled value-preservingly: C06)
            want_code = b''.join(g.lua.to_lines())
            if want_code and not want_code.endswith(b'\n'): want_code += b'\n'
            got_code = b''.join(g2.lua.to_lines())
            if got_code != (want_code or b'\n') and got_code != want_code: bad.append(['cart %d' % n, 'code %r != %r' % (got_code[:60], want_code[:60])])
            for s in ('gfx', 'gff', 'map', 'sfx', 'music'):
                if bytes(getattr(g2, s)._data) != bytes(getattr(g, s)._data): bad.append(['cart %d' % n, 'region %s differs' % s])
            if (g2.label is None) != (g.label is None): bad.append(['cart %d' % n, 'label presence differs'])
            elif g.label is not None and bytes(g2.label._data) != bytes(g.label._data): bad.append(['cart %d' % n, 'label differs'])
            if g2.version != g.version: bad.append(['cart %d' % n, 'version %r != %r' % (g2.version, g.version)])
            pfile.to_file(g2, b)
            if open(a, 'rb').read() != open(b, 'rb').read(): bad.append(['cart %d' % n, 're-written file is not byte-identical'])
shutil.rmtree(work, ignore_errors=True)
print(json.dumps({'n': n, 'bad': bad[:8]}))
'''


def native(seed):
    env = {'PYTHONPATH': source.REPO, 'PATH': '/usr/bin:/bin', 'PYTHONDONTWRITEBYTECODE': '1', 'HOME': '/nonexistent'}
    try:
        r = subprocess.run([source.REAL_PY, '-c', _NATIVE.replace('@SEED@', str(seed))], capture_output=True, text=True, env=env, cwd='/', timeout=900)
    except subprocess.TimeoutExpired:
        return {'timeout': True, 'n': 0, 'bad': []}
    if r.returncode != 0:
        return {'error': r.stderr[-1500:], 'n': 0, 'bad': []}
    return json.loads(r.stdout)


def run(tier, seed):
    chk = Check('C03', 'proof', tier, seed)
    reg = units.registry()
    # 1. spec-level lemmas
    for obls, ax in spec_lemmas():
        solve_all(obls, ax)
        for ob in obls:
            chk.count(ob.backend or 'z3', ob.status, ob.secs, ob.name)
            if ob.status == 'failed':
                chk.violation(ob.name, {'solver_model': str(ob.model)[:1500], 'solver': 'spec-level lemma refuted (the format spec itself is not invertible)'}, False)
            elif ob.status != 'discharged':
                chk.undecide(ob.name)
    # 2. code == spec (the codec contracts shared with C16) + P8SCII converters (C15)
    cs = list(p8text.CONTRACTS) + [reg[t] for t in ('pico8.sfx.sfx:Sfx.get_note', 'pico8.sfx.sfx:Sfx.set_note', 'pico8.sfx.sfx:Sfx.get_properties',
                                                    'pico8.sfx.sfx:Sfx.set_properties')]
    units.run_contracts(chk, cs, reg, tier, seed)
    # 3. framing
    try:
        ground.account(chk, writer_obligations(chk), 'PATHS')
        ground.account(chk, reader_obligations(chk), 'SHAPE')
    except (NotImplementedError, effects.TooManyPaths) as e:
        chk.undecide('the .p8 writer left the subset of the path analysis: %r' % (e,))
    nat = native(seed)
    if nat.get('timeout') or nat.get('error'):
        chk.undecide('BOUNDED:c03/native round trips did not finish: %s' % (nat.get('error') or 'timeout'))
    chk.native_witness = nat.get('bad')
    for v in chk.violations:
        if not v['confirmed'] and nat.get('bad'):
            p = json.load(open(v['replay']))
            p['native_witness'] = nat['bad'][:3]
            json.dump(p, open(v['replay'], 'w'), indent=1, default=str)
            v['confirmed'] = True
    chk.bounded = {'rule': 'BOUNDED: carts with regions filled by six patterns (0, 255, ramp, random, affine, high bit set), with and without label, '
                           'versions incl. 0 and 255, Lua sources incl. all byte values in comments/strings, glyph identifiers, missing final '
                           'newline, blank lines; written and re-read through the real file objects, every region / label / version / code '
                           'compared, and the re-written file compared byte for byte', 'evaluations': nat.get('n', 0), 'failures': len(nat.get('bad', []))}
    if nat.get('bad') and not chk.violations:
        chk.violation('BOUNDED:c03/native .p8 round trip', {'witness': nat['bad'][:5]}, True)
    chk.trust('pyvc VC generator + z3 (codec contracts, spec-level inverse lemmas); control-path enumeration for the writer')
    chk.assume('instr.readline() yields the lines of the file and outstr.write appends (file objects); UTF-8 encode/decode of the 256 glyph spellings '
               'is the identity (GROUND in C15); P8SCII <-> Unicode bijection is C15; the default Lua writer echoes the code is C06')
    chk.assume('regions have their PICO-8 sizes; Lua lines that read as a __section__ header are outside the format (excluded by the statement)')
    chk.assume('the composition read(write(g)) == g follows from: writer order + reader grouping (framing obligations), code == spec for every codec '
               '(contracts), and the spec-level inverse lemmas; the composition itself is exercised by the bounded run')
    return chk.finish()
