"""C20: #include splices exactly the named file or cart tab at the include line."""
import ast
import json
import re
import subprocess

from pyvc.report import Check
from pyvc import units, source, effects, ground, reglang as R
from contracts import includes

P8 = 'pico8.game.formatter.p8'


def regex_facts():
    mi_src = source.mod_ast(P8)[0]
    pats = {}
    for n in mi_src.body:
        if isinstance(n, ast.Assign) and len(n.targets) == 1 and isinstance(n.targets[0], ast.Name) and isinstance(n.value, ast.Call) \
                and ast.unparse(n.value.func) == 're.compile':
            try:
                pats[n.targets[0].id] = ast.literal_eval(n.value.args[0])
            except Exception:
                pass
    res = []
    tab = pats.get('TAB_LINE_RE')
    res.append(('GROUND:include/TAB_LINE_RE is the editor tab separator "-->8" (matched at the start of a line)', tab == rb'-->8', repr(tab)))
    inc = pats.get('INCLUDE_LINE_RE')
    ok = False
    detail = repr(inc)
    if inc is not None:
        try:
            m = R.Matcher(R.build(inc))
            # REG facts: what an include line looks like -- and that ordinary code lines are not include lines
            yes = [b'#include a.lua', b'  #include lib/x.p8', b'#include  c.p8.png:3', b'\t#include a.p8:0\n']
            no = [b'x = 1\n', b'-- #include a.lua\n', b'#includea.lua', b'#include a.txt', b'include a.lua', b'']
            ok = all(m.longest(s) is not None for s in yes) and all(m.longest(s) is None for s in no)
            rx = re.compile(inc)
            g = rx.match(b'#include lib/x.p8.png:12').groups()
            ok = ok and g == (b'lib/x', b'.p8.png', b':12') and rx.match(b'#include a.lua').groups() == (b'a', b'.lua', None)
            detail = str(g)
        except R.Unsupported as e:
            detail = str(e)
    res.append(('REG:include/INCLUDE_LINE_RE accepts "#include NAME(.lua|.p8|.p8.png)[:n]" (optionally indented), captures name, extension '
                'and tab, and rejects code and comment lines', ok, detail))
    return res


def shape_obligations(chk):
    """Dataflow facts on every control path of the real process_includes (loop body taken up to twice)."""
    fn = source.find_function(P8 + ':process_includes')
    chk.functions.append({'function': fn.qual, 'file': 'pico8/game/formatter/p8.py', 'line': fn.line, 'sha256': fn.sha, 'ints': '-'})
    loops = [n for n in fn.node.body if isinstance(n, ast.For)]
    res = []
    if len(loops) != 1 or ast.unparse(loops[0].iter) != 'lualines' or ast.unparse(loops[0].target) != 'line':
        return [('SHAPE:include/process_includes is one loop over lualines', 'undecided', '')]
    body = loops[0].body
    # the body, once, on all paths: which values are yielded, in which order, under which conditions
    P = effects.Paths(may_raise=lambda c: False, dataflow=True)
    outs = P.block(body, [()])
    paths = [('normal', t) for t in outs['normal']] + [('continue', t) for t in outs['continue']] + [('raise', t) for t in outs['raise']]
    yields = []          # per path: list of (yield expr text, enclosing loop iter text or None)
    # yield statements with their enclosing for loops (syntactic)
    ycontext = {}
    def walk(stmts, loops_):
        for s in stmts:
            for n in ast.walk(s) if not isinstance(s, (ast.For, ast.If, ast.With, ast.Try)) else []:
                if isinstance(n, ast.Yield):
                    ycontext[id(n)] = (ast.unparse(n.value), tuple(loops_))
            if isinstance(s, ast.For):
                walk(s.body, loops_ + [(ast.unparse(s.target), ast.unparse(s.iter))])
            elif isinstance(s, ast.If):
                walk(s.body, loops_)
                walk(s.orelse, loops_)
            elif isinstance(s, ast.With):
                walk(s.body, loops_)
            elif isinstance(s, ast.Try):
                walk(s.body, loops_)
                for h in s.handlers:
                    walk(h.body, loops_)
    walk(body, [])
    ys = sorted(ycontext.values())
    want = sorted([('line', ()), ('line', (('line', 'lines_for_tab(inc_game.lua.to_lines(), inc_tab)'),)), ('line', (('line', 'fh'),))])
    res.append(('SHAPE:include/the loop body yields only: the line itself, the lines of lines_for_tab(inc_game.lua.to_lines(), inc_tab), or the '
                'lines of the opened file', 'discharged' if ys == want else 'failed', str(ys)))
    # not-an-include path: yields exactly `line`, then continues; include path: never yields the include line itself
    first = body[0] if body else None
    second = body[1] if len(body) > 1 else None
    ok1 = isinstance(first, ast.Assign) and ast.unparse(first) == 'm = INCLUDE_LINE_RE.match(line)' and isinstance(second, ast.If) and \
        ast.unparse(second.test) == 'not m' and [ast.unparse(x) for x in second.body] == ['yield line', 'continue'] and not second.orelse
    res.append(('SHAPE:include/a line that is not an include line is yielded unchanged and nothing else happens for it; an include line is '
                'not yielded', 'discharged' if ok1 and not any(isinstance(n, ast.Yield) and ast.unparse(n.value) == 'line' and
                                                               ycontext[id(n)][1] == () for s in body[2:] for n in ast.walk(s)) else 'failed', ''))
    # the included cart is loaded from inc_full_path with do_includes=False (no nested expansion), fresh in this iteration
    txt = ast.unparse(loops[0])
    ok2 = 'inc_game = p8_fmt_cls.from_file(fh, filename=inc_full_path, do_includes=False)' in txt and \
        "with open(inc_full_path, 'rb') as fh:" in txt and \
        "p8_fmt_cls = P8Formatter if inc_extension == '.p8' else P8PNGFormatter" in txt
    res.append(('SHAPE:include/a cart target is loaded afresh from inc_full_path by the formatter of its extension with do_includes=False '
                '(includes inside included carts are not expanded)', 'discharged' if ok2 else 'failed', ''))
    # tab selector: inc_tab = int(text after ':') or None
    stmts = {l.strip() for l in txt.splitlines()}
    ok3 = 'inc_tab = None' in stmts and 'inc_tab = int(inc_tab_str[1:])' in stmts and "inc_tab_str = str(inc_tab_b, encoding='utf-8')" in stmts \
        and 'inc_path_b, inc_extension_b, inc_tab_b = m.groups()' in stmts and 'if inc_tab_b:' in stmts and \
        sum(1 for l in stmts if l.startswith('inc_tab =')) == 2
    res.append(('SHAPE:include/the tab selector is the number after ":" (None when absent) and the target is NAME + extension', 'discharged' if ok3 else 'failed', ''))
    # missing target => error before anything of it is read: on every path to an open(), `not os.path.isfile(inc_full_path)` was false
    bad = []
    for kind, t in paths:
        checked = False
        for e in t:
            if e[0] == 'assume' and ast.unparse(e[1]) == 'not os.path.isfile(inc_full_path)' and e[2] is False:
                checked = True
            if e[0] == 'call' and e[1] == 'open' and not checked:
                bad.append('open without the isfile test')
    raises = [ast.unparse(s) for s in ast.walk(loops[0]) if isinstance(s, ast.Raise)]
    ok4 = not bad and 'raise P8IncludeNotFound()' in raises
    res.append(('SHAPE:include/a missing target raises P8IncludeNotFound before any file is opened (on all %d paths of the loop body)' % len(paths),
                'discharged' if ok4 else 'failed', str(bad[:2])))
    # P8Formatter.from_file wires process_includes(lualines, filename) under do_includes only
    ff = source.find_function(P8 + ':P8Formatter.from_file')
    t2 = ast.unparse(ff.node)
    ok5 = 'if do_includes:\n                    lualines = process_includes(lualines, filename)' in t2.replace('\n    ', '\n    ') or \
        ('if do_includes:' in t2 and 'lualines = process_includes(lualines, filename)' in t2)
    res.append(('SHAPE:include/P8Formatter.from_file expands includes of the __lua__ section only when do_includes is set', 'discharged' if ok5 else 'failed', ''))
    return res


_NATIVE = r'''
import itertools, json, os, tempfile, shutil, random
from pico8.game import file as pfile
from pico8.game.formatter import p8 as p8fmt
from pico8 import util
util.set_verbosity(util.VERBOSITY_QUIET)
work = os.path.realpath(tempfile.mkdtemp(prefix='c20_'))
HDR = b'pico-8 cartridge // http://www.pico-8.com\nversion 8\n__lua__\n'
def cart(path, lines):
    open(path, 'wb').write(HDR + b''.join(lines))
rnd = random.Random(@SEED@)
os.makedirs(os.path.join(work, 'sub'))
tabs = [[b'-- tab0 a\n', b't0 = 0\n'], [b'-- tab1\n'], [], [b't3 = 3\n', b't3b = 33\n', b'#include never.lua\n']]
libl = []
for i, t in enumerate(tabs):
    if i: libl.append(b'-->8\n')
    libl += t
cart(os.path.join(work, 'lib.p8'), libl)
cart(os.path.join(work, 'sub', 'lib2.p8'), [b'l2 = 2\n', b'-->8\n', b'l2b = 22\n'])
open(os.path.join(work, 'a.lua'), 'wb').write(b'a1 = 1\na2 = 2\n')
open(os.path.join(work, 'sub', 'b.lua'), 'wb').write(b'b1 = 1\n')
# targets whose last line has no line end: the spliced lines are the file's own lines, nothing is added
open(os.path.join(work, 'noeol.lua'), 'wb').write(b'n1 = 1\nn2 = 2')
open(os.path.join(work, 'oneline.lua'), 'wb').write(b'o = 1')
open(os.path.join(work, 'noeol.p8'), 'wb').write(HDR + b'p1 = 1\n-->8\np2 = 2')
# a .p8.png target: write lib.p8 as png
g = pfile.from_file(os.path.join(work, 'sub', 'lib2.p8'))
pfile.to_file(g, os.path.join(work, 'libpng.p8.png'))
def tab_lines(all_lines, n):
    cur, out = 0, []
    for l in all_lines:
        if l.startswith(b'-->8'):
            cur += 1
            if n is None: out.append(l)
        elif n is None or n == cur: out.append(l)
    return out
TARGETS = {b'a.lua': [b'a1 = 1\n', b'a2 = 2\n'], b'sub/b.lua': [b'b1 = 1\n'], b'lib.p8': tab_lines(libl, None), b'sub/lib2.p8': [b'l2 = 2\n', b'-->8\n', b'l2b = 22\n'],
           b'libpng.p8.png': [b'l2 = 2\n', b'-->8\n', b'l2b = 22\n'],
           b'noeol.lua': [b'n1 = 1\n', b'n2 = 2'], b'oneline.lua': [b'o = 1'], b'noeol.p8': [b'p1 = 1\n', b'-->8\n', b'p2 = 2'], b'noeol.p8:1': [b'p2 = 2'],
           b'noeol.p8:0': [b'p1 = 1\n']}
for n in range(0, 6):
    TARGETS[b'lib.p8:%d' % n] = tab_lines(libl, n)
# the Lua code of a .p8.png cart is what the cart loader reports for it (the reader normalises the trailing newline)
pnglines = list(pfile.from_file(os.path.join(work, 'libpng.p8.png')).lua.to_lines())
TARGETS[b'libpng.p8.png'] = tab_lines(pnglines, None)
for n in range(0, 4):
    TARGETS[b'libpng.p8.png:%d' % n] = tab_lines(pnglines, n)
names = sorted(TARGETS)
plain = [b'x = 1\n', b'-- comment\n', b'print("#include a.lua")\n', b'\n']
bad, n = [], 0
def run(lines):
    global n
    n += 1
    main = os.path.join(work, 'main.p8')
    cart(main, lines)
    want = []
    for l in lines:
        if l.lstrip().startswith(b'#include'):
            want += TARGETS[l.split()[1]]
        else:
            want.append(l)
    try:
        got = list(pfile.from_file(main).lua.to_lines())
    except Exception as e:
        bad.append([b''.join(lines).decode('latin1'), 'raised %s: %s' % (type(e).__name__, e)]); return
    if b''.join(got) != b''.join(want):
        if len(bad) < 6: bad.append([b''.join(lines).decode('latin1'), 'got %r expected %r' % (b''.join(got)[:200], b''.join(want)[:200])])
# one include at every position among up to 3 plain lines
for name in names:
    for k in range(0, 3):
        for pos in range(k + 1):
            ls = [plain[i %% len(plain)] for i in range(k)]
            ls.insert(pos, b'#include ' + name + b'\n')
            run(ls)
# several includes, including the same target twice
for _ in range(@R@):
    k = rnd.randint(2, 5)
    ls = []
    for _ in range(k):
        ls.append(b'#include ' + rnd.choice(names) + b'\n' if rnd.random() < 0.6 else rnd.choice(plain))
    run(ls)
for name in (b'lib.p8', b'a.lua'):
    run([b'#include ' + name + b'\n', b'#include ' + name + b'\n'])
    run([b'#include lib.p8:0\n', b'#include lib.p8:1\n', b'#include lib.p8\n'])
# missing target
missing_ok = True
for name in (b'nope.lua', b'nope.p8', b'sub/nope.p8.png:1'):
    main = os.path.join(work, 'main.p8'); cart(main, [b'x = 1\n', b'#include ' + name + b'\n'])
    try:
        pfile.from_file(main); missing_ok = False
    except p8fmt.P8IncludeNotFound: pass
    except Exception as e: missing_ok = False
if not missing_ok: bad.append(['missing target', 'no P8IncludeNotFound'])
shutil.rmtree(work, ignore_errors=True)
print(json.dumps({'n': n, 'bad': bad[:6]}))
'''


def native(seed, reps):
    env = {'PYTHONPATH': source.REPO, 'PATH': '/usr/bin:/bin', 'PYTHONDONTWRITEBYTECODE': '1', 'HOME': '/nonexistent'}
    script = _NATIVE.replace('@SEED@', str(seed)).replace('@R@', str(reps)).replace('%%', '%')
    try:
        r = subprocess.run([source.REAL_PY, '-c', script], capture_output=True, text=True, env=env, cwd='/', timeout=600)
    except subprocess.TimeoutExpired:
        return {'timeout': True, 'n': 0, 'bad': []}
    if r.returncode != 0:
        return {'error': r.stderr[-1500:], 'n': 0, 'bad': []}
    return json.loads(r.stdout)


def run(tier, seed):
    chk = Check('C20', 'proof', tier, seed)
    reg = {c.target: c for c in includes.CONTRACTS}
    ground.account(chk, regex_facts())
    units.run_contracts(chk, includes.CONTRACTS, reg, tier, seed)
    nat = native(seed, 2000 if tier == 'thorough' else 300)
    if nat.get('timeout') or nat.get('error'):
        chk.undecide('BOUNDED:c20/native run did not finish: %s' % (nat.get('error') or 'timeout'))
    try:
        shapes = shape_obligations(chk)
    except (NotImplementedError, effects.TooManyPaths) as e:
        chk.undecide('process_includes left the subset of the path analysis: %r' % (e,))
        shapes = []
    for name, status, detail in shapes:
        chk.count('SHAPE', status, 0.0, name)
        if status == 'failed' and not nat.get('bad'):
            chk.undecide('%s -- the source no longer has the shape this obligation was written for and the bounded run found no failing input: '
                         'the contract must be re-derived (%s)' % (name, str(detail)[:200]))
        elif status == 'failed':
            chk.violation(name, {'solver': 'syntactic / dataflow obligation on the enumerated paths of the real loop body; concrete failing '
                                           'input from the bounded native run', 'witness': detail, 'native_witness': nat.get('bad', [])[:3]},
                          bool(nat.get('bad')))
        elif status != 'discharged':
            chk.undecide(name)
    for v in chk.violations:
        if not v['confirmed'] and nat.get('bad'):
            p = json.load(open(v['replay']))
            p['native_witness'] = nat['bad'][:3]
            json.dump(p, open(v['replay'], 'w'), indent=1, default=str)
            v['confirmed'] = True
    chk.bounded = {'rule': 'BOUNDED: carts with one include line at every position among up to 3 lines for each of %d targets (.lua, .p8, '
                           '.p8.png, in subdirectories, tab selectors 0..number of tabs + 1), random carts with several includes (same target '
                           'repeated), missing targets; loaded through file.from_file and compared with a reference splice' % 22,
                   'evaluations': nat.get('n', 0), 'failures': len(nat.get('bad', []))}
    if nat.get('bad') and not chk.violations:
        chk.violation('BOUNDED:c20/native splice differs from the reference splice', {'witness': nat['bad'][:4]}, True)
    chk.trust('pyvc VC generator + z3 for lines_for_tab (loop invariant over the real loop, concatenation model); control-path enumeration '
              'with dataflow events for process_includes')
    chk.assume('lines are opaque values; `TAB_LINE_RE.match(line)` is an uninterpreted predicate of the line (what the pattern accepts is the '
               'GROUND/REG fact)')
    chk.assume('process_includes: the composition "output == concatenation of expand(line)" follows from the SHAPE obligations (each '
               'iteration yields either the line or the target lines, in order); file reads return the file\'s lines; Lua.to_lines of the '
               'included cart returns its code lines (C06)')
    return chk.finish()
