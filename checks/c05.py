"""C05: code compression is lossless and emits only well-formed :c: streams."""
import json
import subprocess

from pyvc.report import Check
from pyvc import units, ground, source
from contracts import compress, p8png
from specs import cspec

_NATIVE = r'''
import itertools, json, sys
from pico8.game import compress
from pico8.game.formatter import p8png
sys.path.insert(0, @VERIF@)
TABLE = compress.COMPRESSED_LUA_CHAR_TABLE
def ref_decode(stream):
    S = list(stream); T = []; i = 0
    while i < len(S):
        c = S[i]
        if c == 0: T.append(S[i+1]); i += 2
        elif c <= 59: T.append(TABLE[c]); i += 1
        else:
            off, ln = (c - 60) * 16 + (S[i+1] & 15), (S[i+1] >> 4) + 2
            assert 3 <= ln <= 17 and 1 <= off <= len(T), 'malformed block'
            for _ in range(ln): T.append(T[len(T) - off])
            i += 2
    return bytes(T)
def ref_decode_n(stream, n):
    S = list(stream); T = []; i = 0
    while len(T) < n:
        c = S[i]
        if c == 0: T.append(S[i+1]); i += 2
        elif c <= 59: T.append(TABLE[c]); i += 1
        else:
            off, ln = (c - 60) * 16 + (S[i+1] & 15), (S[i+1] >> 4) + 2
            assert 3 <= ln <= 17 and 1 <= off <= len(T), 'malformed block'
            for _ in range(ln): T.append(T[len(T) - off])
            i += 2
    return bytes(T[:n])
alpha = [ord('a'), ord('b'), 10, 0x80]        # table char, second table char (repeats), newline, non-table byte
bad, n = [], 0
for L in range(0, @L@):
    for t in itertools.product(alpha, repeat=L):
        x = bytes(t); n += 1
        comp = compress.compress_code(x)
        if ref_decode(comp) != x: bad.append([x.hex(), 'reference decoder disagrees'])
        area = bytes([58, 99, 58, 0, len(x) >> 8, len(x) & 255, 0, 0]) + bytes(comp) + bytes(4)
        if compress.decompress_code(area)[1] != x: bad.append([x.hex(), 'decompress_code disagrees'])
# every byte value (all 59 table characters, the table's placeholder spelling, every non-table byte) as a literal, in a run and in a
# repeated pattern
for b in range(1, 256):
    for x in (bytes([b]), bytes([b, 97]), bytes([97, b]), bytes([b]) * 5, b'ab' + bytes([b]) + b'ab' + bytes([b]) + b'ab' + bytes([b])):
        n += 1
        comp = compress.compress_code(x)
        try:
            got = ref_decode(comp)
        except Exception as e:
            got = repr(e)
        if got != x: bad.append([x.hex(), 'reference decoder disagrees'])
        area = bytes([58, 99, 58, 0, len(x) >> 8, len(x) & 255, 0, 0]) + bytes(comp) + bytes(4)
        try:
            got = compress.decompress_code(area)[1]
        except Exception as e:
            got = repr(e)
        if got != x: bad.append([x.hex(), 'decompress_code disagrees'])
# hand-made well-formed streams (not produced by picotool's compressor): back-references of every length 3..17 at every offset 1..6, so
# that copies overlap themselves (offset < length); chains of two references
def lit(c): return bytes([TABLE.index(c)]) if c in TABLE[1:] else bytes([0, c])
def ref(off, ln): return bytes([(off >> 4) + 60, ((ln - 2) << 4) | (off & 15)])
for off in range(1, 7):
    for ln in range(3, 18):
        for head in (b'abcdef'[:max(off, 1)], b'xyzxyz'[:off] if off <= 6 else b'', b'\x80\x81ab\n '[:off]):
            if len(head) < off: continue
            for tail in (b'', ref(2, 3) if off + ln >= 2 else b'', ref(min(off + ln, 7), 5)):
                stream = b''.join(lit(c) for c in head) + ref(off, ln) + tail
                n += 1
                try:
                    want = ref_decode(stream)
                except AssertionError:
                    continue
                area = bytes([58, 99, 58, 0, len(want) >> 8, len(want) & 255, 0, 0]) + stream + bytes(4)
                try:
                    got = compress.decompress_code(area)[1]
                except Exception as e:
                    got = repr(e)
                if got != want: bad.append([stream.hex(), 'decompress_code disagrees with the reference decoder on a hand-made well-formed stream (offset %d, length %d)' % (off, ln)])
# whole code areas through the real writer / reader pair: texts that do and do not mention _update60 (the compatibility suffix),
# every kind of ending; an independent decoder reads the header length and the stream
m = 0
bodies = [b'y=y+1\n' * 40, b'function _update60()\n x=1\nend\n' + b'y=y+1\n' * 40, b'-- _update60\n' + b'print("aaaaaaaaaaaaaaaaaaaaaaaaaaaaaaaaaaaaaaaa")\n' * 8,
          b'_update60' * 30, b'a' * 200 + b'_update60']
for body in bodies:
    for ending in (b'', b'\n', b'\n\n', b' ', b' \n', b'x', b'end', b'\t'):
        x = body + ending; m += 1
        area = bytes(p8png.get_bytes_from_code(x))
        if area[:4] != b':c:\x00':
            if area[:len(x)] != x or any(area[len(x):]): bad.append([x[-30:].hex(), 'raw code area is not the text followed by zero bytes'])
        else:
            ln = area[4] * 256 + area[5]
            try:
                got = ref_decode_n(area[8:], ln)
            except Exception as e:
                got = repr(e)
            if got != x: bad.append([x[-30:].hex(), 'independent decoder (header length %d, text length %d) does not recover the text' % (ln, len(x))])
        back = p8png.get_code_from_bytes(area + bytes(0x3d00 - len(area)), 8)[1]
        if back != x: bad.append([x[-30:].hex(), 'get_code_from_bytes(get_bytes_from_code(text)) != text: ...%r' % back[-20:]])
print(json.dumps({'n': n + m, 'areas': m, 'bad': bad[:5], 'n_bad': len(bad)}))
'''


def table_lemmas():
    t = compress.table()
    res = []
    res.append(('GROUND:ctable/60 entries', len(t) == 60, str(len(t))))
    res.append(('GROUND:ctable/largest offset byte is 255 ((255-len)*16 // 16 + len == 255)', (255 - len(t)) * 16 // 16 + len(t) == 255, ''))
    li = [0] * 256
    for i in range(1, len(t)):
        li[t[i]] = i
    bad = [c for c in range(256) if li[c] and t[li[c]] != c]
    res.append(('GROUND:ctable/literal index inverts the table for every byte', not bad, str(bad)))
    res.append(('GROUND:ctable/no NUL in table entries 1..59', all(x != 0 for x in t[1:]), ''))
    res.append(('GROUND:cspec/compatibility suffixes are the ones in the real module',
                source.module_info('pico8.game.compress')['consts'].get('PICO8_FUTURE_CODE1') == cspec.FUTURE1 and
                source.module_info('pico8.game.compress')['consts'].get('PICO8_FUTURE_CODE2') == cspec.FUTURE2, ''))
    return res


def run(tier, seed):
    chk = Check('C05', 'proof', tier, seed)
    reg = units.registry()
    ground.account(chk, table_lemmas())
    cs = list(compress.CONTRACTS) + [reg['pico8.game.formatter.p8png:get_bytes_from_code'],
                                     reg['pico8.game.formatter.p8png:get_code_from_bytes']]
    units.run_contracts(chk, cs, reg, tier, seed)
    # bounded stand-in (NOT counted as proved): the end-to-end composition, natively, with the reference decoder
    L = 9 if tier == 'thorough' else 7
    env = {'PYTHONPATH': source.REPO, 'PATH': '/usr/bin:/bin'}
    r = subprocess.run([source.REAL_PY, '-c', _NATIVE.replace('@VERIF@', repr('/verif')).replace('@L@', str(L))], capture_output=True, text=True, env=env, cwd='/')
    if r.returncode != 0:
        chk.violation('BOUNDED:c05/native compress->reference decoder / decompress_code',
                      {'solver_output': 'real code raised: ' + r.stderr[-800:]}, True)
        chk.bounded = {'rule': 'all strings over {a,b,newline,0x80} up to length %d' % (L - 1), 'bound': L - 1, 'evaluations': 0}
    else:
        d = json.loads(r.stdout)
        chk.bounded = {'rule': 'BOUNDED stand-in for the composition of the contracts: all strings over {table char, second table '
                               'char, newline, non-table byte} up to length %d, and every byte value 1-255 alone / in a run / in a repeated pattern, through the real compress_code, an independent '
                               'reference decoder and the real decompress_code; hand-made well-formed streams with self-overlapping back-references '
                               '(offsets 1-6 x lengths 3-17) through the reference decoder and the real decompress_code; the compressor output through an independent '
                               'reference decoder and the real decompress_code; plus %d whole code areas (texts with / without _update60 x 8 endings) through the real '
                               'get_bytes_from_code, an independent header+stream decoder and the real get_code_from_bytes' % (L - 1, d.get('areas', 0)),
                       'bound': L - 1, 'evaluations': d['n'], 'failures': d['n_bad']}
        if d['n_bad']:
            chk.violation('BOUNDED:c05/native compress->reference decoder / decompress_code', {'witness': d['bad']}, True)
    chk.trust('pyvc VC generator + z3 (LIA with quantified invariants; ghost item-boundary lists; the block-repeat predicate REP '
              'with introduction/elimination axioms); CSpec in /verif/specs/cspec.py written from the format description')
    chk.assume('code text contains no NUL byte (the raw form is NUL terminated; format limit) and is at most 0xffff bytes')
    chk.assume('b"_update60" in text is an uninterpreted predicate of the text (only "it implies len >= 9" is used)')
    chk.assume('composition (decompress_code(header + compress_code(x)) == x) follows by matching contracts: compress_code '
               'ensures exactly the well-formedness predicate that decompress_code requires, with header length len(x) <= len(text); '
               'the matching itself is not a machine-checked obligation -- the bounded native run above exercises it')
    chk.assume('covers of preconditions with quantified hypotheses are discharged by a concrete witness evaluated against the contract')
    return chk.finish()
