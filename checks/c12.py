"""C12: require() and #include never read files outside the permitted directories.

The guards that dominate every `open()` / `os.path.isfile()` of the two features are read from the REAL source (control
paths with dataflow events, pyvc/effects.py) and translated into solver queries:

  #include  (process_includes, get_root_include_path): on every path to an open/isfile of P, the path conditions imply
            under(root, P) for the include root, for ALL strings -- z3 string theory; os.path.abspath(normpath(.)) and
            dirname return normalised absolute paths, commonpath([a, b]) == a  <=>  under(a, b): assumed library
            contracts, cross-checked natively on sampled paths every run.
  require   (_evaluate_require, _locate_require_file): every probed candidate is `pattern.replace('?', p)` (joined to the
            requiring file's directory unless absolute) for a pattern of the load path, and p has passed the filter; the
            filter, translated to regular atoms, is shown by an exhaustive automaton exploration to guarantee for ALL
            strings A, p, B that A + p + B has a '..' (or '.', or empty) path component touching p only if ... never: every
            '..' component of a candidate comes from the pattern alone (the user named that directory).
"""
import ast
import json
import subprocess
import z3

from pyvc.report import Check
from pyvc import source, effects, ground, reglang as R

P8 = 'pico8.game.formatter.p8'
BUILD = 'pico8.build.build'
SEP = '/'


# ------------------------------------------------------------------------------------------------ include: z3 strings

def norm(s):
    """Normalised absolute POSIX path (what abspath(normpath(.)) returns): starts with '/', no empty / '.' / '..'
    component, no trailing '/' except the root itself."""
    S = z3.StringVal
    return z3.And(z3.PrefixOf(S('/'), s), z3.Not(z3.Contains(s, S('//'))),
                  z3.Or(s == S('/'), z3.Not(z3.SuffixOf(S('/'), s))),
                  z3.Not(z3.Contains(s + S('/'), S('/./'))), z3.Not(z3.Contains(s + S('/'), S('/../'))))


def under(root, p):
    S = z3.StringVal
    return z3.Or(p == root, z3.PrefixOf(root + S('/'), p), z3.And(root == S('/'), z3.PrefixOf(S('/'), p)))


class StrEnv:
    """Symbolic evaluation of the few string expressions occurring on the paths."""
    def __init__(self):
        self.vars = {}
        self.facts = []
        self.n = 0
        self.CP = z3.Function('commonpath2', z3.StringSort(), z3.StringSort(), z3.StringSort())
        self.assumed = set()

    def fresh(self, base):
        self.n += 1
        return z3.String('%s!%d' % (base, self.n))

    def var(self, name):
        if name not in self.vars:
            self.vars[name] = self.fresh(name)
        return self.vars[name]

    def term(self, n):
        """z3 String term of an expression, or None when it is not understood (then nothing is known about it)."""
        if isinstance(n, ast.Constant) and isinstance(n.value, str):
            return z3.StringVal(n.value)
        if isinstance(n, ast.Name):
            if n.id in self.vars and self.vars[n.id] is None:
                return None
            return self.var(n.id)
        if isinstance(n, ast.Attribute) and ast.unparse(n) in ('os.sep', 'os.path.sep'):
            return z3.StringVal(SEP)
        if isinstance(n, ast.BinOp) and isinstance(n.op, ast.Add):
            a, b = self.term(n.left), self.term(n.right)
            return None if a is None or b is None else a + b
        if isinstance(n, ast.Call):
            f = ast.unparse(n.func)
            if f in ('os.path.abspath', 'os.path.realpath'):
                r = self.fresh('abs')
                self.facts.append(norm(r))
                self.assumed.add('os.path.abspath(x) is a normalised absolute path')
                return r
            if f == 'os.path.dirname' and len(n.args) == 1:
                a = self.term(n.args[0])
                r = self.fresh('dir')
                if a is not None:
                    # dirname of a normalised absolute path is a normalised absolute path, and the path is under it
                    self.facts.append(z3.Implies(norm(a), z3.And(norm(r), under(r, a))))
                    self.assumed.add('os.path.dirname(p) of a normalised absolute p is normalised, absolute, and contains p')
                return r
            if f == 'os.path.commonpath' and len(n.args) == 1 and isinstance(n.args[0], (ast.List, ast.Tuple)) and len(n.args[0].elts) == 2:
                a, b = (self.term(e) for e in n.args[0].elts)
                if a is None or b is None:
                    return None
                r = self.CP(a, b)
                # library contract (sampled natively): for normalised absolute a, b:  commonpath([a, b]) == a <=> under(a, b),
                # and symmetrically for b
                self.facts.append(z3.Implies(z3.And(norm(a), norm(b)), z3.And((r == a) == under(a, b), (r == b) == under(b, a))))
                self.assumed.add('os.path.commonpath([a, b]) == a  <=>  a == b or b starts with a + "/" (normalised absolute paths)')
                return r
            if f == 'get_root_include_path':
                r = self.fresh('root')
                self.facts.append(norm(r))            # callee contract, proved below on every return path
                return r
            return self.fresh('call')
        return None

    def cond(self, n):
        """z3 Bool of a condition or None."""
        if isinstance(n, ast.UnaryOp) and isinstance(n.op, ast.Not):
            c = self.cond(n.operand)
            return None if c is None else z3.Not(c)
        if isinstance(n, ast.BoolOp):
            cs = [self.cond(v) for v in n.values]
            if isinstance(n.op, ast.And):
                cs = [c for c in cs if c is not None]          # dropping a conjunct of an assumption only weakens it
                return z3.And(*cs) if cs else None
            if any(c is None for c in cs):
                return None
            return z3.Or(*cs)
        if isinstance(n, ast.Compare) and len(n.ops) == 1 and isinstance(n.ops[0], (ast.Is, ast.IsNot)) and \
                isinstance(n.comparators[0], ast.Constant) and n.comparators[0].value is None and isinstance(n.left, ast.Name):
            if n.left.id not in self.vars:
                return None
            isnone = self.vars[n.left.id] is None
            return z3.BoolVal(isnone if isinstance(n.ops[0], ast.Is) else not isnone)
        if isinstance(n, ast.Compare) and len(n.ops) == 1:
            a, b = self.term(n.left), self.term(n.comparators[0])
            if a is None or b is None:
                return None
            if isinstance(n.ops[0], ast.Eq):
                return a == b
            if isinstance(n.ops[0], ast.NotEq):
                return a != b
            return None
        if isinstance(n, ast.Call) and isinstance(n.func, ast.Attribute) and n.func.attr in ('startswith', 'endswith') and len(n.args) == 1:
            a, b = self.term(n.func.value), self.term(n.args[0])
            if a is None or b is None:
                return None
            return z3.PrefixOf(b, a) if n.func.attr == 'startswith' else z3.SuffixOf(b, a)
        return None


def negation_safe(env, node, pol):
    """Assumption contributed by a branch: cond (pol=True) or its negation; None if not understood.  For a NEGATED
    condition every part must be understood (dropping a conjunct would strengthen the assumption -- unsound)."""
    if pol:
        return env.cond(node)
    full = Strict(env).cond(node)
    return None if full is None else z3.Not(full)


class Strict:
    def __init__(self, env):
        self.env = env

    def cond(self, n):
        if isinstance(n, ast.BoolOp):
            cs = [self.cond(v) for v in n.values]
            if any(c is None for c in cs):
                return None
            return z3.And(*cs) if isinstance(n.op, ast.And) else z3.Or(*cs)
        if isinstance(n, ast.UnaryOp) and isinstance(n.op, ast.Not):
            c = self.cond(n.operand)
            return None if c is None else z3.Not(c)
        return self.env.cond(n)


def hyps_consistent(hyps):
    s = z3.Solver()
    s.set('timeout', 5000)
    for h in hyps:
        s.add(h)
    return s.check() != z3.unsat


def solve(hyps, goal, timeout=20000):
    s = z3.Solver()
    s.set('timeout', timeout)
    for h in hyps:
        s.add(h)
    s.add(z3.Not(goal))
    r = s.check()
    if r == z3.unsat:
        return 'discharged', None
    if r == z3.sat:
        return 'failed', s.model()
    # second opinion
    try:
        import tempfile, os
        with tempfile.NamedTemporaryFile('w', suffix='.smt2', delete=False) as fh:
            fh.write('(set-logic ALL)\n' + s.to_smt2())
            path = fh.name
        r2 = subprocess.run(['/usr/bin/cvc5', '--strings-exp', '--tlimit=30000', path], capture_output=True, text=True, timeout=40)
        os.unlink(path)
        ans = (r2.stdout.strip().splitlines() or ['unknown'])[0]
        if ans == 'unsat':
            return 'discharged', None
    except Exception:
        pass
    return 'undecided', None


FILE_PROBES = ('open', 'os.path.isfile', 'os.path.exists', 'os.stat', 'os.listdir')


def include_obligations(chk):
    """Obligations of process_includes and get_root_include_path."""
    res = []
    # --- get_root_include_path: every non-None return value is a normalised absolute path
    fn = source.find_function(P8 + ':get_root_include_path')
    chk.functions.append({'function': fn.qual, 'file': 'pico8/game/formatter/p8.py', 'line': fn.line, 'sha256': fn.sha, 'ints': '-'})
    outs = effects.Paths(may_raise=lambda c: False, dataflow=True).function(fn.node)
    nret = 0
    for kind, t in outs:
        env = StrEnv()
        hyps = []
        ret = None
        for e in t:
            if e[0] == 'assign' and isinstance(e[1], ast.Name):
                v = env.term(e[2])
                isnone = isinstance(e[2], ast.Constant) and e[2].value is None
                env.vars[e[1].id] = None if isnone else (v if v is not None else env.fresh(e[1].id))
            elif e[0] == 'iterate' and isinstance(e[1], ast.Name):
                env.vars[e[1].id] = env.fresh(e[1].id)
            elif e[0] == 'assume':
                c = negation_safe(env, e[1], e[2])
                if c is not None:
                    hyps.append(c)
        # the value returned: last `return X` -- read from the function: all returns are `return None` or `return root_path`
        rets = [n for n in ast.walk(fn.node) if isinstance(n, ast.Return)]
        rv = [r for r in rets if r.value is not None and not (isinstance(r.value, ast.Constant) and r.value.value is None)]
        if not all(isinstance(r.value, ast.Name) for r in rv):
            res.append(('STR:include/get_root_include_path returns a normalised absolute path', 'undecided', 'unexpected return expression'))
            return res
        name = rv[-1].value.id if rv else None
        if name is None or name not in env.vars:
            continue
        ret = env.vars[name]
        if ret is None or (z3.is_string_value(ret)):
            continue
        if not hyps_consistent(env.facts + hyps):
            continue
        nret += 1
        st, m = solve(env.facts + hyps, norm(ret))
        if st != 'discharged':
            res.append(('STR:include/get_root_include_path returns a normalised absolute path (on every path)', st, str(m)[:300]))
            return res
    res.append(('STR:include/get_root_include_path returns a normalised absolute path (%d returning paths)' % nret,
                'discharged' if nret else 'undecided', ''))
    # --- process_includes
    fn = source.find_function(P8 + ':process_includes')
    chk.functions.append({'function': fn.qual, 'file': 'pico8/game/formatter/p8.py', 'line': fn.line, 'sha256': fn.sha, 'ints': '-'})
    outs = effects.Paths(may_raise=lambda c: False, dataflow=True).function(fn.node)
    nprobe, worst = 0, None
    seen = set()
    for kind, t in outs:
        env = StrEnv()
        hyps = []
        root = None
        for e in t:
            if e[0] == 'assign' and isinstance(e[1], ast.Name):
                v = env.term(e[2])
                env.vars[e[1].id] = v if v is not None else env.fresh(e[1].id)
                if isinstance(e[2], ast.Call) and ast.unparse(e[2].func) == 'get_root_include_path':
                    root = env.vars[e[1].id]
            elif e[0] == 'assign':
                pass
            elif e[0] == 'iterate':
                for nm in ast.walk(e[1]):
                    if isinstance(nm, ast.Name):
                        env.vars[nm.id] = env.fresh(nm.id)
            elif e[0] == 'assume':
                c = negation_safe(env, e[1], e[2])
                if c is not None:
                    hyps.append(c)
            elif e[0] == 'call' and e[1] in FILE_PROBES:
                arg = ast.parse(e[2][0], mode='eval').body if e[2] else None
                p = env.term(arg) if arg is not None else None
                key = (e[1], e[2][:1], tuple(str(h) for h in hyps))
                if key in seen:
                    continue
                seen.add(key)
                nprobe += 1
                if p is None or root is None:
                    worst = worst or ('undecided', 'path expression %r not understood' % (e[2][:1],))
                    continue
                st, m = solve(env.facts + hyps, under(root, p))
                if st != 'discharged' and (worst is None or st == 'failed'):
                    wit = None
                    if m is not None:
                        wit = {'root': str(m.eval(root, model_completion=True)), 'path': str(m.eval(p, model_completion=True))}
                    worst = (st, wit)
    name = 'STR:include/every path handed to open()/os.path.isfile() by process_includes is under the include root (%d probes, all strings)' % nprobe
    if nprobe == 0:
        res.append((name, 'undecided', 'no file access found'))
    elif worst is None:
        res.append((name, 'discharged', ''))
    else:
        res.append((name, worst[0], worst[1]))
    return res


# ------------------------------------------------------------------------------------------------ require: REG

ANY = rb'[\x00-\xff]*'


def esc(b):
    import re
    return re.escape(b)


def guard_atoms(node, var):
    """Translate the filter condition over `var` (bytes) into a boolean formula over regular atoms:
    ('re', pattern) -- the WHOLE string matches; ('or'|'and', [..]); ('not', x).  None if not understood."""
    if isinstance(node, ast.BoolOp):
        parts = [guard_atoms(v, var) for v in node.values]
        if any(p is None for p in parts):
            return None
        return ('or' if isinstance(node.op, ast.Or) else 'and', parts)
    if isinstance(node, ast.UnaryOp) and isinstance(node.op, ast.Not):
        p = guard_atoms(node.operand, var)
        return None if p is None else ('not', p)
    if isinstance(node, ast.Compare) and len(node.ops) == 1 and isinstance(node.ops[0], (ast.In, ast.NotIn)):
        l, r = node.left, node.comparators[0]
        a = None
        if isinstance(l, ast.Constant) and isinstance(l.value, bytes) and ast.unparse(r) == var:
            a = ('re', ANY + esc(l.value) + ANY)                               # b'x' in var
        elif ast.unparse(l) == var + ".split(b'/')[-1]" and isinstance(r, (ast.Tuple, ast.List, ast.Set)):
            alts = [e.value for e in r.elts if isinstance(e, ast.Constant) and isinstance(e.value, bytes)]
            if len(alts) == len(r.elts):
                a = ('re', rb'(' + ANY + rb'/)?(' + b'|'.join(esc(x) for x in alts) + rb')')
        if a is None:
            return None
        return ('not', a) if isinstance(node.ops[0], ast.NotIn) else a
    if isinstance(node, ast.Call) and isinstance(node.func, ast.Attribute) and ast.unparse(node.func.value) == var and \
            node.func.attr in ('startswith', 'endswith') and len(node.args) == 1 and isinstance(node.args[0], ast.Constant):
        x = esc(node.args[0].value)
        return ('re', x + ANY if node.func.attr == 'startswith' else ANY + x)
    # any(c in (consts) for c in var.split(b'/'))
    if isinstance(node, ast.Call) and ast.unparse(node.func) == 'any' and len(node.args) == 1 and isinstance(node.args[0], ast.GeneratorExp):
        g = node.args[0]
        if len(g.generators) == 1 and not g.generators[0].ifs and ast.unparse(g.generators[0].iter) == var + ".split(b'/')" and \
                isinstance(g.elt, ast.Compare) and len(g.elt.ops) == 1 and isinstance(g.elt.ops[0], ast.In) and \
                ast.unparse(g.elt.left) == ast.unparse(g.generators[0].target) and isinstance(g.elt.comparators[0], (ast.Tuple, ast.List, ast.Set)):
            elts = g.elt.comparators[0].elts
            alts = [e.value for e in elts if isinstance(e, ast.Constant) and isinstance(e.value, bytes)]
            if len(alts) == len(elts):
                comp = rb'(' + b'|'.join(esc(x) for x in alts) + rb')'
                return ('re', rb'(' + ANY + rb'/)?' + comp + rb'(/' + ANY + rb')?')
    return None


def collect(f, out):
    if f[0] == 're':
        if f[1] not in out:
            out.append(f[1])
    elif f[0] == 'not':
        collect(f[1], out)
    else:
        for x in f[1]:
            collect(x, out)


def evalf(f, val):
    if f[0] == 're':
        return val[f[1]]
    if f[0] == 'not':
        return not evalf(f[1], val)
    vs = [evalf(x, val) for x in f[1]]
    return any(vs) if f[0] == 'or' else all(vs)


def no_new_dotdot(rejected):
    """Decide: for ALL byte strings A, p, B with p NOT rejected by the filter, no path component of A + p + B that
    contains at least one byte of p -- or that is delimited by p's edge -- is '..' ('.' and '' likewise do no harm but are
    not required).  Precisely: every '..' component of A+p+B lies strictly inside A (followed by a '/' of A) or strictly
    inside B (preceded by a '/' of B).  Exhaustive exploration of (atom automata on the p part) x (component tracker).
    Returns (states, witness or None)."""
    pats = []
    collect(rejected, pats)
    ms = [R.Matcher(R.build(p)) for p in pats]
    masks = {1 << 47, 1 << 46}
    for m in ms:
        masks |= m.n.masks
    reps, _ = R.byte_classes(sorted(masks))
    # component tracker: text of the current component abstracted to '', '.', '..', 'x' (anything else); and whether the
    # component is "tainted": contains a byte of p, or started exactly at p's end, or (checked at p's start) ends at it
    def comp_step(c, ch):
        if ch == 47:
            return ''
        if ch == 46:
            return {'': '.', '.': '..'}.get(c, 'x')
        return 'x'
    init = ('A', None, '', False, False)
    seen = {init: None}
    todo = [init]
    qi = 0

    def wit(st):
        path = []
        while seen[st] is not None:
            st, sym = seen[st]
            path.append(sym)
        return list(reversed(path))
    while qi < len(todo):
        st = todo[qi]
        qi += 1
        phase, confs, comp, taint, bad = st
        succ = []
        if phase == 'A':
            for ch in reps:
                succ.append((('A', None, comp_step(comp, ch), False, False), ('A', ch)))
            # p starts here: the current component (a suffix of A) is continued by p's first byte -> tainted
            succ.append((('p', tuple(m.init for m in ms), comp, True, False), ('startp', None)))
        elif phase == 'p':
            for ch in reps:
                c2 = tuple(m.step(cf, ch) for m, cf in zip(ms, confs))
                b2 = bad or (ch == 47 and comp == '..' and taint)
                succ.append((('p', c2, comp_step(comp, ch), True, b2), ('p', ch)))
            # p ends here (p may be empty): only strings the filter ACCEPTS count
            val = {pat: m.accepts(cf, R.END) for pat, m, cf in zip(pats, ms, confs)}
            if not evalf(rejected, val):
                succ.append((('B', None, comp, True, bad), ('endp', None)))
        else:
            if bad or (comp == '..' and taint):       # the string may end here: a tainted '..' component, or one seen before
                if bad or True:
                    return len(seen), wit(st)
            for ch in reps:
                b2 = bad or (ch == 47 and comp == '..' and taint)
                succ.append((('B', None, comp_step(comp, ch), False if ch == 47 else taint, b2), ('B', ch)))
        for ns, sym in succ:
            if ns not in seen:
                seen[ns] = (st, sym)
                todo.append(ns)
    return len(seen), None


def witness_strings(w):
    A = bytes(ch for ph, ch in w if ph == 'A')
    p = bytes(ch for ph, ch in w if ph == 'p')
    B = bytes(ch for ph, ch in w if ph == 'B')
    return A, p, B


def require_obligations(chk):
    res = []
    fn = source.find_function(BUILD + ':_evaluate_require')
    chk.functions.append({'function': fn.qual, 'file': 'pico8/build/build.py', 'line': fn.line, 'sha256': fn.sha, 'ints': '-'})
    # the filter: the `if <cond>: raise LuaBuildError` that precedes the call of _locate_require_file in the loop body
    loop = [n for n in ast.walk(fn.node) if isinstance(n, ast.For)]
    guard, locate_call, opened = None, None, None
    if len(loop) == 1:
        for s in loop[0].body:
            if isinstance(s, ast.If) and any(isinstance(x, ast.Raise) for x in s.body) and guard is None and locate_call is None:
                guard = s.test
            for c in ast.walk(s):
                if isinstance(c, ast.Call) and ast.unparse(c.func) == '_locate_require_file' and locate_call is None:
                    locate_call = c
                if isinstance(c, ast.Call) and ast.unparse(c.func) == 'open' and opened is None:
                    opened = c
    ok_shape = guard is not None and locate_call is not None and opened is not None
    txt = ast.unparse(loop[0]) if loop else ''
    ok_shape = ok_shape and "require_path_str = require_path.decode(encoding='utf-8')" in txt and \
        ast.unparse(locate_call.args[0]) == 'require_path_str' and \
        'reqd_filepath = _locate_require_file(' in txt and ast.unparse(opened.args[0]) == 'reqd_filepath' and \
        ast.unparse(opened.args[1]) == "'rb'"
    # EVERY lookup is made with the filtered string itself, which is bound once
    all_locates = [c for c in ast.walk(fn.node) if isinstance(c, ast.Call) and ast.unparse(c.func) == '_locate_require_file']
    binds = [n for n in ast.walk(fn.node) if isinstance(n, (ast.Assign, ast.AugAssign, ast.AnnAssign)) and
             any(isinstance(t, ast.Name) and isinstance(t.ctx, ast.Store) and t.id in ('require_path_str', 'require_path')
                 for t in ast.walk(n.targets[0] if isinstance(n, ast.Assign) else n.target))]
    ok_shape = ok_shape and all(c.args and ast.unparse(c.args[0]) == 'require_path_str' for c in all_locates) and len(binds) == 1
    # no other file access in _evaluate_require
    others = [ast.unparse(c.func) for c in ast.walk(fn.node) if isinstance(c, ast.Call) and ast.unparse(c.func) in FILE_PROBES and c is not opened]
    res.append(('SHAPE:require/_evaluate_require opens only the path returned by _locate_require_file(require_path_str, ...), after the filter '
                'on require_path', 'discharged' if ok_shape and not others else 'failed' if locate_call is not None else 'undecided',
                'guard=%s others=%s' % (ast.unparse(guard) if guard is not None else None, others)))
    # _locate_require_file: every probed / returned path is pattern.replace('?', p) [joined to the requirer's directory]
    lf = source.find_function(BUILD + ':_locate_require_file')
    chk.functions.append({'function': lf.qual, 'file': 'pico8/build/build.py', 'line': lf.line, 'sha256': lf.sha, 'ints': '-'})
    outs = effects.Paths(may_raise=lambda c: False, dataflow=True).function(lf.node)
    bad = []
    nprobe = 0
    for kind, t in outs:
        defs = {}
        absolute = None             # truth of `candidate.startswith(os.path.sep)` on this path since the candidate was formed
        for e in t:
            if e[0] == 'assume' and ast.unparse(e[1]) in ('candidate.startswith(os.path.sep)', 'not candidate.startswith(os.path.sep)'):
                absolute = e[2] if ast.unparse(e[1]).startswith('candidate') else not e[2]
            if e[0] == 'assign' and isinstance(e[1], ast.Name) and e[1].id == 'candidate' and ast.unparse(e[2]) != 'os.path.join(rel_path_base, candidate)':
                absolute = None
            if e[0] == 'call' and e[1] in FILE_PROBES:
                joined = defs.get(e[2][0] if e[2] else '', '').startswith('JOIN(')
                if absolute is None or joined == absolute:
                    bad.append('%s: the candidate is %sjoined to the requiring file\'s directory although it %s with the path separator'
                               % (e[1], '' if joined else 'not ', 'starts' if absolute else 'was not tested / does not start'))
            if e[0] == 'assign' and isinstance(e[1], ast.Name):
                defs[e[1].id] = ast.unparse(e[2])
                if e[1].id == 'candidate' and defs[e[1].id] == 'os.path.join(rel_path_base, candidate)':
                    defs['candidate'] = 'JOIN(' + defs.get('candidate0', '?') + ')'
                elif e[1].id == 'candidate':
                    defs['candidate0'] = defs['candidate']
            elif e[0] == 'iterate':
                defs[ast.unparse(e[1])] = 'ITER(' + ast.unparse(e[2]) + ')'
            elif e[0] == 'call' and e[1] in FILE_PROBES:
                nprobe += 1
                arg = e[2][0] if e[2] else ''
                d = defs.get(arg, arg)
                core = d[5:-1] if d.startswith('JOIN(') else d
                if core != "lookup_p.replace('?', p)" or defs.get('lookup_p') != "ITER(lua_path.split(';'))" or \
                        defs.get('rel_path_base') != 'os.path.dirname(file_path)':
                    bad.append('%s(%s) with %s = %s, lookup_p = %s' % (e[1], arg, arg, d, defs.get('lookup_p')))
        rets = [e for e in t if e[0] == 'ret']
    rv = {ast.unparse(r.value) for r in ast.walk(lf.node) if isinstance(r, ast.Return) and r.value is not None}
    if not rv <= {'candidate', 'None'}:
        bad.append('returns %s' % sorted(rv))
    res.append(("SHAPE:require/_locate_require_file probes and returns only pattern.replace('?', p) -- joined to the requiring file's "
                "directory unless absolute -- for the patterns of lua_path.split(';') (%d probes on all paths)" % nprobe,
                'discharged' if nprobe and not bad else 'failed', str(sorted(set(bad))[:3])))
    # the filter as regular atoms, and the REG lemma
    if guard is None:
        res.append(('REG:require/filter', 'undecided', 'filter not found'))
        return res, None
    f = guard_atoms(guard, 'require_path')
    if f is None:
        res.append(('REG:require/the filter is a boolean combination of regular conditions', 'undecided', ast.unparse(guard)))
        return res, None
    try:
        n, w = no_new_dotdot(f)
    except R.Unsupported as e:
        res.append(('REG:require/no-new-dotdot', 'undecided', str(e)))
        return res, None
    name = ("REG:require/for ALL strings A, p, B with p accepted by the filter (%s): every '..' path component of A + p + B lies inside A or "
            "inside B -- a candidate leaves a load-path directory only where the pattern itself says so (%d product states)" % (ast.unparse(guard)[:120], n))
    if w is None:
        res.append((name, 'discharged', ''))
        return res, None
    A, p, B = witness_strings(w)
    res.append((name, 'failed', {'pattern_prefix': repr(A), 'require_string': repr(p), 'pattern_suffix': repr(B)}))
    return res, (A, p, B)


# ------------------------------------------------------------------------------------------------ native

_NATIVE = r'''
import itertools, json, os, sys, tempfile, shutil, builtins, io
work = os.path.realpath(tempfile.mkdtemp(prefix='c12_'))
def touch(p, data=b'x = 1\n'):
    os.makedirs(os.path.dirname(p), exist_ok=True)
    open(p, 'wb').write(data)
# layout:  work/proj (cart dir, root)   work/projX (prefix-sharing sibling)  work/outside   work/lib (absolute load path)  work/libX
for d in ('proj', 'proj/sub', 'projX', 'outside', 'lib', 'libX', 'cwd', 'cwd/sub'):
    os.makedirs(os.path.join(work, d), exist_ok=True)
for f in ('proj/inc.lua', 'proj/sub/inc.lua', 'projX/inc.lua', 'projX/x.lua', 'outside/inc.lua', 'outside/x.lua', 'inc.lua', 'x.lua',
          'lib/m.lua', 'libX/m.lua', 'libX/x.lua', 'lib/x.lua', 'proj/x.lua', 'proj/m.lua',
          'cwd/inc.lua', 'cwd/x.lua', 'cwd/m.lua', 'cwd/sub/inc.lua', 'cwd/inc', 'cwd/x', 'cwd/m'):
    touch(os.path.join(work, f), b'-- CANARY ' + f.encode() + b'\nx = 1\n')
from pico8.game.formatter import p8 as p8fmt
from pico8.game import file as pfile
from pico8.build import build
from pico8 import util
util.set_verbosity(util.VERBOSITY_QUIET)
opened = []
real_open, real_isfile = builtins.open, os.path.isfile
def rec_open(f, *a, **k):
    if isinstance(f, (str, bytes)): opened.append(('open', os.fsdecode(f)))
    return real_open(f, *a, **k)
def rec_isfile(f):
    r = real_isfile(f)
    if r: opened.append(('isfile', os.fsdecode(f)))
    return r
def under(root, p):
    p = os.path.realpath(p)
    return p == root or p.startswith(root + os.sep)
os.chdir(os.path.join(work, 'cwd'))          # the current directory is not a permitted root: a name resolved against it is a violation
bad, n = [], 0
frag = ['inc', 'x', 'm', '.', '..', '/', 'sub/', '../', 'projX/', '../projX/', '../outside/', work + '/outside/', '?', ';', 'X', '.lua', 'libX/', '../libX/',
        work.replace('/', '.') + '.outside.', work.replace('/', '\\') + '\\outside\\', '..outside.']      # other separator spellings of a path that leaves the roots
def strings(maxn):
    seen = set()
    for k in range(1, maxn + 1):
        for t in itertools.product(frag, repeat=k):
            s = ''.join(t)
            if s not in seen and len(s) < 40:
                seen.add(s); yield s
# ---- #include
cart = os.path.join(work, 'proj', 'cart.p8')
roots_inc = [os.path.join(work, 'proj')]
for s in strings(%(N)d):
    for ext in ('', '.lua'):
        name = s + ext
        if not name.endswith(('.lua', '.p8', '.p8.png')) or '\n' in name or ' ' in name: continue
        body = b'pico-8 cartridge // http://www.pico-8.com\nversion 8\n__lua__\n#include ' + name.encode() + b'\n__gfx__\n'
        open(cart, 'wb').write(body)
        opened.clear(); n += 1
        builtins.open, os.path.isfile = rec_open, rec_isfile
        try:
            try: pfile.from_file(cart)
            except Exception as e: pass
        finally:
            builtins.open, os.path.isfile = real_open, real_isfile
        for kind, p in opened:
            if os.path.realpath(p) == os.path.realpath(cart) or p.endswith(('.pyc', '.py')): continue
            if not any(under(r, p) for r in roots_inc):
                if len(bad) < 8: bad.append(['#include ' + name, kind, p])
# ---- #include with a recognised PICO-8 carts folder under HOME: a cart inside it has the folder as root; a cart in a sibling whose name
# merely starts with 'carts', or next to the folder, has its own directory as root and must not reach into the folder
home = os.path.join(work, 'home')
carts = os.path.join(home, '.lexaloffle', 'pico-8', 'carts')
for f in ('secret.lua', 'game/lib.lua', 'game/sub/deep.lua'):
    touch(os.path.join(carts, f), b'-- CANARY carts/' + f.encode() + b'\nx = 1\n')
for d in ('carts-old', 'carts2/game', 'cartsbak'):
    touch(os.path.join(home, '.lexaloffle', 'pico-8', d, 'own.lua'), b'-- own\nx = 1\n')
touch(os.path.join(home, '.lexaloffle', 'pico-8', 'beside.lua'), b'-- CANARY beside\nx = 1\n')
os.environ['HOME'] = home
def include_case(cart_path, name, roots):
    global n
    os.makedirs(os.path.dirname(cart_path), exist_ok=True)
    open(cart_path, 'wb').write(b'pico-8 cartridge // http://www.pico-8.com\nversion 8\n__lua__\n#include ' + name.encode() + b'\n__gfx__\n')
    opened.clear(); n += 1
    builtins.open, os.path.isfile = rec_open, rec_isfile
    try:
        try: pfile.from_file(cart_path)
        except Exception as e: pass
    finally:
        builtins.open, os.path.isfile = real_open, real_isfile
    for kind, p_ in opened:
        if os.path.realpath(p_) == os.path.realpath(cart_path) or p_.endswith(('.pyc', '.py')): continue
        if not any(under(r_, p_) for r_ in roots):
            if len(bad) < 8: bad.append(['#include ' + name + ' from ' + os.path.relpath(cart_path, home), kind, p_])
pico = os.path.join(home, '.lexaloffle', 'pico-8')
for sib in ('carts-old', 'carts2/game', 'cartsbak'):
    cdir = os.path.join(pico, sib)
    for name in ('../carts/secret.lua', '../../carts/secret.lua', '../carts/game/lib.lua', '../beside.lua', 'own.lua', '../carts-old/own.lua', '../../beside.lua'):
        include_case(os.path.join(cdir, 'cart.p8'), name, [cdir])
for name in ('secret.lua', 'game/lib.lua', '../beside.lua', '../carts-old/own.lua', '../../pico-8/beside.lua', 'game/../secret.lua'):
    include_case(os.path.join(carts, 'cart.p8'), name, [carts])                       # inside the folder: the folder is the root
    include_case(os.path.join(carts, 'game', 'cart.p8'), name, [carts])
include_case(os.path.join(pico, 'cart.p8'), 'carts/secret.lua', [pico])               # next to the folder: own directory
os.environ['HOME'] = '/nonexistent'
# ---- require
main = os.path.join(work, 'proj', 'main.lua')
class A: pass
for lua_path, roots in ((None, ['proj']), ('?;?.lua;sub/?.lua', ['proj', 'proj/sub']), ('?/x.lua;?/m.lua;sub/?/inc.lua', ['proj']), ('?.lua;' + work + '/lib/?.lua', ['proj', 'lib']), ('ENV', ['proj', 'lib'])):
    roots = [os.path.join(work, r) for r in roots]
    for s in strings(%(N)d):
        if '"' in s or '\n' in s: continue
        open(main, 'wb').write(b'require("' + s.encode() + b'")\n')
        args = A(); args.lua = main; args.filename = os.path.join(work, 'proj', 'out.p8'); args.lua_path = lua_path
        if lua_path == 'ENV':
            args.lua_path = None; os.environ['PICO8_LUA_PATH'] = '?.lua;' + work + '/lib/?.lua'
        else:
            os.environ.pop('PICO8_LUA_PATH', None)
        for sec in ('gfx', 'gff', 'map', 'sfx', 'music'): setattr(args, sec, None)
        for sec in ('lua', 'gfx', 'gff', 'map', 'sfx', 'music'): setattr(args, 'empty_' + sec, False)
        args.lua_format = False; args.lua_minify = False
        if os.path.exists(args.filename): os.unlink(args.filename)
        opened.clear(); n += 1
        builtins.open, os.path.isfile = rec_open, rec_isfile
        try:
            try: build.do_build(args)
            except Exception as e: pass
        finally:
            builtins.open, os.path.isfile = real_open, real_isfile
        for kind, p in opened:
            rp = os.path.realpath(p)
            if rp in (os.path.realpath(main), os.path.realpath(args.filename)) or p.endswith(('.pyc', '.py', '.png')): continue
            if not any(under(r, p) for r in roots):
                if len(bad) < 8: bad.append(['require("%%s") lua_path=%%r' %% (s, lua_path), kind, p])
# ---- library contracts sampled
lib_bad = []
comps = ['a', 'ab', 'b', 'a.b', 'c']
paths = ['/'] + ['/' + '/'.join(t) for k in (1, 2, 3) for t in itertools.product(comps, repeat=k)]
for a in paths:
    for b in paths:
        want = (b == a) or b.startswith(a + '/') or a == '/'
        if (os.path.commonpath([a, b]) == a) != want and len(lib_bad) < 3: lib_bad.append(['commonpath', a, b])
for x in ['a/../b', './a', 'a//b', '/a/./b/..', '..', '../x', 'a/b/', '', '/..', '///a']:
    r = os.path.abspath(os.path.normpath(x))
    okn = r.startswith('/') and '//' not in r and (r == '/' or not r.endswith('/')) and '/./' not in r + '/' and '/../' not in r + '/'
    if not okn and len(lib_bad) < 6: lib_bad.append(['abspath(normpath)', x, r])
    d = os.path.dirname(r)
    if not (d.startswith('/') and (r == d or r.startswith(d.rstrip('/') + '/'))) and len(lib_bad) < 6: lib_bad.append(['dirname', r, d])
shutil.rmtree(work, ignore_errors=True)
print(json.dumps({'n': n, 'bad': bad, 'lib_bad': lib_bad}))
'''


def native(N):
    env = {'PYTHONPATH': source.REPO, 'PATH': '/usr/bin:/bin', 'PYTHONDONTWRITEBYTECODE': '1', 'HOME': '/nonexistent'}
    try:
        r = subprocess.run([source.REAL_PY, '-c', _NATIVE.replace('%(N)d', str(N)).replace('%%', '%')], capture_output=True, text=True,
                           env=env, cwd='/', timeout=900)
    except subprocess.TimeoutExpired:
        return {'timeout': True, 'n': 0, 'bad': [], 'lib_bad': []}
    if r.returncode != 0:
        return {'error': r.stderr[-1500:], 'n': 0, 'bad': [], 'lib_bad': []}
    return json.loads(r.stdout)


def run(tier, seed):
    chk = Check('C12', 'proof', tier, seed)
    results = []
    try:
        results += include_obligations(chk)
        rq, wit = require_obligations(chk)
        results += rq
    except (NotImplementedError, effects.TooManyPaths) as e:
        chk.undecide('a function left the subset of the path analysis: %r' % (e,))
        results = []              # the bounded run below still decides what it can
    nat = native(3 if tier == 'thorough' else 2)
    if nat.get('timeout') or nat.get('error'):
        chk.undecide('BOUNDED:c12/native run did not finish: %s' % (nat.get('error') or 'timeout'))
    ground.account(chk, [('GROUND:os.path/assumed contracts of commonpath, abspath(normpath(.)), dirname hold on the sampled paths (real os.path)',
                          not nat.get('lib_bad'), str(nat.get('lib_bad')))])
    for name, status, detail in results:
        backend = name.split(':')[0]
        chk.count({'STR': 'z3-strings'}.get(backend, backend), status, 0.0, name)
        if status == 'failed':
            hit = [b for b in nat.get('bad', []) if (b[0].startswith('#include') == name.startswith('STR:include'))]
            if name.startswith('SHAPE:') and not hit:
                chk.undecide('%s -- the source no longer has the shape this obligation was written for and the bounded run found no failing '
                             'input: the contract must be re-derived (%s)' % (name, str(detail)[:200]))
                continue
            chk.violation(name, {'solver': 'counter-model / witness of the obligation; the bounded native run (canary files outside every '
                                           'root, every open()/isfile() recorded) supplies the concrete failing input',
                                 'witness': detail, 'native_witness': hit[:3]}, bool(hit))
        elif status != 'discharged':
            chk.undecide('%s: %s' % (name, detail))
    chk.bounded = {'rule': 'BOUNDED: #include names and require() strings built from up to %d fragments of {name, ., .., /, sub/, ../, '
                           'prefix-sharing siblings, absolute paths, ?, ;} in a directory layout with canary files outside every root; x load '
                           'paths {default, relative, absolute, PICO8_LUA_PATH}; the current directory holds canaries of its own; carts inside, next to and in '
                           'prefix-sharing siblings of a recognised PICO-8 carts folder under HOME; every path opened or found by isfile is recorded'
                           % (3 if tier == 'thorough' else 2), 'evaluations': nat.get('n', 0), 'failures': len(nat.get('bad', []))}
    if nat.get('bad') and not chk.violations:
        chk.violation('BOUNDED:c12/a file outside the permitted directories was opened or probed', {'witness': nat['bad'][:4]}, True)
    chk.trust('control-path enumeration with dataflow events over the real ast (pyvc/effects.py); guards translated to z3 string formulas '
              '(#include) and to regular atoms decided by automaton exploration (require)')
    chk.assume('POSIX paths. Assumed library contracts (sampled natively every run): abspath(normpath(x)) is normalised and absolute; dirname of '
               'such a path is too and contains it; commonpath([a, b]) == a iff b is a or below a')
    chk.assume('require: "under a directory named by the load path" is read as: the candidate is the pattern with ? replaced, and every '
               "'..' component of it is one the pattern itself contains")
    chk.assume('files opened by the included cart loader itself (the target file) and by Python imports are not part of the statement')
    return chk.finish()
