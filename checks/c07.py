"""C07: the lexer agrees with the PICO-8/Lua lexical grammar on kinds, extents, values."""
import ast
import json
import subprocess

from pyvc.report import Check
from pyvc import ground, source, reglang as R, lexreg, lexdump, lexnative
from specs import lexspec as LS

EXPECTED_CHAIN = ["self._in_string is not None", "self._in_multiline_comment is not None",
                  "self._in_multiline_string is not None", "s.startswith(b'--[[')", "re.match(b'\\\\[=*\\\\[', s)",
                  "s.startswith(b\"'\") or s.startswith(b'\"')"]

_XCHECK = r'''
import sys, json
sys.path.insert(0, %r)
from pyvc import reglang as R
pats = [bytes.fromhex(x) for x in %r]
tot, bad = 0, []
for p in pats:
    n, b = R.crosscheck(p, %d, b'\n .0x\x80')
    tot += n
    if b: bad.append([p.decode('latin1'), b[0].hex(), b[1], b[2]])
print(json.dumps({'n': tot, 'bad': bad}))
'''


def dispatch_chain():
    """The if/elif chain of the real _process_token (default-state dispatch order), read from the real AST."""
    f = source.find_function('pico8.lua.lexer:Lexer._process_token').node
    top = [s for s in f.body if isinstance(s, ast.If)][0]
    tests, node = [], top
    while True:
        tests.append(ast.unparse(node.test))
        if len(node.orelse) == 1 and isinstance(node.orelse[0], ast.If):
            node = node.orelse[0]
        else:
            tail = node.orelse
            break
    loop_ok = (len(tail) == 1 and isinstance(tail[0], ast.For) and ast.unparse(tail[0].iter) == '_TOKEN_MATCHERS' and
               'pat.match(s)' in ast.unparse(tail[0]) and any(isinstance(n, ast.Break) for n in ast.walk(tail[0])))
    return tests, loop_ok


def run(tier, seed):
    chk = Check('C07', 'proof', tier, seed)
    tb = lexdump.tables()
    # 0. the REG model of ImplFirst is justified by the real dispatch chain (read from the AST, not assumed)
    tests, loop_ok = dispatch_chain()
    if tests != EXPECTED_CHAIN or not loop_ok:
        chk.undecide('the dispatch chain of Lexer._process_token changed (%r); the automaton model of ImplFirst must be re-derived' % (tests,))
    else:
        chk.count('GROUND', 'discharged', 0.0, 'GROUND:lexer/dispatch chain of _process_token is: in-string, in-comment, in-long-string, '
                  "'--[[', long bracket, quote, then the ordered matcher table with first-match-wins")
    # 1. assumed contract of `re` (anchored match == longest prefix of the automaton), cross-checked in the real interpreter
    impl_pats = [p for p, _, _ in tb['matchers']] + [rb'--\[\[', rb'\[=*\[', rb'[\'"]']
    spec_pats = sorted({pat for v in lexreg.spec_variants() for _, pat in v})
    L = 5 if tier == 'thorough' else 4
    env = {'PYTHONPATH': source.REPO, 'PATH': '/usr/bin:/bin', 'PYTHONDONTWRITEBYTECODE': '1'}
    r = subprocess.run([source.REAL_PY, '-c', _XCHECK % ('/verif', [p.hex() for p in impl_pats + spec_pats], L)],
                       capture_output=True, text=True, env=env, cwd='/')
    if r.returncode != 0:
        chk.error('regex cross-check failed to run: ' + r.stderr[-600:])
    else:
        d = json.loads(r.stdout)
        ground.account(chk, [('GROUND:re/automaton longest-prefix == CPython re.match on all strings up to length %d over the byte '
                              'classes of each of the %d patterns (%d comparisons)' % (L, len(impl_pats + spec_pats), d['n']),
                              not d['bad'], str(d['bad'][:3]))])
        chk.extra['re_crosscheck_comparisons'] = d['n']
    # 2. progress: no real matcher accepts the empty string
    ims = lexreg.impl_matchers()
    bad = [nm for nm, _, m in ims if any(m.accepts(m.init, c) for c in list(range(256)) + [R.END])]
    ground.account(chk, [('REG:lexer/no matcher of the real table accepts the empty string (progress)', not bad, str(bad))], 'REG')
    # 3. chunk independence: no matcher accepts a text that continues after a newline
    nl = R.Matcher(R.build(rb'[\x00-\xff]*\n[\x00-\xff]+'))
    crossing = []
    for nm, _, m in ims:
        _, w = R.Product([m, nl]).explore(lambda fl: 'accepts across a newline' if (fl[0][1] and fl[1][1]) else None)
        if w:
            crossing.append((nm, w[0]))
    ground.account(chk, [('REG:lexer/no token of the default state spans past a newline (tokenisation of newline-terminated '
                          'chunks is independent of what follows)', not crossing, str(crossing[:3]))], 'REG')
    # 4. ImplFirst == SpecFirst on ALL byte strings
    try:
        n, w, info = lexreg.first_token_equivalence()
        chk.extra['first_token_product'] = dict(info, states=n)
        name = 'REG:lexer/ImplFirst(s) == SpecFirst(s) for all byte strings s (kind and length, maximal munch, keyword over name)'
        if w is None:
            chk.count('REG', 'discharged', 0.0, name)
        else:
            s, p, desc = w
            chk.count('REG', 'failed', 0.0, name)
            d = lexnative.run(lexreg.symbols_of_impl(), seed, L=0, NL=0, R=0, extra=[s, s + b'\n', s + b' x\n'])
            chk.violation(name, {'witness_text': repr(s), 'split': p, 'disagreement': desc,
                                 'solver': 'shortest witness of the product automaton; replayed through the real lexer and the reference tokenizer',
                                 'native': d['bad'][:3]}, bool(d['bad']))
    except R.Unsupported as e:
        chk.undecide('REG: %s' % e)
    # 4b. position counters: region contract of the loop that ends _process_token (pyvc VCs, z3)
    try:
        from contracts import lexerpos
        from pyvc.solve import solve_all
        from pyvc.values import SymErr
        obls, ax, pfn = lexerpos.position_obligations()
        chk.functions.append({'function': pfn.qual + '[position counters]', 'file': 'pico8/lua/lexer.py', 'line': pfn.line, 'sha256': pfn.sha, 'ints': 'lia'})
        solve_all(obls, ax)
        for ob in obls:
            chk.count(ob.backend or 'z3', ob.status, ob.secs, ob.name)
            if ob.status == 'failed':
                chk.violation(ob.name, {'function': pfn.qual, 'solver_model': str(ob.model)[:1500],
                                        'solver': 'z3 counter-model of the position-counter obligation'}, False)
            elif ob.status != 'discharged':
                chk.undecide(ob.name)
        import ast as _ast
        txt = _ast.unparse(pfn.node)
        ground.account(chk, [('SHAPE:lexer/a matcher-table token is created with the counters as they are BEFORE its text is consumed '
                              '(tok_class(m.group(0), self._cur_lineno, self._cur_charno))',
                              'token = tok_class(m.group(0), self._cur_lineno, self._cur_charno)' in txt, '')], 'SHAPE')
    except SymErr as e:
        chk.undecide('Lexer._process_token: %s' % e)
    # 5. BOUNDED native differential (kinds, extents, positions, decoded strings, numeric values, both chunkings)
    big = tier == 'thorough'
    d = lexnative.run(lexreg.symbols_of_impl(), seed, L=4 if big else 3, NL=5 if big else 4, R=40000 if big else 4000)
    chk.bounded = {'rule': 'BOUNDED: real lexer vs reference tokenizer (specs/reflex.py) on all strings up to length %d over a 20-symbol '
                           'alphabet, all numeral-like strings up to length %d, and %d random token sequences; each as one chunk and '
                           'as per-line chunks; compares kind, extent, line/column, decoded string bytes, numeric value'
                           % (4 if big else 3, 5 if big else 4, 40000 if big else 4000),
                   'evaluations': d['n'], 'agree': d['ok']}
    chk.native_witness = d['bad']
    if d['bad']:
        chk.violation('BOUNDED:lexer/native differential against the reference tokenizer',
                      {'witness': [[bytes.fromhex(h).decode('latin1'), why] for h, why in d['bad'][:6]]}, True)
    chk.trust('REG decision procedure (pyvc/reglang.py): real patterns parsed with CPython\'s own re._parser, product automaton '
              'explored exhaustively; LexSpec in specs/lexspec.py written from the Lua 5.2 manual + PICO-8 extensions')
    chk.assume('anchored re.match == longest accepted prefix of the automaton (cross-checked every run, see GROUND:re)')
    chk.assume('the operator SET is the dialect picotool implements; what is decided is that the LONGEST operator / numeral / name '
               'is taken and that keywords beat names; hex/binary numerals with a trailing dot and 1..x admit both readings')
    chk.assume('multi-line states (inside quoted string / long string / long comment), escape decoding, positions and numeric VALUES '
               'are covered by the bounded native differential only (labelled bounded); \\z is outside the dialect')
    return chk.finish(explanation=None)
