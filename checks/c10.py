"""C10: luafmt output is canonical -- indentation follows nesting, idempotent.

Partly within reach of contracts (level `other`):
  PROVED  indentation bookkeeping: on ALL control paths of every _walk_* handler of LuaASTEchoWriter (branch correlations on the
          same flag respected), `_indent` is raised by one right after an opening token is emitted, lowered by one right
          before the closing token, never drops below its entry value and is restored when the handler finishes -- so at
          every token the depth equals the number of blocks and brackets open there, a closing token counting as closed.
  BOUNDED the regular-expression pipeline of LuaFormatterWriter._get_code_for_spaces and the whole formatter: for
          reference-grammar programs laid out one statement per line, groups of re-indented / tab / trailing-blank / CRLF /
          blank-run / comment-line variants give ONE output; it is a fixed point; no line ends in whitespace, no two blank
          lines in a row, none at the end; every line beginning with a code token is indented by indentwidth x depth, the
          depth being recomputed independently from the output tokens.
"""
import json

from pyvc.report import Check
from pyvc import ground
from contracts import astwriter
from bounded import astnative, trivianative, clinative


def run(tier, seed):
    chk = Check('C10', 'other', tier, seed)
    res = astwriter.indent_obligations()
    from pyvc import source
    import ast
    cls = [n for n in source.mod_ast('pico8.lua.lua')[0].body if isinstance(n, ast.ClassDef) and n.name == 'LuaASTEchoWriter'][0]
    import hashlib
    chk.functions.append({'function': 'pico8.lua.lua:LuaASTEchoWriter._walk_* (%d handlers)' % len(astwriter.handler_functions()), 'file': 'pico8/lua/lua.py',
                          'line': cls.lineno, 'sha256': hashlib.sha256(ast.unparse(cls).encode()).hexdigest(), 'ints': '-'})
    for name, ok, detail in res:
        if ok is None:
            chk.undecide('%s: %s' % (name, detail))
        else:
            ground.account(chk, [(name, ok, detail)], 'PATHS')
    # nothing else touches _indent
    touched = []
    for f in cls.body:
        if isinstance(f, ast.FunctionDef) and not f.name.startswith('_walk_') and f.name != '__init__':
            if any(isinstance(n, ast.Attribute) and n.attr == '_indent' and isinstance(n.ctx, ast.Store) for n in ast.walk(f)):
                touched.append(f.name)
    ground.account(chk, [('SCAN:indent/_indent starts at 0 and is written only by the _walk_* handlers',
                          not touched and 'self._indent = 0' in ast.unparse(cls), str(touched))], 'SCAN')
    fw = ast.unparse(source.find_function('pico8.lua.lua:LuaFormatterWriter._get_code_for_spaces').node)
    ok = "b'\\n' + b' ' * self._indent_mult * self._indent" in fw and "self._indent_mult = self._args.get('indentwidth', LuaFormatterWriter.DEFAULT_INDENT_WIDTH)" in \
        ast.unparse(source.find_function('pico8.lua.lua:LuaFormatterWriter.__init__').node)
    ground.account(chk, [('SCAN:indent/a token on its own line is indented by indentwidth x _indent (the depth at that token)', ok, '')], 'SCAN')
    big = tier == 'thorough'
    nat = astnative.run('canon', seed, 600 if big else 80, depth=3, widths=tuple(range(9)) if big else (0, 2, 3))
    if nat.get('timeout') or nat.get('error'):
        chk.undecide('BOUNDED:c10/canonical-form run did not finish: %s' % (nat.get('error') or 'timeout'))
    else:
        chk.bounded = {'rule': 'BOUNDED: %d reference-grammar programs, one statement per line, each in three groups of layouts with the same line '
                               'breaks (re-indented with spaces / tabs, trailing blanks, CRLF; blank-line runs of varying length and blanks; -- and // '
                               'comment lines) x indent widths %s: one output per group, fixed point, no trailing whitespace, at most one blank line, '
                               'none at the end, indentation == indentwidth x independently recomputed depth' % (nat['programs'], 'all 0-8' if big else '{0,2,3}'),
                       'evaluations': nat['runs'], 'failures': len(nat['bad'])}
        if nat['bad']:
            for v in chk.violations:
                if not v['confirmed']:
                    p = json.load(open(v['replay']))
                    p['native_witness'] = nat['bad'][:2]
                    json.dump(p, open(v['replay'], 'w'), indent=1, default=str)
                    v['confirmed'] = True
            if not chk.violations:
                chk.violation('BOUNDED:c10/formatter output is not canonical', {'witness': nat['bad'][:4]}, True)
    if chk.bounded and nat.get('corpus'):
        chk.bounded['rule'] += '.  Plus %d runs over the hand-written corpus specs/luacorpus.py (shapes random generation reaches only by luck)' % nat['corpus']
    tri = trivianative.run(5 if big else 4, tuple(range(9)) if big else (0, 2, 3))
    if tri.get('timeout') or tri.get('error'):
        chk.undecide('BOUNDED:c10/trivia-run enumeration did not finish: %s' % (tri.get('error') or 'timeout'))
    else:
        if chk.bounded:
            chk.bounded['rule'] += ('.  Plus EXHAUSTIVE: all %d trivia runs of up to %d symbols over {blank, tab, LF, CRLF, -- line, // line, comment with a '
                                    'trailing blank} at the start of the code, between statements at depth 0 and depth 2, and at the end of the code: same '
                                    'output clauses, fixed point, and one output per class of runs that differ only in leading / trailing blanks of '
                                    'their lines (%d classes)' % (tri['runs'], tri['n'], tri['groups']))
            chk.bounded['evaluations'] += tri['evaluations']
            chk.bounded['failures'] += len(tri['bad10'])
        if tri['bad10'] and not nat.get('bad'):
            for v in chk.violations:
                if not v['confirmed']:
                    p = json.load(open(v['replay']))
                    p['native_witness'] = tri['bad10'][:2]
                    json.dump(p, open(v['replay'], 'w'), indent=1, default=str)
                    v['confirmed'] = True
            if not chk.violations:
                chk.violation('BOUNDED:c10/formatter output is not canonical (trivia-run enumeration)', {'witness': tri['bad10'][:4]}, True)
    chk.native_witness = (nat.get('bad') or []) + (tri.get('bad10') or [])
    clinative.fold(chk, 'luafmt')
    chk.trust('control-path enumeration with dataflow events over the real handlers (pyvc/effects.py), correlated branches on the same flag respected; '
              'reference grammar, reference tokenizer and an independent depth counter (bounded part)')
    chk.assume('the regular-expression substitution pipeline is outside the reach of the solvers (replace_all chains): bounded only')
    chk.assume('in _walk_StatIf the order else-before-if, which the parser never builds, is tolerated by the path analysis')
    return chk.finish(explanation='partial proof (indent bookkeeping on all control paths of all handlers) + bounded canonical-form runs (never counted as proved)')
