"""C14: build embeds each require()d package once and leaves all code intact.

Partly within reach of contracts (level `other`):
  PROVED (all control paths of the real functions, enumerated from the ast with dataflow events; pyvc/effects.py)
     * _evaluate_require: a package is loaded and stored under its require string only on paths where that string was NOT yet
       in the package table, the store happens before the recursive descent into the package (so cycles and shared packages
       terminate with one entry each), a missing file raises LuaBuildError before anything is opened, and the recursion resolves
       relative to the loaded package's own file;
     * RequireWalker._walk_FunctionCall: a require() is yielded only on paths where every argument-shape error test was
       negative (1 or 2 arguments; a string literal; the one option {use_game_loop=<bool>});
     * _prepend_package_lua: statement order = package table preamble, then per table entry in insertion order the header
       `package._c["<name>"]=function()`, the package's lines, a newline if the last line has none, `end`; then the loader,
       then the main program's lines; with no packages the main program is returned unchanged.
  BOUNDED package graphs (single, shared / diamond, nested directories, custom load path) x bodies from the reference grammar
     with game-loop functions at the start / middle / end, with and without final newline, x use_game_loop: the built cart's
     code re-lexed by the reference tokenizer == preamble + each package once (minus its game-loop definitions) + loader + main
     tokens; unresolvable or malformed require() must fail the build.
"""
import ast
import json

from pyvc.report import Check
from pyvc import source, effects, ground
from bounded import buildnative, clinative

BUILD = 'pico8.build.build'


def evaluate_require_obligations(chk):
    fn = source.find_function(BUILD + ':_evaluate_require')
    chk.functions.append({'function': fn.qual, 'file': 'pico8/build/build.py', 'line': fn.line, 'sha256': fn.sha, 'ints': '-'})
    raising = ('LuaBuildError',)
    outs = effects.Paths(may_raise=lambda c: False, dataflow=True, max_iter=2, limit=400000).function(fn.node)
    res = []
    bad_store, bad_order, bad_open, bad_skip, nstores = [], [], [], [], 0
    for kind, t in outs:
        fresh = False           # `require_path not in package_lua` established since the last iteration start
        stored = False
        located = None
        for e in list(t) + ([('iterate',)] if kind != 'raise' else []):
            if e[0] == 'iterate':
                if fresh and located is True and not stored:
                    bad_skip.append('an iteration with a new require string and a located file ends without entering the package in the table')
                fresh, stored, located = False, False, None
            elif e[0] == 'assume' and ast.unparse(e[1]) == 'require_path not in package_lua':
                fresh = e[2]
            elif e[0] == 'assume' and ast.unparse(e[1]) == 'reqd_filepath is None':
                located = not e[2]
            elif e[0] == 'assign' and ast.unparse(e[1]) == 'package_lua[require_path]':
                nstores += 1
                stored = True
                if not fresh:
                    bad_store.append('package_lua[require_path] stored without the `not in package_lua` test')
            elif e[0] == 'call' and e[1] == '_evaluate_require':
                if not stored:
                    bad_order.append('recursive descent before the package is entered in the table')
                args = list(e[2]) + ['%s=%s' % kv for kv in e[3]]
                if not (e[2][:2] == ('reqd_lua', 'reqd_filepath') or ('file_path', 'reqd_filepath') in e[3]):
                    bad_order.append('recursive descent does not resolve relative to the loaded package file: %s' % (args,))
            elif e[0] == 'call' and e[1] == 'open':
                if located is not True or e[2][:1] != ('reqd_filepath',):
                    bad_open.append('open(%s) without a located file' % (', '.join(e[2]),))
    res.append(('PATHS:require/on all %d paths a package is stored under its require string only if that string was not in the table yet'
                % len(outs), not bad_store and nstores > 0, str(sorted(set(bad_store))[:2])))
    res.append(('PATHS:require/every require string that is not in the table yet and whose file is found is entered in the table (no name is skipped)',
                not bad_skip, str(sorted(set(bad_skip))[:2])))
    res.append(('PATHS:require/the package is entered in the table before the recursive descent, which resolves relative to the package\'s own file',
                not bad_order, str(sorted(set(bad_order))[:2])))
    res.append(('PATHS:require/only the located file is opened; an unresolved require() raises LuaBuildError first', not bad_open and
                "if reqd_filepath is None:\n                raise LuaBuildError(" in ast.unparse(fn.node).replace('            if reqd_filepath is None:\n                raise LuaBuildError(', 'if reqd_filepath is None:\n                raise LuaBuildError('),
                str(sorted(set(bad_open))[:2])))
    t = ast.unparse(fn.node)
    ok = 'for s in reqd_lua.root.stats if isinstance(s, parser.StatFunction) and s.funcname.namepath[0].value in GAME_LOOP_FUNCTION_NAMES' in t.replace('\n', ' ').replace('  ', ' ').replace('  ', ' ') \
        and 'if not use_game_loop:' in t and 'if not any((s.start_pos <= i < s.end_pos for s in loop_stats))' in t
    res.append(('SHAPE:require/without use_game_loop exactly the tokens of the top-level game-loop function definitions are removed from the package', ok, ''))
    consts = source.module_info(BUILD)['consts']
    res.append(('GROUND:require/GAME_LOOP_FUNCTION_NAMES == (_init, _update, _update60, _draw)',
                tuple(consts.get('GAME_LOOP_FUNCTION_NAMES', ())) == (b'_init', b'_update', b'_update60', b'_draw'), str(consts.get('GAME_LOOP_FUNCTION_NAMES'))))
    return res


def walker_obligations(chk):
    fn = source.find_function(BUILD + ':RequireWalker._walk_FunctionCall')
    chk.functions.append({'function': fn.qual, 'file': 'pico8/build/build.py', 'line': fn.line, 'sha256': fn.sha, 'ints': '-'})
    # a call of _error_at_node never returns (it raises): paths continue only where the test was false
    outs = effects.Paths(may_raise=lambda c: c == 'self._error_at_node', dataflow=True).function(fn.node)
    need = ['len(arg_exps) < 1 or len(arg_exps) > 2',
            'not isinstance(arg_exps[0], parser.ExpValue) or not isinstance(arg_exps[0].value, lexer.TokString)']
    need2 = ['not isinstance(arg_exps[1], parser.ExpValue) or not isinstance(arg_exps[1].value, parser.TableConstructor)',
             "len(arg_exps[1].value.fields) != 1 or arg_exps[1].value.fields[0].key_name != lexer.TokName(b'use_game_loop') or type(arg_exps[1].value.fields[0].exp.value) != bool"]
    bad, nyield = [], 0
    for kind, t in outs:
        neg, pos = set(), set()
        alive = True
        for e in t:
            if e[0] == 'assume':
                (pos if e[2] else neg).add(ast.unparse(e[1]))
            if e[0] == 'ret' and e[1] == 'self._error_at_node':
                alive = False          # infeasible continuation: _error_at_node raises
            if e[0] == 'yield' and alive:
                nyield += 1
                missing = [c for c in need if c not in neg]
                if 'len(arg_exps) == 2' in pos:
                    missing += [c for c in need2 if c not in neg]
                if missing:
                    bad.append('a require() is yielded although not ruled out: %s' % missing[0][:80])
                if "isinstance(node.exp_prefix, parser.VarName) and node.exp_prefix.name == lexer.TokName(b'require')" not in pos:
                    bad.append('a call that is not require(...) is yielded')
    err = ast.unparse(source.find_function(BUILD + ':RequireWalker._error_at_node').node)
    return [('PATHS:require-args/a require() is yielded only where every argument-shape error test was negative (1-2 arguments, string literal, the '
             'single option use_game_loop=<bool>) (%d yielding paths)' % nyield, not bad and nyield > 0, str(sorted(set(bad))[:2])),
            ('SHAPE:require-args/_error_at_node raises LuaBuildError', 'raise LuaBuildError(msg, self._tokens[node.start_pos])' in err, '')]


def prepend_obligations(chk):
    fn = source.find_function(BUILD + ':_prepend_package_lua')
    chk.functions.append({'function': fn.qual, 'file': 'pico8/build/build.py', 'line': fn.line, 'sha256': fn.sha, 'ints': '-'})
    body = [ast.unparse(s) for s in fn.node.body if not (isinstance(s, ast.Expr) and isinstance(s.value, ast.Constant))]
    want = ['if not package_lua:\n    return orig_ast', 'package_header = []', 'package_header.extend(REQUIRE_LUA_PREAMBLE_PACKAGE)',
            "for pth, ast in package_lua.items():\n    escaped_pth = pth.replace(b'\"', b'\\\\\"')\n    package_header.append(b'package._c[\"' + escaped_pth + b'\"]=function()\\n')\n"
            "    package_header.extend(ast.to_lines())\n    if not package_header[-1].endswith(b'\\n'):\n        package_header.append(b'\\n')\n    package_header.append(b'end\\n')",
            'package_header.extend(REQUIRE_LUA_PREAMBLE_REQUIRE)', 'new_code = package_header + list(orig_ast.to_lines())',
            'return lua.Lua.from_lines(new_code, version=game.DEFAULT_VERSION)']
    res = [('SHAPE:package-emission/preamble, then per table entry (insertion order) header + package lines + newline if missing + end, then the loader, '
            'then the main program\'s lines; no packages: the main program unchanged', body == want, str([b for b in body if b not in want][:2]))]
    consts = source.module_info(BUILD)['consts']
    pk = b''.join(consts.get('REQUIRE_LUA_PREAMBLE_PACKAGE', ()))
    rq = b''.join(consts.get('REQUIRE_LUA_PREAMBLE_REQUIRE', ()))
    res.append(('GROUND:package-emission/the preamble creates package.loaded and package._c, and the loader defines require(p) returning '
                'package.loaded[p] after running package._c[p] once', pk == b'package={loaded={},_c={}}\n' and rq.startswith(b'function require(p)\n') and
                b'l[p]=package._c[p]()' in rq and rq.rstrip().endswith(b'end') and b'return l[p]' in rq, repr(rq)[:200]))
    db = ast.unparse(source.find_function(BUILD + ':do_build').node)
    ok = 'package_lua = {}' in db and "_evaluate_require(result.lua, file_path=fn, package_lua=package_lua, lua_path=getattr(args, 'lua_path', None))" in db \
        and 'result.lua = _prepend_package_lua(result.lua, package_lua)' in db
    res.append(('SHAPE:package-emission/do_build resolves the requires of the --lua file into a fresh table and prepends it to that program', ok, ''))
    return res


def run(tier, seed):
    chk = Check('C14', 'other', tier, seed)
    try:
        ground.account(chk, evaluate_require_obligations(chk), 'PATHS')
        ground.account(chk, walker_obligations(chk), 'PATHS')
        ground.account(chk, prepend_obligations(chk), 'SHAPE')
    except (NotImplementedError, effects.TooManyPaths) as e:
        chk.undecide('a build function left the subset of the path analysis: %r' % (e,))
    nat = buildnative.run(seed)
    if nat.get('timeout') or nat.get('error'):
        chk.undecide('BOUNDED:c14/package-graph run did not finish: %s' % (nat.get('error') or 'timeout'))
    else:
        chk.bounded = {'rule': 'BOUNDED: %d builds through the real do_build: {single package, single with use_game_loop, shared package (diamond), nested '
                               'directory, custom load path} x package bodies from the reference grammar with game-loop functions at {none, start, '
                               'middle, end, all three} x {final newline, none}; built code re-lexed with the reference tokenizer == preamble + '
                               'each package exactly once (minus its game-loop definitions unless use_game_loop) + loader + main tokens; missing '
                               'file / non-literal / 3 arguments / unknown option / non-boolean option must fail' % nat['n'],
                       'evaluations': nat['n'], 'failures': len(nat['bad'])}
        chk.native_witness = nat['bad']
        for v in chk.violations:
            if not v['confirmed'] and nat['bad']:
                p = json.load(open(v['replay']))
                p['native_witness'] = nat['bad'][:2]
                json.dump(p, open(v['replay'], 'w'), indent=1, default=str)
                v['confirmed'] = True
        if nat['bad'] and not chk.violations and not chk.structural_fail:
            chk.violation('BOUNDED:c14/built cart differs from the prescription', {'witness': nat['bad'][:4]}, True)
    chk.trust('control-path enumeration with dataflow events over the real build functions (pyvc/effects.py); reference grammar and tokenizer (bounded)')
    chk.assume('the dict package_lua iterates in insertion order (Python); Lua.to_lines of a package is its code (C06); where candidates are looked for is C12')
    chk.assume('"parses, defines each name once, tokens intact" for arbitrary packages needs the parser / writer completeness that C08 / C09 only bound: '
               'that part is the bounded package-graph run (never counted as proved)')
    clinative.fold(chk, 'build')
    return chk.finish(explanation='partial proof (visited-once / order / argument validation / emission shape on all control paths) + bounded package-graph builds')
