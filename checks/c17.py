"""C17: section accessors read back what was set and touch nothing else."""
from pyvc.report import Check
from pyvc import units
from contracts import sections


def run(tier, seed):
    chk = Check('C17', 'proof', tier, seed)
    reg = units.registry()
    units.run_contracts(chk, sections.CONTRACTS, reg, tier, seed)
    units.replay_known(chk, reg)
    chk.trust('pyvc symbolic executor (ast of the real source -> z3 QF_UFBV/UFBV); loop invariants and callee '
              'contracts from /verif/contracts/sections.py; plain models in /verif/specs/models.py')
    chk.trust('z3 (python wheel 5.1.0); cvc5 only for z3 unknowns')
    chk.assume('ints="bv": python ints as 32-bit vectors, exact because every arithmetic node carries a '
               'discharged no-wrap obligation; argument magnitudes (offsets, row counts, row lengths, tile '
               'counts) are bounded by 2**20 (2**12 tiles for get_sprite) -- larger values are not covered')
    chk.assume('in-contract arguments: ids / coordinates / note numbers in their documented ranges, colour values '
               '0..16 (16 = TRANSPARENT), tile ids and property values 0..255; set_rect_tiles on a Map without a '
               'Gfx must fit the 32 rows (the method has no clipping contract there)')
    chk.assume('region buffers are bytearrays of the PICO-8 sizes; Map._data and Map._gfx._data are distinct objects')
    chk.assume('histories: every contract describes the whole post-state as a function of the pre-state, so '
               'sequences of accessor calls follow by composition')
    chk.assume('not under contract: Map.get_rect_pixels (composition of get_rect_tiles and get_sprite through '
               'aliased list-of-bytearray temporaries, outside the executor subset)')
    return chk.finish()
