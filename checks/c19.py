"""C19: luamin keeps the title and author comments that PICO-8 reads (shares the machinery of C01)."""
from checks import c01


def run(tier, seed):
    return c01.run(tier, seed, prop='C19')
