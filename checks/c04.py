"""C04: .p8.png cart write/read round trip preserves cart and label picture.

Discharged (unbounded): the per-pixel pack / unpack contracts against PngSpec (shared with C16: low two bits per channel
carry the byte, upper six bits of every channel are the label's, pixels beyond the data are copied), and the code-area
contracts (shared with C05: layout, header, raw / compressed choice, fit refusal, decoder).  Glue obligations, read off
the real source on every run (LAYOUT): the writer joins gfx|map|gff|music|sfx|code|version in the PICO-8 memory order,
the reader slices at the PngSpec offsets, each slice goes to the section of the same name, the label source is the
existing destination else the bundled blank label.  BOUNDED (never counted as proved): whole-file round trips through the
public writer, an independent PNG decoder (zlib + the five filter types) and the public reader.
"""
import ast
import json
import os
import subprocess

from pyvc.report import Check
from pyvc import units, ground, source

PNG = 'pico8.game.formatter.p8png'
MEMMAP = (('gfx', 0x0000, 0x2000), ('map', 0x2000, 0x3000), ('gff', 0x3000, 0x3100), ('music', 0x3100, 0x3200),
          ('sfx', 0x3200, 0x4300), ('code', 0x4300, 0x8000))          # PICO-8 cart memory map (PngSpec), version byte at 0x8000
READER_FIELD = {'gfx': 'gfx', 'map': 'p8map', 'gff': 'gfx_props', 'music': 'song', 'sfx': 'sfx', 'code': 'codedata'}


def layout_obligations(chk):
    res = []
    # ---- writer
    wf = source.find_function(PNG + ':P8PNGFormatter.to_file')
    chk.functions.append({'function': wf.qual, 'file': 'pico8/game/formatter/p8png.py', 'line': wf.line, 'sha256': wf.sha, 'ints': '-'})
    join = None
    for n in ast.walk(wf.node):
        if isinstance(n, ast.Assign) and ast.unparse(n.targets[0]) == 'picodata' and isinstance(n.value, ast.Call) and \
                ast.unparse(n.value.func) == "b''.join":
            join = n.value.args[0]
    parts = [ast.unparse(e) for e in join.elts] if isinstance(join, (ast.Tuple, ast.List)) else None

    def region_expr(txt, name):
        """`game.<name>.to_bytes()`, optionally padded to the region size with ljust."""
        base = 'game.%s.to_bytes()' % name
        size = dict((n, hi - lo) for n, lo, hi in MEMMAP)[name]
        return txt == base or txt in ('%s.ljust(%d, b\'\\x00\')' % (base, size), '%s.ljust(%s, b\'\\x00\')' % (base, hex(size)),
                                      'bytes(%s).ljust(%d, b\'\\x00\')' % (base, size))
    ok = parts is not None and len(parts) == 7 and all(region_expr(parts[i], MEMMAP[i][0]) for i in range(5)) and \
        parts[5] == 'code_bytes' and parts[6] == 'bytes((game.version,))'
    res.append(('LAYOUT:png-writer/cart memory is joined as gfx | map | gff | music | sfx | code area | version byte (PICO-8 memory map)', ok, str(parts)))
    txt = ast.unparse(wf.node)
    ok = "code_bytes = get_bytes_from_code(b''.join(cart_lua))" in txt and \
        'cart_lua = game.lua.to_lines(writer_cls=lua_writer_cls, writer_args=lua_writer_args)' in txt
    res.append(('LAYOUT:png-writer/the code area is get_bytes_from_code of the concatenated output of the Lua writer', ok, ''))
    ok = 'label_fname = label_fname or EMPTY_LABEL_FNAME' in txt and "with open(label_fname, 'rb') as label_fh:" in txt and \
        'new_rows = get_pngdata_from_picodata(picodata, img_data, attrs)' in txt and 'wr.write(outstr, new_rows)' in txt and \
        'wr = png.Writer(width, height, **attrs)' in txt and 'width, height, img_data, attrs = r.read()' in txt
    res.append(('LAYOUT:png-writer/the image written is get_pngdata_from_picodata(memory, label pixels) with the label read from label_fname, '
                'else from the bundled blank label, in the label\'s own geometry', ok, ''))
    # ---- reader
    rf = source.find_function(PNG + ':get_raw_data_from_p8png_file')
    chk.functions.append({'function': rf.qual, 'file': 'pico8/game/formatter/p8png.py', 'line': rf.line, 'sha256': rf.sha, 'ints': '-'})
    rtxt = [ast.unparse(s) for s in ast.walk(rf.node) if isinstance(s, ast.Assign)]
    want = ['data.%s = picodata[%s:%s]' % (READER_FIELD[n], lo, hi) for n, lo, hi in MEMMAP]
    got = {}
    for s in ast.walk(rf.node):
        if isinstance(s, ast.Assign) and isinstance(s.targets[0], ast.Attribute) and isinstance(s.value, ast.Subscript) and \
                ast.unparse(s.value.value) == 'picodata' and isinstance(s.value.slice, ast.Slice):
            try:
                got[s.targets[0].attr] = (ast.literal_eval(s.value.slice.lower), ast.literal_eval(s.value.slice.upper))
            except Exception:
                got[s.targets[0].attr] = None
    ok = all(got.get(READER_FIELD[n]) == (lo, hi) for n, lo, hi in MEMMAP) and 'data.version = picodata[32768]' in rtxt
    res.append(('LAYOUT:png-reader/memory is sliced at the PICO-8 offsets 0x0000 0x2000 0x3000 0x3100 0x3200 0x4300 and the version byte is at 0x8000',
                ok, str(got)))
    ok = 'picodata = get_picodata_from_pngdata(width, height, data, attrs)' in rtxt and \
        any('get_code_from_bytes(data.codedata, data.version)' in t for t in rtxt)
    res.append(('LAYOUT:png-reader/memory comes from get_picodata_from_pngdata of the decoded image; the code is get_code_from_bytes(code area, version)', ok, ''))
    ff = source.find_function(PNG + ':P8PNGFormatter.from_file')
    ft = ast.unparse(ff.node)
    pairs = [('gfx', 'Gfx.from_bytes(data.gfx, version=data.version)'), ('gff', 'Gff.from_bytes(data.gfx_props, version=data.version)'),
             ('map', 'Map.from_bytes(data.p8map, version=data.version, gfx=new_game.gfx)'), ('sfx', 'Sfx.from_bytes(data.sfx, version=data.version)'),
             ('music', 'Music.from_bytes(data.song, version=data.version)'), ('lua', 'Lua.from_lines([data.code], version=data.version)'),
             ('version', 'data.version')]
    ok = all('new_game.%s = %s' % (a, b) in ft for a, b in pairs)
    res.append(('LAYOUT:png-reader/each slice becomes the section of the same name (from_bytes keeps the bytes), the map shares the loaded gfx, '
                'the version is the version byte', ok, ''))
    fb = source.find_function('pico8.util:BaseSection.from_bytes')
    tb = source.find_function('pico8.util:BaseSection.to_bytes')
    ok = 'return cls(data=data, version=version)' in ast.unparse(fb.node) and 'return self._data' in ast.unparse(tb.node) and \
        'self._data = bytearray(data)' in ast.unparse(source.find_function('pico8.util:BaseSection.__init__').node)
    res.append(('LAYOUT:sections/from_bytes stores and to_bytes returns the region bytes unchanged', ok, ''))
    # ---- label source chosen by file.to_file
    tf = source.find_function('pico8.game.file:to_file')
    t = ast.unparse(tf.node)
    ok = "if kwargs.get('label_fname', None) is None:\n            if os.path.exists(filename):\n                kwargs['label_fname'] = filename" in t \
        and 'fmt.to_file(game, outfh, *args, filename=filename, **kwargs)' in t.replace('fmt.to_file(game, outfh, filename=filename, *args, **kwargs)', 'fmt.to_file(game, outfh, *args, filename=filename, **kwargs)')
    res.append(('LAYOUT:file.to_file/the label source is the existing destination unless the caller names one', ok, ''))
    return res


_NATIVE = r'''
import io, json, os, random, shutil, struct, sys, tempfile, zlib
from pico8.game import file as pfile, game
from pico8.game.formatter import p8png
from pico8 import util
util.set_verbosity(util.VERBOSITY_QUIET)
sys.path.insert(0, @VERIF@)
from specs.pngref import png_decode, mem_from_pixels
rnd = random.Random(@SEED@)
work = os.path.realpath(tempfile.mkdtemp(prefix='c04_'))
blank = open(p8png.EMPTY_LABEL_FNAME, 'rb').read()
def rand_game(code):
    g = game.Game.make_empty_game(filename='x.p8')
    g.lua.update_from_lines([code] if code else [])
    for s in ('gfx', 'gff', 'map', 'sfx', 'music'):
        d = getattr(g, s)._data
        for i in range(len(d)): d[i] = rnd.randint(0, 255)
    g.version = rnd.choice([0, 5, 8, 16, 29, 33, 41])
    return g
def incompressible(n):
    # bytes outside the compression table, no trigram occurs twice -> no block reference is possible, every byte costs two
    out, seen = bytearray(), set()
    while len(out) < n:
        b = rnd.randint(0x80, 0xff)
        if len(out) >= 2:
            t = (out[-2], out[-1], b)
            if t in seen: continue
            seen.add(t)
        out.append(b)
    return bytes(out)
codes = [('empty', b''), ('one char', b'x'), ('short', b'x=1\nprint(x)\n'), ('no final newline', b'x=1'), ('compressible', b'print("hello world")\n' * 200),
         ('mentions _update60', b'function _update60()\n x=1\nend\n' + b'y=y+1\n' * 100), ('CRLF', b'x=1\r\ny=2\r\n'),
         ('incompressible 0x3cf0', incompressible(0x3cf0) + b'\n'), ('incompressible 0x3cff', incompressible(0x3cfe) + b'\n'), ('incompressible, fills the area exactly (0x3d00)', incompressible(0x3d00))]
bad, n = [], 0
def norm(c):
    # the reader's normalisation (named in the statement): CR becomes a blank, one trailing newline is appended
    return c.replace(b'\r', b' ').rstrip(b'\n')
QUICK = @QUICK@
for ci, (desc, code) in enumerate(codes):
    for existing in (False, True):
        if QUICK and existing and ci % 3 != 1: continue
        n += 1
        dest = os.path.join(work, 'c%d.p8.png' % n)
        label_src = blank
        if existing:
            g0 = rand_game(b'old=1\n'); pfile.to_file(g0, dest)
            # arbitrary label pixels: scramble the upper six bits of an existing cart image
            w, h, rows = png_decode(open(dest, 'rb').read())
            import png as _png
            for r in rows:
                for i in range(len(r)): r[i] = (r[i] & 3) | (rnd.randint(0, 63) << 2)
            with open(dest, 'wb') as fh: _png.Writer(w, h, greyscale=False, alpha=True, bitdepth=8).write(fh, [bytes(r) for r in rows])
            label_src = open(dest, 'rb').read()
        g = rand_game(code)
        try:
            pfile.to_file(g, dest)
        except Exception as e:
            bad.append([desc, existing, 'write raised %s: %s' % (type(e).__name__, e)]); continue
        data = open(dest, 'rb').read()
        try:
            w, h, rows = png_decode(data)
        except Exception as e:
            bad.append([desc, existing, 'output is not a valid PNG: %s' % e]); continue
        lw, lh, lrows = png_decode(label_src)
        if (w, h) != (lw, lh) or any((a & 0xfc) != (b & 0xfc) for ra, rb in zip(rows, lrows) for a, b in zip(ra, rb)):
            bad.append([desc, existing, 'upper six bits differ from the label source']); continue
        mem = mem_from_pixels(w, h, rows)
        exp = bytes(g.gfx._data) + bytes(g.map._data) + bytes(g.gff._data) + bytes(g.music._data) + bytes(g.sfx._data)
        if bytes(mem[:0x4300]) != exp: bad.append([desc, existing, 'data regions in the image differ (independent decoder)']); continue
        if mem[0x8000] != g.version: bad.append([desc, existing, 'version byte %d != %d' % (mem[0x8000], g.version)]); continue
        g2 = pfile.from_file(dest)
        for s in ('gfx', 'gff', 'map', 'sfx', 'music'):
            if bytes(getattr(g2, s)._data) != bytes(getattr(g, s)._data): bad.append([desc, existing, 'region %s differs after reading back' % s])
        if g2.version != g.version: bad.append([desc, existing, 'version differs after reading back'])
        c2 = b''.join(g2.lua.to_lines())
        if norm(c2) != norm(code): bad.append([desc, existing, 'code differs after reading back: %r... vs %r...' % (c2[:40], code[:40])])
# every cart version with code stored compressed and with code stored raw (the reader must go by the code area's header alone)
for ver in (0, 1, 4, 5, 7, 8, 16, 41, 255):
    for desc, code in (('compressible', b'print("hello world")\n' * 60), ('raw', b'x=1\n')):
        n += 1
        g = rand_game(code); g.version = ver
        dest = os.path.join(work, 'ver%d.p8.png' % n)
        try:
            pfile.to_file(g, dest); g2 = pfile.from_file(dest)
        except Exception as e:
            bad.append(['version %d, %s code' % (ver, desc), False, 'raised %s: %s' % (type(e).__name__, e)]); continue
        c2 = b''.join(g2.lua.to_lines())
        if norm(c2) != norm(code): bad.append(['version %d, %s code' % (ver, desc), False, 'code differs after reading back: %r... vs %r...' % (c2[:40], code[:40])])
        if g2.version != ver: bad.append(['version %d, %s code' % (ver, desc), False, 'version read back as %r' % (g2.version,)])
# does not fit: must be refused, destination untouched
for desc, code in (('incompressible 0x3d01', incompressible(0x3d01)), ('incompressible 0x4000', incompressible(0x4000)), ('incompressible 70000', incompressible(70000))):
    for existing in (False, True):
        n += 1
        dest = os.path.join(work, 'big%d.p8.png' % n)
        before = None
        if existing:
            pfile.to_file(rand_game(b'old=1\n'), dest); before = open(dest, 'rb').read()
        try:
            pfile.to_file(rand_game(code), dest); ok = False
        except Exception as e:
            ok = True
        after = open(dest, 'rb').read() if os.path.exists(dest) else None
        if not ok: bad.append([desc, existing, 'oversized code was written without an error'])
        elif after != before: bad.append([desc, existing, 'refused, but the destination changed'])
# .p8 -> .p8.png -> .p8
for desc, code in codes[:6]:
    n += 1
    g = rand_game(code)
    for i in range(3, len(g.music._data), 4): g.music._data[i] &= 0x7f
    a, b, c = (os.path.join(work, 'conv%d%s' % (n, e)) for e in ('a.p8', 'b.p8.png', 'c.p8'))
    pfile.to_file(g, a); pfile.to_file(pfile.from_file(a), b); pfile.to_file(pfile.from_file(b), c)
    g3 = pfile.from_file(c)
    for s in ('gfx', 'gff', 'map', 'sfx', 'music'):
        if bytes(getattr(g3, s)._data) != bytes(getattr(g, s)._data): bad.append([desc, '.p8->.p8.png->.p8', 'region %s differs' % s])
    if norm(b''.join(g3.lua.to_lines())) != norm(code): bad.append([desc, '.p8->.p8.png->.p8', 'code differs'])
shutil.rmtree(work, ignore_errors=True)
print(json.dumps({'n': n, 'bad': bad[:8]}))
'''


def native_start(seed, quick):
    env = {'PYTHONPATH': source.REPO, 'PATH': '/usr/bin:/bin', 'PYTHONDONTWRITEBYTECODE': '1', 'HOME': '/nonexistent'}
    return subprocess.Popen([source.REAL_PY, '-c', _NATIVE.replace('@SEED@', str(seed)).replace('@QUICK@', '1' if quick else '0').replace('@VERIF@', repr(os.path.dirname(os.path.dirname(os.path.abspath(__file__)))))],
                            stdout=subprocess.PIPE, stderr=subprocess.PIPE, text=True, env=env, cwd='/')


def native_finish(proc):
    try:
        out, err = proc.communicate(timeout=1500)
    except subprocess.TimeoutExpired:
        proc.kill()
        return {'timeout': True, 'n': 0, 'bad': []}
    if proc.returncode != 0:
        return {'error': err[-1500:], 'n': 0, 'bad': []}
    return json.loads(out)


def run(tier, seed):
    chk = Check('C04', 'proof', tier, seed)
    proc = native_start(seed, tier != 'thorough')
    reg = units.registry()
    ground.account(chk, layout_obligations(chk), 'LAYOUT')
    cs = [reg[t] for t in (PNG + ':get_picodata_from_pngdata', PNG + ':get_pngdata_from_picodata', PNG + ':get_bytes_from_code',
                           PNG + ':get_code_from_bytes')]
    units.run_contracts(chk, cs, reg, tier, seed)
    units.replay_known(chk, reg)
    nat = native_finish(proc)
    if nat.get('timeout') or nat.get('error'):
        chk.undecide('BOUNDED:c04/native round trips did not finish: %s' % (nat.get('error') or 'timeout'))
    chk.native_witness = nat.get('bad')
    for v in chk.violations:
        if not v['confirmed'] and nat.get('bad'):
            p = json.load(open(v['replay']))
            p['native_witness'] = nat['bad'][:3]
            json.dump(p, open(v['replay'], 'w'), indent=1, default=str)
            v['confirmed'] = True
    chk.bounded = {'rule': 'BOUNDED: carts with random regions and versions x code {empty, one char, short, no final newline, compressible, '
                           '_update60, CRLF, incompressible just below / exactly at the 0x3d00 area} x {no destination, existing destination with '
                           'random label pixels} through file.to_file, an independent PNG decoder (CRC, zlib, five filters) + independent 2-bit '
                           'unpack, and file.from_file; oversized code must be refused with the destination untouched; .p8 -> .p8.png -> .p8',
                   'evaluations': nat.get('n', 0), 'failures': len(nat.get('bad', []))}
    if nat.get('bad') and not chk.violations:
        chk.violation('BOUNDED:c04/native .p8.png round trip', {'witness': nat['bad'][:5]}, True)
    chk.trust('pyvc VC generator + z3 for the pack/unpack and code-area contracts; LAYOUT obligations are read off the real ast and compared with the '
              'PICO-8 memory map (PngSpec)')
    chk.assume('pypng: Writer.write followed by Reader.read is the identity on RGBA8 rows and the output is a valid PNG (assumed; exercised by '
               'the independent decoder in the bounded run)')
    chk.assume('the composition unpack(pack(m, label)) == m and decode(encode(code)) == code follows by matching the callee contracts (same spec '
               'functions); each region has its PICO-8 size (Game objects built by make_empty_game / the formatters)')
    chk.assume('code without NUL bytes; the reader appends a trailing newline and strips CRs (the normalisation named in the statement)')
    return chk.finish()
