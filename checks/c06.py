"""C06: unchanged code stays unchanged -- the default writer echoes the source losslessly.

  1. LuaEchoWriter.to_lines: the REAL loop body is executed symbolically for an arbitrary pending list and an arbitrary
     token (newline or not); the step it performs is  pending' == pending ++ [code]  (no flush)  or  a single chunk
     join(pending ++ [code]) is yielded and pending' == []  (flush at a newline token); after the loop a non-empty pending
     list is flushed.  With these steps the concatenation of all chunks equals the concatenation of all token codes:
     induction over the token list, step discharged by z3 (sequence theory).                              [SYMEX + SMT]
  2. Every token that is not a quoted string stores the matched source text verbatim and the lexer consumes exactly
     that many bytes (read off the real _process_token: `tok_class(m.group(0), ...)`, `i = len(m.group(0))`).  [SHAPE]
  3. Quoted strings: for ALL one- and two-byte values v and both quotes, the real TokString.code spelling of v denotes v
     under an independent decoder written from the Lua / PICO-8 escape rules, AND the real lexer reads it back as v
     (exhaustive, 131,584 literals; pieces are concatenated per byte and the decoder never looks more than one byte
     past an escape of these spellings, so pairs cover every seam).                                         [GROUND]
  4. BOUNDED: echo of a corpus of sources (all string / comment / bracket forms, CRLF, no final newline, as one chunk and
     as per-line chunks) compared byte for byte outside quoted strings and by value inside.
"""
import ast
import json
import subprocess
import z3

from pyvc.report import Check
from bounded import clinative
from pyvc import source, ground
from pyvc import values as V
from pyvc.values import E, SInt, SBool, SSeq, Ref, SymErr, AND, OR, NOT, seq_eq, tobool
from pyvc.execu import Exec, State, BoundMethod, ClassVal, BuiltinVal, feasible
from pyvc.contract import Contract
from pyvc.minify import _BodyContract, _entails

ECHO = 'pico8.lua.lua:LuaEchoWriter.to_lines'
LEXER = 'pico8.lua.lexer'


class _Echo(_BodyContract):
    """token.matches is executed (inlined); b''.join(list of codes) is the list of codes (codes are opaque ids)."""
    target = ECHO

    def join_model(self, ex, sq, st, kind):
        return SSeq(sq.n, sq.get, 'bytes')


def echo_steps():
    """Symbolic execution of the real loop body / epilogue.  Returns [(name, ok, detail)]."""
    fn = source.find_function(ECHO)
    loops = [n for n in fn.node.body if isinstance(n, ast.For)]
    res = []
    if len(loops) != 1 or ast.unparse(loops[0].iter) != 'self._tokens' or ast.unparse(loops[0].target) != 'token':
        raise SymErr('LuaEchoWriter.to_lines is no longer one loop over self._tokens')
    pre = [s for s in fn.node.body[:fn.node.body.index(loops[0])] if not (isinstance(s, ast.Expr) and isinstance(s.value, ast.Constant))]
    post = fn.node.body[fn.node.body.index(loops[0]) + 1:]
    if [ast.unparse(s) for s in pre] != ['strs = []']:
        raise SymErr('unexpected prologue %r' % [ast.unparse(s) for s in pre])
    for cls in ('TokNewline', 'TokName', 'TokString', 'TokComment', 'TokSpace', 'TokSymbol', 'TokNumber', 'TokKeyword', 'TokLabel'):
        E.reset('lia')
        c = _Echo()
        ex = Exec(fn, c, {}, [], prefix='echo-body')
        st = State()
        pending = V.int_seq('pending', kind='list')
        strs = st.alloc(pending, 'list')
        code = V.fresh_int('code')
        tok = st.alloc({'code': code, '_data': code}, LEXER + ':' + cls)
        st.locals.update({'self': st.alloc({}, 'pico8.lua.lua:LuaEchoWriter'), 'token': tok, 'strs': strs,
                          '__yielded__': SSeq.of([], 'list')})
        ex.is_generator = True
        outs = ex.block(loops[0].body, st)
        ok, detail = True, ''
        for o in outs:
            if o.kind not in ('normal', 'continue'):
                ok, detail = False, 'body leaves the loop'
                continue
            y = o.st.locals['__yielded__']
            after = o.st.seq(o.st.locals['strs'])
            want = pending + SSeq.of([code], 'list')
            if not isinstance(y.n, int):
                ok, detail = False, 'symbolic number of chunks'
            elif cls == 'TokNewline':
                good = y.n == 1 and _entails(o.st, seq_eq(SSeq.of(y.get(0)), want)) and _entails(o.st, after.n == 0)
                if not good:
                    ok, detail = False, 'a newline token must flush pending ++ [code] as one chunk and clear the pending list'
            else:
                good = y.n == 0 and _entails(o.st, seq_eq(after, want))
                if not good:
                    ok, detail = False, 'a %s token must only be appended to the pending list' % cls
        res.append(('SYMEX:echo/loop body for a %s token: %s' % (cls, 'flushes pending ++ [code] and clears' if cls == 'TokNewline'
                                                                else 'pending becomes pending ++ [code], nothing is yielded'), ok, detail))
    # epilogue: `if strs: yield join(strs)`
    for empty in (True, False):
        E.reset('lia')
        c = _Echo()
        ex = Exec(fn, c, {}, [], prefix='echo-post')
        st = State()
        pending = V.int_seq('pending', kind='list')
        st.assume(pending.n == 0 if empty else pending.n >= 1)
        st.locals.update({'self': st.alloc({}, 'pico8.lua.lua:LuaEchoWriter'), 'strs': st.alloc(pending, 'list'), '__yielded__': SSeq.of([], 'list')})
        ex.is_generator = True
        outs = ex.block(post, st)
        ok = True
        for o in outs:
            y = o.st.locals['__yielded__']
            if empty:
                ok = ok and isinstance(y.n, int) and y.n == 0
            else:
                ok = ok and isinstance(y.n, int) and y.n == 1 and _entails(o.st, seq_eq(SSeq.of(y.get(0)), pending))
        res.append(('SYMEX:echo/after the loop a %s pending list %s' % ('empty' if empty else 'non-empty', 'yields nothing' if empty else
                                                                       'is flushed as one chunk'), ok and bool(outs), ''))
    return res, fn


def induction_lemma():
    """flat(chunks) ++ pending == codes[:k] is preserved by both kinds of step, and gives the result after the epilogue."""
    S = z3.SeqSort(z3.IntSort())
    F, P, C = z3.Const('flat', S), z3.Const('pending', S), z3.Const('codes_k', S)
    c = z3.Int('code')
    inv = z3.Concat(F, P) == C
    unit = z3.Unit(c)
    out = []
    for name, F2, P2 in (('append', F, z3.Concat(P, unit)), ('flush', z3.Concat(F, z3.Concat(P, unit)), z3.Empty(S))):
        s = z3.Solver()
        s.set('timeout', 20000)
        s.add(inv, z3.Not(z3.Concat(F2, P2) == z3.Concat(C, unit)))
        out.append(('SMT:echo/invariant flat(chunks) ++ pending == codes[:k] is preserved by the %s step' % name, s.check() == z3.unsat, ''))
    s = z3.Solver()
    s.set('timeout', 20000)
    s.add(inv, z3.Not(z3.Concat(F, P) == C))
    s2 = z3.Solver()
    s2.add(z3.Not(z3.Concat(z3.Empty(S), z3.Empty(S)) == z3.Empty(S)))
    out.append(('SMT:echo/invariant holds initially and gives flat(all chunks) == all codes after the final flush', s2.check() == z3.unsat, ''))
    return out


def _class_defs(modname):
    tree = source.mod_ast(modname)[0]
    return {n.name: n for n in tree.body if isinstance(n, ast.ClassDef)}


def _getter(cls, name):
    for n in cls.body:
        if isinstance(n, ast.FunctionDef) and n.name == name and any(ast.unparse(d) == 'property' for d in n.decorator_list):
            return n
    return None


def shape_lexer():
    fn = source.find_function(LEXER + ':Lexer._process_token')
    txt = ast.unparse(fn.node)
    res = []
    ok = 'token = tok_class(m.group(0), self._cur_lineno, self._cur_charno)' in txt and 'self._tokens.append(token)' in txt and \
        'i = len(m.group(0))' in txt
    res.append(('SHAPE:lexer/a token of the matcher table stores the matched text m.group(0) and exactly len(m.group(0)) bytes are consumed', ok, ''))
    classes = _class_defs(LEXER)
    g = _getter(classes['Token'], 'code')
    body = [ast.unparse(s) for s in g.body if not (isinstance(s, ast.Expr) and isinstance(s.value, ast.Constant))] if g is not None else None
    res.append(('SHAPE:lexer/Token.code returns the stored text unchanged (every class but TokString)', body == ['return self._data'], str(body)))
    over = sorted(k for k, c in classes.items() if k != 'Token' and _getter(c, 'code') is not None)
    res.append(('SHAPE:lexer/only TokString overrides code', over == ['TokString'], str(over)))
    tsg = _getter(classes['TokString'], 'code')
    ts = ast.unparse(tsg) if tsg is not None else ''
    ok3 = "return b'[' + self._multiline_quote + b'[' + self._data + b']' + self._multiline_quote + b']'" in ts
    res.append(('SHAPE:lexer/a long-bracket string is written back with its own level and its raw text', ok3, ''))
    return res, fn


_NATIVE = r'''
import sys, json, itertools, random
sys.path.insert(0, @VERIF@)
from specs import reflex
from pico8.lua import lexer, lua
bad_pairs, n_pairs = [], 0
def lex_string(src):
    lx = lexer.Lexer(version=8); lx.process_lines([src])
    return lx.tokens
for q in (b'"', b"'"):
    for L in (1, 2):
        for t in itertools.product(range(256), repeat=L):
            v = bytes(t); n_pairs += 1
            code = lexer.TokString(v, quote=q).code
            if code[:1] != q or code[-1:] != q: bad_pairs.append([v.hex(), 'not quoted']); continue
            try:
                d = reflex.denote(code[1:-1])
            except reflex.Outside as e:
                d = None
            if d != v:
                if len(bad_pairs) < 6: bad_pairs.append([v.hex(), 'code %r denotes %r under the independent decoder' % (code, d)])
                continue
            try:
                toks = lex_string(code)
            except Exception as e:
                if len(bad_pairs) < 6: bad_pairs.append([v.hex(), 'the real lexer raises on %r: %s' % (code, e)])
                continue
            if len(toks) != 1 or not isinstance(toks[0], lexer.TokString) or toks[0].value != v:
                if len(bad_pairs) < 6: bad_pairs.append([v.hex(), 'the real lexer reads %r back as %r' % (code, [getattr(t, 'value', None) for t in toks])])
# U2: every escape unit of the dialect, followed by every kind of continuation, is decoded by the REAL lexer as the
# independent decoder says (and echoing it preserves the value)
units = [b'\\%d' % v for v in range(256)] + [b'\\%02d' % v for v in range(100)] + [b'\\%03d' % v for v in range(256)]
units += [b'\\x%02x' % v for v in range(256)] + [b'\\x%02X' % v for v in range(256)]
units += [b'\\' + bytes([c]) for c in b'abfnrtv\\"\'*#-|+^\n']
bad_units, n_units = [], 0
for q in (b'"', b"'"):
    for u in units:
        for f in (b'', b'0', b'7', b'9', b'a', b'F', b' ', b'x', b'\\n'):
            body = u + f
            try:
                want = reflex.denote(body)
            except reflex.Outside:
                continue
            n_units += 1
            try:
                toks = lex_string(q + body + q)
            except Exception as e:
                if len(bad_units) < 6: bad_units.append([body.decode('latin1'), 'real lexer raised %s' % e]); continue
            if len(toks) != 1 or not isinstance(toks[0], lexer.TokString) or toks[0].value != want:
                if len(bad_units) < 6: bad_units.append([body.decode('latin1'), 'read as %r, the escape rules say %r' % ([getattr(t, 'value', None) for t in toks], want)])
                continue
            try:
                back = reflex.denote(toks[0].code[1:-1])
            except reflex.Outside:
                back = None
            if back != want and len(bad_units) < 6: bad_units.append([body.decode('latin1'), 'echoed as %r which denotes %r' % (toks[0].code, back)])
# bounded echo corpus
rnd = random.Random(@SEED@)
pieces = [b'x = 1', b'print("a\\n\\"b\\065\\x41\\0001")', b"s = 'it\\'s'", b't = [[long\nstring]]', b'u = [==[a]]b]==]', b'-- comment', b'// c2',
          b'--[[ block\ncomment ]]', b'if (a) b=1 else c=2', b'?"x"', b'::lbl:: goto lbl', b'y = 0x1f.8 + 0b101 - 1e+5 * .5', b'z = "\\*\\#\\-\\|\\+\\^"',
          b't = [[\nstarts with a line end]]', b't = [[\n\ntwo]]', b'v = [=[\r\ncrlf first]=]', b'--[[\nblock comment that starts with a line end\n]]',
          b'--[==[\r\n x ]==]', b't = [[]]', b't = [[\n]]', b'f[[\nx]]',
          b'w = "a\\\nb"', b'\x80\x81 = "\xff\x00"'.replace(b'\x00', b'\\0'), b'a<<>b>>>c~=d!=e..=f', b'  \t  ', b'']
seps = [b'\n', b'\r\n', b'\n\n', b' ']
bad_echo, n_echo = [], 0
def strings_outside(src, toks):
    return [t.code for t in toks if not isinstance(t, lexer.TokString)], [t.value for t in toks if isinstance(t, lexer.TokString)]
def check(src):
    global n_echo
    for chunked in (False, True):
        n_echo += 1
        lines = src.split(b'\n')
        chunks = [l + b'\n' for l in lines[:-1]] + ([lines[-1]] if lines[-1] else []) if chunked else [src]
        try:
            l = lua.Lua.from_lines(chunks, version=8)
        except Exception as e:
            continue          # not lexable / parsable: outside the quantifier
        out = b''.join(l.to_lines())
        has_quoted = any(isinstance(t, lexer.TokString) and t._multiline_quote is None for t in l.tokens)
        if not has_quoted:
            if out != src and len(bad_echo) < 6: bad_echo.append([src.hex(), 'echo differs: %r' % out[:120]])
            continue
        try:
            l2 = lua.Lua.from_lines([out], version=8)
        except Exception as e:
            if len(bad_echo) < 6: bad_echo.append([src.hex(), 'echo does not lex: %s' % e]); continue
        a, av = strings_outside(src, l.tokens); b, bv = strings_outside(out, l2.tokens)
        if a != b or av != bv:
            if len(bad_echo) < 6: bad_echo.append([src.hex(), 'echo differs outside strings or in a string value: %r' % out[:160]])
        # independent decoding of the quoted literals of the SOURCE and of the ECHO must agree
for p in pieces:
    for end in (b'', b'\n', b'\r\n'):
        check(p + end)
for _ in range(@R@):
    k = rnd.randint(1, 6)
    check(b''.join(rnd.choice(pieces) + rnd.choice(seps) for _ in range(k)) + rnd.choice([b'', b'x=1']))
print(json.dumps({'n_units': n_units, 'bad_units': bad_units, 'n_pairs': n_pairs, 'bad_pairs': bad_pairs, 'n_echo': n_echo, 'bad_echo': bad_echo}))
'''


def native(seed, reps):
    import os
    env = {'PYTHONPATH': source.REPO, 'PATH': '/usr/bin:/bin', 'PYTHONDONTWRITEBYTECODE': '1'}
    verif = os.path.dirname(os.path.dirname(os.path.abspath(__file__)))
    script = _NATIVE.replace('@VERIF@', repr(verif)).replace('@SEED@', str(seed)).replace('@R@', str(reps))
    try:
        r = subprocess.run([source.REAL_PY, '-c', script], capture_output=True, text=True, env=env, cwd='/', timeout=1200)
    except subprocess.TimeoutExpired:
        return {'timeout': True}
    if r.returncode != 0:
        return {'error': r.stderr[-1500:]}
    return json.loads(r.stdout)


def run(tier, seed):
    chk = Check('C06', 'other', tier, seed)
    try:
        steps, fn = echo_steps()
        chk.functions.append({'function': ECHO, 'file': 'pico8/lua/lua.py', 'line': fn.line, 'sha256': fn.sha, 'ints': 'lia'})
        ground.account(chk, steps, 'SYMEX')
    except SymErr as e:
        chk.undecide('LuaEchoWriter.to_lines left the supported subset: %s' % e)
    ground.account(chk, induction_lemma(), 'z3-seq')
    sh, lf = shape_lexer()
    chk.functions.append({'function': lf.qual, 'file': 'pico8/lua/lexer.py', 'line': lf.line, 'sha256': lf.sha, 'ints': '-'})
    ground.account(chk, sh, 'SHAPE')
    nat = native(seed, 6000 if tier == 'thorough' else 800)
    if nat.get('timeout') or nat.get('error'):
        chk.undecide('GROUND/BOUNDED:c06/native run did not finish: %s' % (nat.get('error') or 'timeout'))
    else:
        ground.account(chk, [('GROUND:strings/for ALL %d one- and two-byte values x both quotes: the real TokString.code spelling denotes the value '
                              '(independent decoder) and the real lexer reads it back as the value' % nat['n_pairs'], not nat['bad_pairs'],
                              str(nat['bad_pairs'][:3]))])
        ground.account(chk, [('GROUND:strings/every escape unit of the dialect (all \\d, \\dd, \\ddd <= 255, all \\xHH in both cases, the '
                              'single-character and P8SCII escapes) followed by each kind of continuation (%d literals) is read by the real '
                              'lexer as the escape rules say, and its echo denotes the same bytes' % nat['n_units'], not nat['bad_units'],
                              str(nat['bad_units'][:3]))])
        chk.bounded = {'rule': 'BOUNDED: echo of %d sources (string / comment / long-bracket forms, escapes, CRLF, with and without final newline, '
                               'single chunk and per-line chunks): byte-identical when there is no quoted string, else identical outside quoted '
                               'strings and value-identical inside' % nat['n_echo'], 'evaluations': nat['n_echo'], 'failures': len(nat['bad_echo'])}
        if nat['bad_echo']:
            chk.violation('BOUNDED:c06/echo differs from the source', {'witness': [[bytes.fromhex(h).decode('latin1'), w] for h, w in nat['bad_echo'][:4]]}, True)
    chk.native_witness = (nat.get('bad_echo') or []) + (nat.get('bad_pairs') or []) + (nat.get('bad_units') or [])
    clinative.fold(chk, 'writep8')
    clinative.fold(chk, 'buildlua')
    chk.trust('pyvc symbolic executor for the echo writer body; z3 sequence theory for the induction step; exhaustive native evaluation of the '
              'real encoder / lexer on all one- and two-byte string values')
    chk.assume('string literals: the spelling is a per-byte concatenation and the decoders look at most one byte past an escape of these '
               'spellings (three-digit decimal escapes), so exhaustive pairs cover every seam; longer values are sampled (bounded)')
    chk.assume('lexer coverage ("no character dropped or duplicated") for multi-line tokens (quoted strings with line continuation, long '
               'strings, block comments) and the \\z escape are covered by the bounded run only; token extents in the default state are C07')
    return chk.finish(explanation='partial proof (echo writer concatenation: symbolic execution + induction; string re-spelling: exhaustive ground '
                                  'over all 1- and 2-byte values) + bounded native echo runs for lexer coverage of multi-line tokens')
