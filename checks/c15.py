"""C15: P8SCII <-> Unicode text conversion is a bijection on all byte strings."""
import json
import subprocess

from pyvc.report import Check
from pyvc import units, ground, source
from contracts import p8scii

_NATIVE = r'''
import json, random
from pico8.lua import lua
bad = []
for a in range(256):
    for b in range(256):
        bs = bytes([a, b])
        if lua.unicode_to_p8scii(lua.p8scii_to_unicode(bs)) != bs: bad.append([a, b])
enc = [c.p8scii for c in lua.P8SCII_CHARSET if c.p8string.encode('utf-8').decode('utf-8') != c.p8string]
print(json.dumps({'bad_pairs': bad[:10], 'n_bad': len(bad), 'utf8_bad': enc}))
'''


def table_lemmas():
    cs, widths, codes = p8scii.tables()
    T = [r[3][1] for r in cs]
    res = []

    def add(name, bad):
        res.append(('GROUND:p8scii/' + name, not bad, str(bad[:6])))
    add('256 entries, entry i has code i', [i for i, r in enumerate(cs) if r[3][0] != i] + ([len(cs)] if len(cs) != 256 else []))
    add('spellings non-empty and pairwise distinct', [i for i, t in enumerate(T) if not t or T.index(t) != i])
    add('no spelling is a proper prefix of another (prefix-free)',
        [(i, j) for i, a in enumerate(T) for j, b in enumerate(T) if i != j and b.startswith(a)])
    add('no surrogate code points (UTF-8 encodable)', [i for i, t in enumerate(T) if any(0xD800 <= ord(c) <= 0xDFFF for c in t)])
    add('(L) every spelling has 1 or 2 code points', [i for i, t in enumerate(T) if not 1 <= len(t) <= 2])
    add('(W) UNICODE_CHAR_WIDTHS[T[b][0]] == len(T[b]) for all b', [i for i, t in enumerate(T) if t and widths.get(t[0]) != len(t)])
    add('(C) UNICODE_TO_P8SCII[T[b]] == b for all b', [i for i, t in enumerate(T) if codes.get(t) != i])
    add('reverse map has exactly the 256 spellings', [] if set(codes) == set(T) else ['key set differs'])
    return res


def run(tier, seed):
    chk = Check('C15', 'proof', tier, seed)
    reg = units.registry()
    lem = table_lemmas()
    ground.account(chk, lem)
    env = {'PYTHONPATH': source.REPO, 'PATH': '/usr/bin:/bin'}
    r = subprocess.run([source.REAL_PY, '-c', _NATIVE], capture_output=True, text=True, env=env, cwd='/')
    if r.returncode != 0:
        chk.count('GROUND', 'failed', 0.0, 'GROUND:p8scii/native all 65536 byte pairs round-trip')
        chk.violation('GROUND:p8scii/native all 65536 byte pairs round-trip',
                      {'solver_output': 'the real converters raised: ' + r.stderr[-600:]}, True)
    else:
        d = json.loads(r.stdout)
        ground.account(chk, [('GROUND:p8scii/native all 65536 byte pairs round-trip through the real converters',
                              d['n_bad'] == 0, 'failing pairs %s' % d['bad_pairs']),
                             ('GROUND:p8scii/UTF-8 encode+decode is the identity on all 256 spellings (real codec)',
                              not d['utf8_bad'], str(d['utf8_bad']))])
    if all(ok for _, ok, _ in lem):
        units.run_contracts(chk, p8scii.CONTRACTS, reg, tier, seed)
    else:
        # (W)/(C)/(L) are axioms of the loop proof; with a table that violates them the proof would be vacuous
        print('NOTE table lemmas failed: the converter loop proof (which assumes them) is not attempted')
    chk.trust('pyvc VC generator + z3 (LIA, quantified axioms of the concatenation model and of the table lemmas)')
    chk.trust('the facts (W), (C), (L) about the real tables are used as axioms by the loop proof and are themselves '
              'GROUND obligations evaluated on the real module constants on every run')
    chk.assume('str.join over a generator is concatenation (builtin model: offset function with monotonicity lemma '
               'proved by induction); dict lookups are modelled as functions of the key code points')
    chk.assume('composition: unicode_to_p8scii is proved for every text that is a concatenation of table spellings, '
               'which is what p8scii_to_unicode is proved to return; hence u2p(p2u(bs)) == bs for all bs')
    return chk.finish()
