"""BOUNDED stand-in for the command-line wiring (runs in the real interpreter): the real `p8tool` entry point (pico8.tool.main) on
temporary carts; the code of the cart each command writes must be what the LIBRARY-level call the checks are about produces for the
same options -- so that what is decided about Lua.to_lines(writer_cls=..., writer_args=...) is what the user of the command gets.

  luafmt  [--indentwidth N] [--overwrite]   ->  LuaFormatterWriter with indentwidth N (default 2); writes NAME_fmt.p8 (input untouched)
                                                or, with --overwrite, the input itself
  luamin  [--keep-all-names] [--keep-names-from-file F] -> LuaMinifyTokenWriter with those options; writes NAME_fmt.p8
  writep8                                   ->  default writer (echo); writes NAME_fmt.p8
  build   OUT [--X SRC] [--empty-X] [--lua F.lua] [--lua-path P] -> each section of OUT from the source the option names
"""
import json
import os
import subprocess

from pyvc import source

_SCRIPT = r'''
import json, os, shutil, sys, tempfile, io, contextlib
from pico8 import tool, util
from pico8.game import file as pfile, game
from pico8.lua import lua
util.set_verbosity(util.VERBOSITY_QUIET)
CMD = @CMD@
work = tempfile.mkdtemp(prefix='cli_')
bad, n = [], 0
PROGRAMS = [b'-- title\n-- by me\nfunction f(a, b)\n  if a then\n      return b\n  end\nend\nlocal longname, other = 1, "s"\nfor i = 1, 3 do\n\tlongname += i   \n  end\n\n\n\nx = {1,\n 2}\n',
            b'if (x) y = 1 else y = 2\nwhile y do\ny = f(y) -- note\nend\n',
            b'x = 1']
def cart(code):
    g = game.Game.make_empty_game(filename='x.p8')
    g.lua.update_from_lines([code])
    return g
def code_of(path):
    return b''.join(pfile.from_file(path).lua.to_lines())
def lib(code, cls, args):
    l = lua.Lua.from_lines([code], version=8)
    out = b''.join(l.to_lines(writer_cls=cls, writer_args=args)) if cls is not None else b''.join(l.to_lines())
    # what the .p8 writer / reader pair makes of it (a final line end is supplied)
    return out if out.endswith(b'\n') or not out else out + b'\n'
def run(argv):
    with contextlib.redirect_stdout(io.StringIO()), contextlib.redirect_stderr(io.StringIO()):
        return tool.main(argv)
def one(desc, argv_opts, code, cls, args, overwrite=False, ext='.p8'):
    global n
    n += 1
    src = os.path.join(work, 'c%d%s' % (n, ext))
    pfile.to_file(cart(code), src)
    before = open(src, 'rb').read()
    listing = set(os.listdir(work))
    try:
        rc = run([CMD] + argv_opts + [src])
    except SystemExit as e:
        bad.append([desc, 'p8tool exited: %r' % (e.code,)]); return
    except Exception as e:
        bad.append([desc, 'p8tool raised %s: %s' % (type(e).__name__, e)]); return
    if rc not in (0, None):
        bad.append([desc, 'p8tool returned %r' % (rc,)]); return
    # the cart the command wrote: a new file next to the input (whatever it is called), or -- with --overwrite -- the input itself
    new = sorted(set(os.listdir(work)) - listing)
    if len(new) == 1:
        out = os.path.join(work, new[0])
    elif not new and overwrite:
        out = src
    else:
        bad.append([desc, 'expected one output cart next to the input, found %r' % (new,)]); return
    if out != src and open(src, 'rb').read() != before:
        bad.append([desc, 'the input cart was modified although the command wrote another file'])
    got = code_of(out)
    wants = [lib(code, cls, a) for a in (args if isinstance(args, list) else [args])]
    if not any(got.rstrip(b'\n') == w.rstrip(b'\n') for w in wants):
        bad.append([desc, 'the cart written by the command has code %r, the library call gives %r' % (got[:120], wants[0][:120])])
if CMD == 'luafmt':
    for code in PROGRAMS:
        # without the option: SOME width (the statement does not fix the default)
        one('luafmt (default width)', [], code, lua.LuaFormatterWriter, [{'indentwidth': w} for w in range(0, 9)])
        for w in (0, 1, 3, 8):
            one('luafmt --indentwidth %d' % w, ['--indentwidth', str(w)], code, lua.LuaFormatterWriter, {'indentwidth': w})
        one('luafmt --overwrite --indentwidth 4', ['--overwrite', '--indentwidth', '4'], code, lua.LuaFormatterWriter, {'indentwidth': 4}, overwrite=True)
    one('luafmt on a .p8.png cart', ['--indentwidth', '3'], PROGRAMS[0], lua.LuaFormatterWriter, {'indentwidth': 3}, ext='.p8.png')
    one('luafmt --overwrite on a .p8.png cart', ['--overwrite'], PROGRAMS[1], lua.LuaFormatterWriter, [{'indentwidth': w} for w in range(0, 9)], overwrite=True, ext='.p8.png')
elif CMD == 'luamin':
    keep = os.path.join(work, 'keep.txt')
    open(keep, 'wb').write(b'# keep\nlongname\nf\n')
    for code in PROGRAMS:
        one('luamin', [], code, lua.LuaMinifyTokenWriter, {'keep_all_names': False, 'keep_names_from_file': None})
        one('luamin --keep-all-names', ['--keep-all-names'], code, lua.LuaMinifyTokenWriter, {'keep_all_names': True, 'keep_names_from_file': None})
        one('luamin --keep-names-from-file', ['--keep-names-from-file', keep], code, lua.LuaMinifyTokenWriter, {'keep_all_names': False, 'keep_names_from_file': keep})
    one('luamin on a .p8.png cart', [], PROGRAMS[0], lua.LuaMinifyTokenWriter, {'keep_all_names': False, 'keep_names_from_file': None}, ext='.p8.png')
elif CMD == 'build':
    import random
    rnd = random.Random(7)
    SECS = ('gfx', 'gff', 'map', 'sfx', 'music')
    def rand_cart(path, tag):
        g = cart(b'-- ' + tag + b'\nv_' + tag + b' = 1\n')
        for s_ in SECS:
            d = getattr(g, s_)._data
            for i in range(len(d)): d[i] = rnd.randint(0, 255)
        for i in range(3, 0x100, 4): g.music._data[i] &= 0x7f
        pfile.to_file(g, path)
        return pfile.from_file(path)
    def data(g, s_): return bytes(getattr(g, s_)._data)
    empty = game.Game.make_empty_game(filename='e.p8')
    srcs = {}
    for s_ in SECS:
        for ext in ('.p8', '.p8.png'):
            pth = os.path.join(work, 'src_%s%s' % (s_, ext))
            srcs[(s_, ext)] = (pth, rand_cart(pth, s_.encode()))
    os.makedirs(os.path.join(work, 'pkg'))
    open(os.path.join(work, 'pkg', 'm.lua'), 'wb').write(b'mvalue = 5\n')
    open(os.path.join(work, 'main.lua'), 'wb').write(b'-- main\nmainvar = 7\n')
    open(os.path.join(work, 'main2.lua'), 'wb').write(b'local m = require("m")\nmainvar = 8\n')
    def build(desc, argv, out, expect, must_fail=False, prev=None):
        global n
        n += 1
        before = open(out, 'rb').read() if os.path.exists(out) else None
        try:
            rc = run(['build'] + argv + [out])
        except SystemExit as e:
            rc = 'exit %r' % (e.code,)
        except Exception as e:
            rc = 'raised %s' % type(e).__name__
        if must_fail:
            after = open(out, 'rb').read() if os.path.exists(out) else None
            if rc in (0, None) or after != before:
                bad.append([desc, 'unusable arguments: p8tool returned %r and OUT %s' % (rc, 'changed' if after != before else 'is unchanged')])
            return
        if rc not in (0, None):
            bad.append([desc, 'p8tool returned %r' % (rc,)]); return
        got = pfile.from_file(out)
        for s_, want in expect.items():
            have = b''.join(got.lua.to_lines()).rstrip(b'\n') if s_ == 'lua' else data(got, s_)
            if (want not in have) if s_ == 'lua' else (have != want):
                bad.append([desc, 'section %s of OUT is not the one the arguments name' % s_])
    for ext in ('.p8', '.p8.png'):
        out = os.path.join(work, 'out_a' + ext)
        build('--lua FILE.lua --gfx A --empty-sfx, OUT absent', ['--lua', os.path.join(work, 'main.lua'), '--gfx', srcs[('gfx', '.p8')][0], '--empty-sfx'], out,
              {'lua': b'mainvar = 7', 'gfx': data(srcs[('gfx', '.p8')][1], 'gfx'), 'sfx': data(empty, 'sfx'), 'map': data(empty, 'map'), 'music': data(empty, 'music')})
        prev = rand_cart(os.path.join(work, 'out_b' + ext), b'prev')
        build('--map B.p8.png --gff C.p8, OUT exists', ['--map', srcs[('map', '.p8.png')][0], '--gff', srcs[('gff', '.p8')][0]], os.path.join(work, 'out_b' + ext),
              {'map': data(srcs[('map', '.p8.png')][1], 'map'), 'gff': data(srcs[('gff', '.p8')][1], 'gff'), 'sfx': data(prev, 'sfx'), 'music': data(prev, 'music'), 'lua': b'v_prev = 1'})
        build('--music D --sfx E --empty-map --empty-gff --empty-gfx --empty-lua', ['--music', srcs[('music', '.p8')][0], '--sfx', srcs[('sfx', '.p8.png')][0], '--empty-map', '--empty-gff', '--empty-gfx', '--empty-lua'],
              os.path.join(work, 'out_b' + ext),
              {'music': data(srcs[('music', '.p8')][1], 'music'), 'sfx': data(srcs[('sfx', '.p8.png')][1], 'sfx'), 'gff': data(empty, 'gff'), 'gfx': data(empty, 'gfx')})
        build('--lua main2.lua --lua-path', ['--lua', os.path.join(work, 'main2.lua'), '--lua-path', '?.lua;pkg/?.lua'], os.path.join(work, 'out_c' + ext),
              {'lua': b'mvalue = 5'})
        build('--lua main2.lua without the load path: must fail', ['--lua', os.path.join(work, 'main2.lua')], os.path.join(work, 'out_d' + ext), {}, must_fail=True)
        build('--gfx A --empty-gfx: must fail', ['--gfx', srcs[('gfx', '.p8')][0], '--empty-gfx'], os.path.join(work, 'out_b' + ext), {}, must_fail=True)
elif CMD == 'buildlua':
    # `build OUT --lua FILE.lua` copies the code: the cart must carry the source bytes (a final line end is supplied)
    for i, code in enumerate((b'x = 1\ny = 2\n', b'x = 1\r\ny = 2\r\n', b'x = 1\r\ny = 2', b's = [[one\r\ntwo]]\r\nz = 3\n', b'a = 1 \r b = 2\n',
                              b'-- c\r\n--[[ block\r\n]]\r\nx = "\\065"\r\n', b'x=1')):
        for ext in ('.p8', '.p8.png'):
            n += 1
            srcf = os.path.join(work, 'src%d.lua' % n); out = os.path.join(work, 'built%d%s' % (n, ext))
            open(srcf, 'wb').write(code)
            try:
                rc = run(['build', out, '--lua', srcf])
            except BaseException as e:
                bad.append(['build --lua (source %d)' % i, 'p8tool raised %s' % type(e).__name__]); continue
            if rc not in (0, None) or not os.path.exists(out):
                bad.append(['build --lua (source %d)' % i, 'p8tool returned %r' % (rc,)]); continue
            got = code_of(out)
            want = code.replace(b'\r', b' ') if ext == '.p8.png' else code          # (the .p8.png reader turns CR into a blank: C04's normalisation)
            if got.rstrip(b'\n') != want.rstrip(b'\n'):
                bad.append(['build %s --lua FILE.lua' % ext, 'the built cart has code %r, the source is %r' % (got[:80], code[:80])])
else:
    for code in PROGRAMS:
        one('writep8', [], code, None, None)
    one('writep8 on a .p8.png cart', [], PROGRAMS[0], None, None, ext='.p8.png')
shutil.rmtree(work, ignore_errors=True)
print(json.dumps({'n': n, 'bad': bad[:8]}))
'''


def run(cmd, timeout=600):
    env = {'PYTHONPATH': source.REPO, 'PATH': '/usr/bin:/bin', 'PYTHONDONTWRITEBYTECODE': '1', 'HOME': '/nonexistent'}
    try:
        r = subprocess.run([source.REAL_PY, '-c', _SCRIPT.replace('@CMD@', repr(cmd))], capture_output=True, text=True, env=env, cwd='/', timeout=timeout)
    except subprocess.TimeoutExpired:
        return {'timeout': True}
    if r.returncode != 0:
        return {'error': r.stderr[-1500:]}
    return json.loads(r.stdout)


def fold(chk, cmd):
    """Run the command-line stand-in for `cmd` and fold the result into the check (violation with the failing command line, or undecided)."""
    d = run(cmd)
    if d.get('timeout') or d.get('error'):
        chk.undecide('BOUNDED:cli/p8tool %s run did not finish: %s' % (cmd, d.get('error') or 'timeout'))
        return
    if chk.bounded:
        chk.bounded['rule'] += ('.  Plus the real command line: %d `p8tool %s` runs on temporary carts; the cart written must carry the code the '
                                'library-level call gives for the same options' % (d['n'], cmd))
        chk.bounded['evaluations'] = chk.bounded.get('evaluations', 0) + d['n']
        chk.bounded['failures'] = chk.bounded.get('failures', 0) + len(d['bad'])
    if d['bad']:
        chk.native_witness = list(chk.native_witness or []) + d['bad']
        chk.violation('BOUNDED:cli/p8tool %s does not do what the library call under contract does' % cmd, {'witness': d['bad'][:4]}, True)
