"""BOUNDED stand-in for C14 (runs in the real interpreter): package graphs through the real `p8tool build`; the built
cart's code is re-lexed with the reference tokenizer and compared, piece by piece, with what the statement prescribes."""
import json
import os
import subprocess

from pyvc import source

VERIF = os.path.dirname(os.path.dirname(os.path.abspath(__file__)))

_SCRIPT = r'''
import sys, json, os, random, shutil, tempfile, itertools
sys.path.insert(0, @VERIF@)
from specs import luagrammar as LG, reflex
from pico8.lua import lexer, lua, parser
from pico8.build import build
from pico8.game import file as pfile
from pico8 import util
util.set_verbosity(util.VERBOSITY_QUIET)
binops = [t._data for t in parser.BINOP_PATS]
unops = [t._data for t in parser.UNOP_PATS]
SYMS = sorted({p.pattern.replace(b'\\', b'') for p, c in lexer._TOKEN_MATCHERS if c is lexer.TokSymbol} | {b'\\'}, key=len, reverse=True)
rnd = random.Random(@SEED@)
work = os.path.realpath(tempfile.mkdtemp(prefix='c14_'))
def sig(src):
    return [(k, t) for k, t, l, c, v in reflex.tokenize(src, SYMS) if k not in ('space', 'newline', 'comment')]
GAME_LOOP = [b'_init', b'_update', b'_update60', b'_draw']
def body(n_stats, loops, final_nl=True):
    """package body: statements from the reference grammar (one per line); game-loop function definitions at the given positions
    (indices into the statement list); returns (source, source without the game-loop definitions)"""
    g = LG.Gen(rnd, binops, unops)
    stats = []
    for i in range(n_stats):
        stream, tree = [('STAT',)] + list(g.stat(2, kind=rnd.choice(('assign', 'local', 'call', 'function', 'if', 'fornum', 'compound'))))[0], None
        src = dict(LG.layouts(stream))['one statement per line'].rstrip(b'\n')
        stats.append((src, False))
    for pos, name in loops:
        stats.insert(min(pos, len(stats)), (b'function ' + name + b'()\n  x = x + 1\nend', True))
    full = b'\n'.join(s for s, _ in stats)
    kept = b'\n'.join(s for s, gl in stats if not gl)
    if final_nl: full += b'\n'; kept += b'\n'
    return full, kept
bad, n = [], 0
PACKAGE_LINE = b'package={loaded={},_c={}}\n'
def run_build(main_path, lua_path=None):
    class A: pass
    a = A(); a.lua = main_path; a.filename = os.path.join(os.path.dirname(main_path), 'out.p8'); a.lua_path = lua_path
    for s in ('gfx', 'gff', 'map', 'sfx', 'music'): setattr(a, s, None)
    for s in ('lua', 'gfx', 'gff', 'map', 'sfx', 'music'): setattr(a, 'empty_' + s, False)
    a.lua_format = False; a.lua_minify = False; a.optimize_tokens = False
    if os.path.exists(a.filename): os.unlink(a.filename)
    rc = build.do_build(a)
    if rc != 0: raise RuntimeError('build returned %r' % rc)
    return b''.join(pfile.from_file(a.filename).lua.to_lines())
def scenario(desc, files, main, expect_order, use_loop=(), lua_path=None, must_fail=False):
    """files: {relative path: (full source, kept source)}; main: source of main.lua; expect_order: require strings in the order
    their packages must appear; use_loop: require strings requested with use_game_loop=true"""
    global n
    n += 1
    d = os.path.join(work, 's%d' % n); os.makedirs(d)
    for rel, (full, kept) in files.items():
        p = os.path.join(d, rel); os.makedirs(os.path.dirname(p), exist_ok=True); open(p, 'wb').write(full)
    mp = os.path.join(d, 'main.lua'); open(mp, 'wb').write(main)
    try:
        out = run_build(mp, lua_path)
    except Exception as e:
        if not must_fail: bad.append([desc, 'build failed: %s: %s' % (type(e).__name__, str(e)[:200])])
        return
    if must_fail:
        bad.append([desc, 'build succeeded but had to fail']); return
    try:
        lua.Lua.from_lines([out], version=8)
        toks = sig(out)
    except Exception as e:
        bad.append([desc, 'built code does not lex/parse: %s' % e]); return
    want = []
    if expect_order:
        want += sig(PACKAGE_LINE)
        for req, rel in expect_order:
            full, kept = files[rel]
            want += sig(b'package._c["' + req + b'"]=function()\n') + sig(full if req in use_loop else kept) + sig(b'end\n')
        want += sig(b''.join(build.REQUIRE_LUA_PREAMBLE_REQUIRE))
    want += sig(main)
    if toks != want:
        k = next((i for i in range(min(len(toks), len(want))) if toks[i] != want[i]), min(len(toks), len(want)))
        bad.append([desc, 'built code differs from the prescription at token %d: got %r expected %r (%d vs %d tokens)' % (k, toks[k:k+4], want[k:k+4], len(toks), len(want))])
    heads = [t for i, t in enumerate(toks) if t == ('name', b'_c') and i + 2 < len(toks) and toks[i+1] == ('symbol', b'[')]
    for req, rel in expect_order:
        cnt = out.count(b'package._c["' + req + b'"]=function()')
        if cnt != 1: bad.append([desc, 'package %r defined %d times' % (req, cnt)])
for final_nl in (True, False):
    for npos, positions in enumerate([[], [(0, b'_init')], [(1, b'_update')], [(99, b'_draw')], [(0, b'_init'), (2, b'_update60'), (99, b'_draw')]]):
        tag = 'final newline=%s, game loop functions at %s' % (final_nl, [p for p, _ in positions])
        A_ = body(3, positions, final_nl); B_ = body(2, [], final_nl); C_ = body(2, positions[:1], final_nl)
        # single package
        scenario('single package; ' + tag, {'a.lua': A_}, b'local a = require("a")\nx = 1\n', [(b'a', 'a.lua')])
        scenario('single package with use_game_loop; ' + tag, {'a.lua': A_}, b'require("a", {use_game_loop=true})\nx = 1\n', [(b'a', 'a.lua')], use_loop={b'a'})
        # shared package (diamond): main -> a, b ; a -> c ; b -> c
        a2 = (b'local c = require("c")\n' + A_[0], b'local c = require("c")\n' + A_[1])
        b2 = (b'local c = require("c")\n' + B_[0], b'local c = require("c")\n' + B_[1])
        scenario('diamond; ' + tag, {'a.lua': a2, 'b.lua': b2, 'c.lua': C_}, b'require("a")\nrequire("b")\nrequire("c")\ny = 2\n',
                 [(b'a', 'a.lua'), (b'c', 'c.lua'), (b'b', 'b.lua')])
        # nested directories: lib/a requires its neighbour lib/vec by a name relative to its own directory
        la = (b'local v = require("vec")\n' + A_[0], b'local v = require("vec")\n' + A_[1])
        scenario('nested directory; ' + tag, {'lib/a.lua': la, 'lib/vec.lua': B_}, b'require("lib/a")\nz = 3\n', [(b'lib/a', 'lib/a.lua'), (b'vec', 'lib/vec.lua')])
        # the same file under two require strings (from the main directory and from its own directory): each NAME is defined once
        scenario('one file under two names; ' + tag, {'lib/a.lua': la, 'lib/vec.lua': B_}, b'require("lib/a")\nrequire("lib/vec")\nz = 3\n',
                 [(b'lib/a', 'lib/a.lua'), (b'vec', 'lib/vec.lua'), (b'lib/vec', 'lib/vec.lua')])
        scenario('one file under two names through the load path; ' + tag, {'pkg/m.lua': B_}, b'm = require("m")\nn = require("pkg/m")\n',
                 [(b'm', 'pkg/m.lua'), (b'pkg/m', 'pkg/m.lua')], lua_path='?.lua;pkg/?.lua')
        # custom load path
        scenario('custom load path; ' + tag, {'pkg/m.lua': A_}, b'm = require("m")\n', [(b'm', 'pkg/m.lua')], lua_path='?.lua;pkg/?.lua')
# no packages: code unchanged
scenario('no require at all', {}, b'x = 1\nprint(x)\n', [])
# failures
scenario('missing file', {}, b'require("nope")\n', [], must_fail=True)
scenario('non-literal argument', {'a.lua': body(1, [])}, b'local n = "a"\nrequire(n)\n', [], must_fail=True)
scenario('three arguments', {'a.lua': body(1, [])}, b'require("a", {use_game_loop=true}, 1)\n', [], must_fail=True)
scenario('unknown option', {'a.lua': body(1, [])}, b'require("a", {other=true})\n', [], must_fail=True)
scenario('option not a boolean', {'a.lua': body(1, [])}, b'require("a", {use_game_loop=1})\n', [], must_fail=True)
scenario('option is a string', {'a.lua': body(1, [])}, b'require("a", {use_game_loop="true"})\n', [], must_fail=True)
scenario('option is nil', {'a.lua': body(1, [])}, b'require("a", {use_game_loop=nil})\n', [], must_fail=True)
scenario('option is a variable', {'a.lua': body(1, [])}, b'local t = true\nrequire("a", {use_game_loop=t})\n', [], must_fail=True)
scenario('no argument', {'a.lua': body(1, [])}, b'require()\n', [], must_fail=True)
scenario('second argument is a number', {'a.lua': body(1, [])}, b'require("a", 1)\n', [], must_fail=True)
scenario('second argument is a string', {'a.lua': body(1, [])}, b'require("a", "use_game_loop")\n', [], must_fail=True)
scenario('second argument is a variable', {'a.lua': body(1, [])}, b'local o = {use_game_loop=true}\nrequire("a", o)\n', [], must_fail=True)
scenario('two options', {'a.lua': body(1, [])}, b'require("a", {use_game_loop=true, use_game_loop=false})\n', [], must_fail=True)
scenario('known and unknown option', {'a.lua': body(1, [])}, b'require("a", {use_game_loop=true, other=1})\n', [], must_fail=True)
scenario('positional option', {'a.lua': body(1, [])}, b'require("a", {true})\n', [], must_fail=True)
scenario('empty options table', {'a.lua': body(1, [])}, b'require("a", {})\n', [], must_fail=True)
scenario('first argument is a concatenation', {'a.lua': body(1, [])}, b'require("a" .. "")\n', [], must_fail=True)
scenario('first argument is a number', {'a.lua': body(1, [])}, b'require(1)\n', [], must_fail=True)
shutil.rmtree(work, ignore_errors=True)
print(json.dumps({'n': n, 'bad': bad[:10]}))
'''


def run(seed, timeout=1200):
    env = {'PYTHONPATH': source.REPO, 'PATH': '/usr/bin:/bin', 'PYTHONDONTWRITEBYTECODE': '1', 'HOME': '/nonexistent'}
    script = _SCRIPT.replace('@VERIF@', repr(VERIF)).replace('@SEED@', str(seed))
    try:
        r = subprocess.run([source.REAL_PY, '-c', script], capture_output=True, text=True, env=env, cwd='/', timeout=timeout)
    except subprocess.TimeoutExpired:
        return {'timeout': True}
    if r.returncode != 0:
        return {'error': r.stderr[-2000:]}
    return json.loads(r.stdout)
