"""BOUNDED stand-in for the regular-expression pipeline of LuaFormatterWriter._get_code_for_spaces (C10, and the token clause of
C09): EXHAUSTIVE enumeration of all trivia runs of up to N symbols over a small alphabet (blank, tab, LF, CRLF, `--` comment
line, `//` comment line, comment with a trailing blank, `;`), placed at the start of the code, between two statements at nesting
depth 0 and at depth 2, after a short-if statement, and at the end of the code, for each indent width.  Oracles, all independent of picotool (reference
tokenizer + string functions):
  * luafmt succeeds and keeps tokens and comments, and what followed a short-if line stays on a later line (C09 clauses;
    reported separately);
  * no output line ends in whitespace, at most one blank line in a row, none at the end, every line that begins with a code
    token is indented by width x depth;
  * formatting the output again changes nothing;
  * two runs that differ only in the leading / trailing blanks of their lines give the same output.
Bounded: N symbols (stated in the evidence); never counted as proved."""
import json
import os
import subprocess
from concurrent.futures import ThreadPoolExecutor

from pyvc import source

VERIF = os.path.dirname(os.path.dirname(os.path.abspath(__file__)))

_SCRIPT = r'''
import sys, json, itertools
sys.path.insert(0, @VERIF@)
from specs import reflex
from pico8.lua import lexer, lua, parser
SYMS = sorted({p.pattern.replace(b'\\', b'') for p, c in lexer._TOKEN_MATCHERS if c is lexer.TokSymbol} | {b'\\'}, key=len, reverse=True)
N, WIDTHS, POSITION = @N@, @WIDTHS@, @POSITION@
ALPHA = [b' ', b'\t', b'\n', b'\r\n', b'--c\n', b'//d\n', b'--e \n', b';']
OPEN = {b'do', b'then', b'else', b'repeat', b'(', b'{', b'['}
CLOSE = {b'end', b'until', b'elseif', b'else', b')', b'}', b']'}
def sig(src):
    return [(k, t.strip() if k == 'comment' else t) for k, t, l, c, v in reflex.tokenize(src, SYMS) if k not in ('space', 'newline')]
def fmt(src, width):
    l = lua.Lua.from_lines([src], version=8)
    return b''.join(l.to_lines(writer_cls=lua.LuaFormatterWriter, writer_args={'indentwidth': width}))
def depths(out):
    depth, res, first = 0, [], True
    for kind, text, line, col, value in reflex.tokenize(out, SYMS):
        if kind == 'newline': first = True; continue
        if kind == 'space': continue
        if kind == 'comment':
            if b'\n' in text: first = False
            continue
        code = kind in ('symbol', 'keyword')
        if code and text in CLOSE: depth -= 1
        if first: res.append((line, depth))
        first = False
        if code and text in OPEN: depth += 1
    return res
def structure(ref, width):
    lines = ref.split(b'\n')
    body = lines[:-1] if ref.endswith(b'\n') else lines
    for i, ln in enumerate(body):
        if ln != ln.rstrip(b' \t\r'): return 'output line %d ends in whitespace: %r' % (i + 1, ln)
    if b'\n\n\n' in ref: return 'more than one blank line in a row'
    if ref.endswith(b'\n\n'): return 'blank line at the end'
    for line, depth in depths(ref):
        ln = body[line] if line < len(body) else b''
        ind = len(ln) - len(ln.lstrip(b' '))
        if ind != width * depth: return 'output line %d is indented by %d, expected %d x %d: %r' % (line + 1, ind, width, depth, ln)
    return None
def key(run, position):
    """the run up to the leading / trailing blanks of its lines (what the statement allows to vary): blanks that sit between two
    code tokens of the same line are kept"""
    pieces = run.replace(b'\r\n', b'\n').split(b'\n')
    out = []
    for i, p in enumerate(pieces):
        code_before = i == 0 and position != 'start'               # the piece continues the line of the statement before the run
        code_after = i == len(pieces) - 1 and position != 'end'    # the statement after the run continues the line of the piece
        if not code_before: p = p.lstrip(b' \t')
        if not code_after: p = p.rstrip(b' \t')
        out.append(p)
    return tuple(out)
def place(run, position):
    if position == 'start': return run + b'x=(1)\ny=2\n', 2
    if position == 'end': return b'x=(1)\ny=2' + run, 2
    if position == 'depth0': return b'x=(1)' + run + b'y=2\n', None
    if position == 'shortif': return b'if (a) x=(1)' + run + b'y=2\n', None
    return b'if a then\ndo\nx=(1)' + run + b'y=2\nend\nend\n', None
def y_on_a_later_line(src):
    toks = [(t, l) for k, t, l, c, v in reflex.tokenize(src, SYMS) if k in ('name', 'keyword')]
    return dict(toks)[b'y'] > dict(toks)[b'if']
res = {'runs': 0, 'evaluations': 0, 'skipped': 0, 'bad9': [], 'bad10': [], 'groups': 0}
def bad(tag, src, why):
    if len(res[tag]) < 8: res[tag].append([src.decode('latin1'), POSITION, why])
runs = [b'']
for n in range(1, N + 1):
    runs += [b''.join(t) for t in itertools.product(ALPHA, repeat=n)]
if POSITION == 'end':
    runs += [r + b'--c' for r in list(runs)]              # a comment that ends the file without a line end
seen = {}
for run in runs:
    src, _ = place(run, POSITION)
    try:
        want = sig(src)
    except reflex.Outside:
        res['skipped'] += 1; continue
    code = [t for k, t in want if k != 'comment' and t != b';']
    if code != ([b'x', b'=', b'(', b'1', b')', b'y', b'=', b'2'] if POSITION in ('start', 'end', 'depth0') else
                [b'if', b'(', b'a', b')', b'x', b'=', b'(', b'1', b')', b'y', b'=', b'2'] if POSITION == 'shortif' else
                [b'if', b'a', b'then', b'do', b'x', b'=', b'(', b'1', b')', b'y', b'=', b'2', b'end', b'end']):
        res['skipped'] += 1; continue                     # the run glued two tokens together: not the program meant
    res['runs'] += 1
    for width in WIDTHS:
        res['evaluations'] += 1
        try:
            out = fmt(src, width)
        except Exception as e:
            bad('bad9', src, 'luafmt (indentwidth %d) raised %s: %s' % (width, type(e).__name__, e)); continue
        try:
            got = sig(out)
        except reflex.Outside:
            got = None
        if got != want:
            bad('bad9', src, 'luafmt (indentwidth %d) changed tokens or comments: %r' % (width, out[:200])); continue
        if POSITION == 'shortif' and y_on_a_later_line(src) != y_on_a_later_line(out):
            bad('bad9', src, 'luafmt (indentwidth %d) changed the extent of a short-if (what followed the if line %s): %r'
                % (width, 'was pulled onto it' if y_on_a_later_line(src) else 'was pushed off it', out[:200])); continue
        why = structure(out, width)
        if why: bad('bad10', src, '%s (indentwidth %d); output %r' % (why, width, out[:200])); continue
        try:
            again = fmt(out, width)
        except Exception as e:
            bad('bad10', src, 'formatting the formatted code raised %s' % e); continue
        if again != out: bad('bad10', src, 'not idempotent (indentwidth %d): %r -> %r' % (width, out[:160], again[:160])); continue
        k = (key(run, POSITION), width)
        if k in seen:
            if seen[k][1] != out:
                bad('bad10', src, 'output depends on leading / trailing blanks of the input lines (indentwidth %d): %r gives %r but %r gives %r'
                    % (width, seen[k][0][:80], seen[k][1][:160], src[:80], out[:160]))
        else:
            seen[k] = (src, out)
res['groups'] = len(seen)
print(json.dumps(res))
'''

POSITIONS = ('start', 'depth0', 'depth2', 'shortif', 'end')


def _one(position, n, widths, timeout):
    env = {'PYTHONPATH': source.REPO, 'PATH': '/usr/bin:/bin', 'PYTHONDONTWRITEBYTECODE': '1'}
    script = (_SCRIPT.replace('@VERIF@', repr(VERIF)).replace('@N@', str(n)).replace('@WIDTHS@', repr(list(widths)))
              .replace('@POSITION@', repr(position)))
    try:
        r = subprocess.run([source.REAL_PY, '-c', script], capture_output=True, text=True, env=env, cwd='/', timeout=timeout)
    except subprocess.TimeoutExpired:
        return {'timeout': True}
    if r.returncode != 0:
        return {'error': r.stderr[-2000:]}
    return json.loads(r.stdout)


def run(n, widths, timeout=1500):
    """all four positions in parallel; merged result"""
    with ThreadPoolExecutor(len(POSITIONS)) as tp:
        parts = list(tp.map(lambda p: _one(p, n, widths, timeout), POSITIONS))
    out = {'runs': 0, 'evaluations': 0, 'skipped': 0, 'bad9': [], 'bad10': [], 'groups': 0, 'n': n}
    for p in parts:
        if p.get('timeout') or p.get('error'):
            return p
        for k in ('runs', 'evaluations', 'skipped', 'groups'):
            out[k] += p[k]
        out['bad9'] += p['bad9']
        out['bad10'] += p['bad10']
    return out
