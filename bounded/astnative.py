"""BOUNDED stand-in shared by C08 / C09 / C10 (runs in the real interpreter): programs generated from the reference
grammar (specs/luagrammar.py) in several layouts, through the real lexer + parser (+ tree-driven writers)."""
import json
import os
import subprocess

from pyvc import source

VERIF = os.path.dirname(os.path.dirname(os.path.abspath(__file__)))

_SCRIPT = r'''
import sys, json, random
sys.path.insert(0, @VERIF@)
from specs import luagrammar as LG, reflex, luacorpus
from pico8.lua import lexer, lua, parser
binops = [t._data for t in parser.BINOP_PATS]
unops = [t._data for t in parser.UNOP_PATS]
SYMS = sorted({p.pattern.replace(b'\\', b'') for p, c in lexer._TOKEN_MATCHERS if c is lexer.TokSymbol} | {b'\\'}, key=len, reverse=True)
TRIVIA = (lexer.TokSpace, lexer.TokNewline, lexer.TokComment)
MODE = @MODE@
def canon(x):
    """same canonical form for both sides: parentheses vanish, a one-item expression is its item"""
    if isinstance(x, tuple):
        if x and x[0] == 'paren': return canon(x[1])
        if x and x[0] == 'exp':
            items = []
            for it in x[1]:
                c = canon(it)
                if isinstance(c, tuple) and c and c[0] == 'exp': items.extend(c[1])
                else: items.append(c)
            return items[0] if len(items) == 1 else ('exp', items)
        return tuple(canon(y) for y in x)
    if isinstance(x, list): return [canon(y) for y in x]
    return x
def nf(n):
    P = parser
    if n is None: return None
    if isinstance(n, lexer.TokNumber): return ('num', n.code)
    if isinstance(n, lexer.TokString): return ('str', n.code)
    if isinstance(n, lexer.TokName): return n.code
    if isinstance(n, P.Chunk): return ('block', [nf(s) for s in n.stats])
    if isinstance(n, P.ExpValue):
        v = n.value
        if v is None: return ('nil',)
        if v is True: return ('true',)
        if v is False: return ('false',)
        return ('exp', [nf(v)]) if not isinstance(v, (lexer.TokNumber, lexer.TokString)) else nf(v)
    if isinstance(n, P.VarargDots): return ('dots',)
    if isinstance(n, P.ExpBinOp): return ('exp', [nf(n.exp1), ('op', n.binop.code), nf(n.exp2)])
    if isinstance(n, P.ExpUnOp): return ('exp', [('op', n.unop.code), nf(n.exp)])
    if isinstance(n, P.VarName): return ('name', n.name.code)
    if isinstance(n, P.VarIndex): return ('index', nf(n.exp_prefix), nf(n.exp_index))
    if isinstance(n, P.VarAttribute): return ('attr', nf(n.exp_prefix), n.attr_name.code)
    if isinstance(n, P.FunctionCall): return ('call', nf(n.exp_prefix), args_nf(n.args))
    if isinstance(n, P.FunctionCallMethod): return ('mcall', nf(n.exp_prefix), n.methodname.code, args_nf(n.args))
    if isinstance(n, P.Function): return ('func', fb_nf(n.funcbody))
    if isinstance(n, P.TableConstructor): return ('table', [nf(f) for f in n.fields])
    if isinstance(n, P.FieldExp): return ('fexp', nf(n.exp))
    if isinstance(n, P.FieldNamedKey): return ('fname', n.key_name.code, nf(n.exp))
    if isinstance(n, P.FieldExpKey): return ('fkey', nf(n.key_exp), nf(n.exp))
    if isinstance(n, P.StatAssignment): return ('assign', [nf(v) for v in n.varlist.vars], n.assignop.code, [nf(e) for e in n.explist.exps])
    if isinstance(n, P.StatFunctionCall): return ('callstat', nf(n.functioncall))
    if isinstance(n, P.StatDo): return ('do', nf(n.block))
    if isinstance(n, P.StatWhile): return ('while', nf(n.exp), nf(n.block))
    if isinstance(n, P.StatRepeat): return ('repeat', nf(n.block), nf(n.exp))
    if isinstance(n, P.StatIf): return ('if', [(nf(e), nf(b)) for e, b in n.exp_block_pairs], bool(getattr(n, 'short_if', False)))
    if isinstance(n, P.StatForStep): return ('fornum', n.name.code, nf(n.exp_init), nf(n.exp_end), nf(n.exp_step), nf(n.block))
    if isinstance(n, P.StatForIn): return ('forin', tuple(x.code for x in n.namelist.names), [nf(e) for e in n.explist.exps], nf(n.block))
    if isinstance(n, P.StatFunction): return ('function', tuple(x.code for x in n.funcname.namepath), n.funcname.methodname.code if n.funcname.methodname else None, fb_nf(n.funcbody))
    if isinstance(n, P.StatLocalFunction): return ('localfunction', n.funcname.code, fb_nf(n.funcbody))
    if isinstance(n, P.StatLocalAssignment): return ('local', tuple(x.code for x in n.namelist.names), [nf(e) for e in n.explist.exps] if n.explist is not None else None)
    if isinstance(n, P.StatGoto): return ('goto', n.label)
    if isinstance(n, P.StatLabel): return ('label', n.label)
    if isinstance(n, P.StatBreak): return ('break',)
    if isinstance(n, P.StatReturn): return ('return', [nf(e) for e in n.explist.exps] if n.explist is not None else None)
    raise TypeError('node %r' % (n,))
def args_nf(a):
    if isinstance(a, parser.FunctionArgs): return ('args', [nf(e) for e in a.explist.exps] if a.explist is not None else [])
    if isinstance(a, parser.TableConstructor): return ('targ', nf(a))
    return ('sarg', a.code)
def fb_nf(fb):
    return (tuple(x.code for x in fb.parlist.names) if fb.parlist is not None else (), fb.dots is not None, nf(fb.block))
def sig_tokens(src):
    out = []
    for kind, text, line, col, value in reflex.tokenize(src, SYMS):
        if kind in ('space', 'newline'): continue
        out.append((kind, text.strip() if kind == 'comment' else text))
    return out
OPEN = {b'do', b'then', b'else', b'repeat', b'(', b'{', b'['}
CLOSE = {b'end', b'until', b'elseif', b'else', b')', b'}', b']'}
def expected_depths(out):
    """[(line number, depth)] for every output line that begins with a code token: depth = blocks + brackets open at that token, a
    closing token counting as already closed.  Computed from the reference tokenization, independently of picotool."""
    toks = reflex.tokenize(out, SYMS)
    depth, res, first_on_line = 0, [], True
    fstack = []          # for `function`: depth at which its parameter list opens
    pending_fn = False
    for kind, text, line, col, value in toks:
        if kind == 'newline':
            first_on_line = True; continue
        if kind == 'space': continue
        if kind == 'comment':
            first_on_line = first_on_line and b'\n' not in text
            if b'\n' in text: first_on_line = False
            continue
        code = kind in ('symbol', 'keyword')
        if code and text in CLOSE:
            depth -= 1
            closes_params = text == b')' and fstack and fstack[-1] == depth
        else:
            closes_params = False
        if first_on_line:
            res.append((line, depth))
        first_on_line = False
        if kind == 'string' and b'\n' in text:
            pass
        if code and text == b'function':
            pending_fn = True
        if code and text in OPEN:
            if text == b'(' and pending_fn:
                fstack.append(depth); pending_fn = False
            depth += 1
        if closes_params:
            fstack.pop(); depth += 1          # the function body is a block
    return res
def variants(src, r):
    """groups of layouts of the same program with the SAME line breaks (one statement per line; a blank-line run counts as one
    blank line): within a group only indentation, trailing blanks, tabs, the length of blank-line runs and the blanks on blank
    lines differ"""
    lines = src.split(b'\n')
    if lines and lines[-1] == b'': lines = lines[:-1]
    blank_at = [r.random() < 0.3 for _ in lines]
    def build(lead, trail, blanks):
        buf = []
        for i, l in enumerate(lines):
            if blanks and blank_at[i] and i > 0: buf.extend([trail() + b'\n'] * blanks())
            buf.append(lead() + l + trail() + b'\n')
        return b''.join(buf)
    none = lambda: b''
    a = [build(none, none, None), build(lambda: b' ', none, None), build(lambda: b' ' * r.randrange(0, 6), none, None),
         build(lambda: r.choice([b'', b'\t', b'\t\t', b' \t', b'  ']), none, None),
         build(none, lambda: r.choice([b'', b' ', b'  ', b'\t']), None),
         build(lambda: b' ' * r.randrange(0, 3), lambda: b'\r', None)]            # CRLF line ends
    b = [build(none, none, lambda: 1), build(lambda: b' ' * r.randrange(0, 4), lambda: r.choice([b'', b' ', b'\t ']), lambda: r.randrange(1, 4)),
         build(lambda: b'  ', lambda: b' ', lambda: 2)]
    # comment lines (fixed positions and texts, varying indentation / trailing blanks after the statement lines)
    cat = [r.random() < 0.3 for _ in lines]
    def buildc(lead, trail):
        buf = []
        for i, l in enumerate(lines):
            if cat[i]: buf.append(lead() + ((b'-- note %d' if i % 2 else b'// note %d') % i) + trail() + b'\n')
            buf.append(lead() + l + trail() + b'\n')
        return b''.join(buf)
    c = [buildc(none, none), buildc(lambda: b' ' * r.randrange(0, 5), none), buildc(lambda: r.choice([b'\t', b' ', b'']), lambda: r.choice([b'', b'  ']))]
    return [a, b, c]
def fmt(src, width):
    l = lua.Lua.from_lines([src], version=8)
    return b''.join(l.to_lines(writer_cls=lua.LuaFormatterWriter, writer_args={'indentwidth': width}))
def canon_check(src, want):
    for width in @WIDTHS@:
        for group in variants(src, random.Random(1234)):
            outs = []
            for v in group:
                try:
                    outs.append((v, fmt(v, width)))
                except Exception as e:
                    bad(v, 'canon', 'luafmt (indentwidth %d) raised %s: %s' % (width, type(e).__name__, e)); return
            ref = outs[0][1]
            for v, out in outs[1:]:
                if out != ref:
                    bad(v, 'canon', 'output depends on the input indentation / trailing blanks / blank-run length (indentwidth %d): %r vs %r' % (width, out[:200], ref[:200])); return
            try:
                again = fmt(ref, width)
            except Exception as e:
                bad(ref, 'canon', 'formatting the formatted code raised %s' % e); return
            if again != ref:
                bad(ref, 'canon', 'not idempotent (indentwidth %d): %r -> %r' % (width, ref[:160], again[:160])); return
            if not structure_ok(group[0], ref, width): return
def structure_ok(src, ref, width):
    lines = ref.split(b'\n')
    body = lines[:-1] if ref.endswith(b'\n') else lines
    for i, ln in enumerate(body):
        if ln != ln.rstrip(b' \t'):
            bad(src, 'canon', 'output line %d ends in whitespace (indentwidth %d): %r' % (i + 1, width, ln)); return False
    if b'\n\n\n' in ref: bad(src, 'canon', 'more than one blank line in a row'); return False
    if ref.endswith(b'\n\n'): bad(src, 'canon', 'blank line at the end'); return False
    try:
        exp = expected_depths(ref)
    except reflex.Outside:
        return True
    for line, depth in exp:
        ln = body[line] if line < len(body) else b''
        ind = len(ln) - len(ln.lstrip(b' '))
        if ind != width * depth:
            bad(src, 'canon', 'output line %d is indented by %d, expected %d x %d (indentwidth x open blocks and brackets): %r' % (line + 1, ind, width, depth, ln)); return False
    return True
rnd = random.Random(@SEED@)
res = {'programs': 0, 'runs': 0, 'bad': [], 'skipped': 0}
def bad(src, layout, why):
    if len(res['bad']) < 10: res['bad'].append([src.decode('latin1'), layout, why])
for stream, tree in LG.programs(rnd, binops, unops, @COUNT@, @DEPTH@):
    res['programs'] += 1
    want = canon(tree)
    for lname, src in LG.layouts(stream):
        res['runs'] += 1
        try:
            l = lua.Lua.from_lines([src], version=8)
        except Exception as e:
            bad(src, lname, 'rejected: %s: %s' % (type(e).__name__, e)); continue
        toks = l._lexer.tokens
        end = l._parser.root.end_pos
        if MODE == 'parse':
            if not all(isinstance(t, TRIVIA) or (isinstance(t, lexer.TokSymbol) and t.code == b';') for t in toks[end:]):
                bad(src, lname, 'not consumed to the last token: stopped at token %d of %d (%r)' % (end, len(toks), toks[end].code)); continue
            try:
                got = canon(nf(l._parser.root))
            except Exception as e:
                bad(src, lname, 'tree conversion failed: %r' % (e,)); continue
            if got != want:
                bad(src, lname, 'tree differs from the derivation: got %r expected %r' % (str(got)[:300], str(want)[:300]))
        elif MODE == 'canon':
            if lname != 'one statement per line': continue
            canon_check(src, want)
        else:
            for width in @WIDTHS@:
                try:
                    out = b''.join(l.to_lines(writer_cls=lua.LuaFormatterWriter, writer_args={'indentwidth': width}))
                except Exception as e:
                    bad(src, lname, 'luafmt (indentwidth %d) raised %s: %s' % (width, type(e).__name__, e)); break
                a, b = sig_tokens(src), sig_tokens(out)
                if a != b:
                    k = next((i for i in range(min(len(a), len(b))) if a[i] != b[i]), min(len(a), len(b)))
                    bad(src, lname, 'luafmt (indentwidth %d) changed the tokens at #%d: %r -> %r; output %r' % (width, k, a[k:k+2], b[k:k+2], out[:200])); break
                try:
                    l2 = lua.Lua.from_lines([out], version=8)
                    got2 = canon(nf(l2._parser.root))
                except Exception as e:
                    bad(src, lname, 'luafmt output does not parse: %s' % e); break
                if got2 != want:
                    bad(src, lname, 'luafmt (indentwidth %d) output parses to a different program (a line-scoped construct changed extent): %r' % (width, out[:240])); break
                if l.get_token_count() != l2.get_token_count():
                    bad(src, lname, 'token count changed'); break
# hand-written corpus (specs/luacorpus.py): shapes random generation reaches only by luck
res['corpus'] = 0
for src0 in luacorpus.PROGRAMS:
    for src in ((src0, src0.rstrip(b'\n')) if MODE != 'canon' else (src0,)):
        res['corpus'] += 1; res['runs'] += 1
        try:
            l = lua.Lua.from_lines([src], version=8)
        except Exception as e:
            bad(src, 'corpus', 'rejected: %s: %s' % (type(e).__name__, e)); continue
        toks = l._lexer.tokens
        end = l._parser.root.end_pos
        if not all(isinstance(t, TRIVIA) or (isinstance(t, lexer.TokSymbol) and t.code == b';') for t in toks[end:]):
            bad(src, 'corpus', 'not consumed to the last token: stopped at token %d of %d (%r)' % (end, len(toks), toks[end].code)); continue
        if MODE == 'parse':
            continue
        if MODE == 'canon':
            # re-indenting the lines of the INPUT is meaningful only where no token spans lines (the inside of a multi-line comment or
            # string is content, not indentation)
            if not any(b'\n' in t.code for t in toks if isinstance(t, (lexer.TokComment, lexer.TokString))):
                canon_check(src, None)
            continue
        want = canon(nf(l._parser.root))
        for width in @WIDTHS@:
            try:
                out = b''.join(l.to_lines(writer_cls=lua.LuaFormatterWriter, writer_args={'indentwidth': width}))
            except Exception as e:
                bad(src, 'corpus', 'luafmt (indentwidth %d) raised %s: %s' % (width, type(e).__name__, e)); break
            a, b = sig_tokens(src), sig_tokens(out)
            if a != b:
                bad(src, 'corpus', 'luafmt (indentwidth %d) changed tokens or comments: %r' % (width, out[:200])); break
            try:
                l2 = lua.Lua.from_lines([out], version=8)
                got2 = canon(nf(l2._parser.root))
            except Exception as e:
                bad(src, 'corpus', 'luafmt output does not parse: %s' % e); break
            if got2 != want:
                bad(src, 'corpus', 'luafmt (indentwidth %d) output parses to a different program (a line-scoped construct changed extent): %r' % (width, out[:240])); break
            if l.get_token_count() != l2.get_token_count():
                bad(src, 'corpus', 'token count changed'); break
print(json.dumps(res))
'''


def run(mode, seed, count, depth=3, widths=(2,), timeout=1500):
    env = {'PYTHONPATH': source.REPO, 'PATH': '/usr/bin:/bin', 'PYTHONDONTWRITEBYTECODE': '1'}
    script = (_SCRIPT.replace('@VERIF@', repr(VERIF)).replace('@MODE@', repr(mode)).replace('@SEED@', str(seed))
              .replace('@COUNT@', str(count)).replace('@DEPTH@', str(depth)).replace('@WIDTHS@', repr(list(widths))))
    try:
        r = subprocess.run([source.REAL_PY, '-c', script], capture_output=True, text=True, env=env, cwd='/', timeout=timeout)
    except subprocess.TimeoutExpired:
        return {'timeout': True}
    if r.returncode != 0:
        return {'error': r.stderr[-2000:]}
    return json.loads(r.stdout)
