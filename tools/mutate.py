#!/usr/bin/env python3
"""tools/mutate.py [--per-function N] [--jobs J] [--only REGEX] [--out FILE]

Development aid (not a registered check): systematic small mutants of the functions the properties are anchored in, each applied to a
SCRATCH copy of /repo (under /tmp, removed at once).  A mutant that still passes the pinned test suite is run through the quick checks
of the properties anchored in the mutated function.  Survivors (tests pass, no check reports a violation) are listed for triage: each is
either an equivalent / property-irrelevant mutant or a gap of the machinery.

Mutation operators (one node per mutant, replaced textually in place): comparison operator swaps, and/or swap, `not` removal, integer
constant +1 / -1, arithmetic / shift / bit operator swaps, statement deletion (call statements, augmented assignments, attribute /
subscript assignments), break <-> continue."""
import ast
import copy
import json
import os
import re
import shutil
import subprocess
import sys
import tempfile
from concurrent.futures import ThreadPoolExecutor

VERIF = os.path.dirname(os.path.dirname(os.path.abspath(__file__)))
REPO = '/repo'

# qualified-name regex -> properties whose anchors contain the function
TARGETS = {
    'pico8/lua/lexer.py': [(r'TokString\.code$', ['C06', 'C01']), (r'TokNumber\.value$', ['C07']), (r'Lexer\._process_token$', ['C07', 'C06']),
                           (r'Lexer\.(process_lines|_process_line)$', ['C07'])],
    'pico8/lua/lua.py': [(r'^(unicode_to_p8scii|p8scii_to_unicode)$', ['C15']), (r'Lua\.get_token_count$', ['C01']), (r'Lua\.(reparse|to_lines)$', ['C14', 'C09']),
                         (r'LuaEchoWriter\.to_lines$', ['C06']), (r'LuaASTEchoWriter\.', ['C09', 'C10']), (r'LuaFormatterWriter\.', ['C10', 'C09']),
                         (r'MinifyNameFactory\.', ['C02']), (r'LuaMinifyTokenWriter\.', ['C01', 'C19'])],
    'pico8/lua/parser.py': [(r'Parser\.', ['C08'])],
    'pico8/game/formatter/p8.py': [(r'^_get_raw_data_from_p8_file$', ['C03']), (r'P8Formatter\.(from_file|to_file)$', ['C03']),
                                   (r'^(get_root_include_path|process_includes|lines_for_tab)$', ['C20', 'C12'])],
    'pico8/game/formatter/p8png.py': [(r'^(get_picodata_from_pngdata|get_pngdata_from_picodata)$', ['C04']), (r'^(get_bytes_from_code|get_code_from_bytes)$', ['C04', 'C05']),
                                      (r'^_?get_raw_data_from_p8png_file$', ['C04', 'C16']), (r'P8PNGFormatter\.', ['C04', 'C16'])],
    'pico8/game/compress.py': [(r'.', ['C05'])],
    'pico8/game/file.py': [(r'^to_file$', ['C11', 'C04']), (r'^(from_file|formatter_for_filename)$', ['C11'])],
    'pico8/build/build.py': [(r'^do_build$', ['C13']), (r'^(_evaluate_require|_prepend_package_lua)$', ['C14']), (r'RequireWalker\.', ['C14']),
                             (r'^_locate_require_file$', ['C12'])],
    'pico8/game/game.py': [(r'Game\.write_cart_data$', ['C18']), (r'Game\.make_empty_game$', ['C13'])],
    'pico8/gfx/gfx.py': [(r'Gfx\.(from_lines|to_lines)$', ['C16']), (r'Gfx\.(get_sprite|set_sprite)$', ['C17'])],
    'pico8/sfx/sfx.py': [(r'Sfx\.(from_lines|to_lines)$', ['C16']), (r'Sfx\.(get_note|set_note|get_properties|set_properties)$', ['C17', 'C16'])],
    'pico8/music/music.py': [(r'Music\.(from_lines|to_lines)$', ['C16']), (r'Music\.(get_channel|set_channel|get_properties|set_properties)$', ['C17'])],
    'pico8/map/map.py': [(r'Map\.(get_cell|set_cell|get_rect_tiles|set_rect_tiles|get_rect_pixels)$', ['C17'])],
    'pico8/gff/gff.py': [(r'Gff\.', ['C17'])],
    'pico8/util.py': [(r'BaseSection\.(from_lines|to_lines|from_bytes)$', ['C16'])],
    'pico8/tool.py': [(r'^(luamin|do_luamin)$', ['C01']), (r'^(luafmt|do_luafmt)$', ['C10']), (r'^(writep8|do_writep8)$', ['C06']),
                      (r'^process_game_files$', ['C09']), (r'^_get_argparser$', ['C10', 'C13', 'C01'])],
}

CMP = {ast.Lt: ast.LtE, ast.LtE: ast.Lt, ast.Gt: ast.GtE, ast.GtE: ast.Gt, ast.Eq: ast.NotEq, ast.NotEq: ast.Eq, ast.Is: ast.IsNot, ast.IsNot: ast.Is,
       ast.In: ast.NotIn, ast.NotIn: ast.In}
BIN = {ast.Add: ast.Sub, ast.Sub: ast.Add, ast.LShift: ast.RShift, ast.RShift: ast.LShift, ast.BitAnd: ast.BitOr, ast.BitOr: ast.BitAnd,
       ast.Mult: ast.FloorDiv, ast.FloorDiv: ast.Mult, ast.Mod: ast.FloorDiv}


def functions(tree):
    for n in tree.body:
        if isinstance(n, ast.FunctionDef):
            yield n.name, n
        elif isinstance(n, ast.ClassDef):
            for k in n.body:
                if isinstance(k, ast.FunctionDef):
                    yield '%s.%s' % (n.name, k.name), k


def mutants_of(fnode):
    """[(description, node to replace, replacement source text)]"""
    out = []
    doc = fnode.body[0] if fnode.body and isinstance(fnode.body[0], ast.Expr) and isinstance(fnode.body[0].value, ast.Constant) else None
    for n in ast.walk(fnode):
        if n is doc or (doc is not None and n is doc.value):
            continue
        if isinstance(n, ast.Compare):
            for i, op in enumerate(n.ops):
                if type(op) in CMP:
                    m = copy.deepcopy(n)
                    m.ops[i] = CMP[type(op)]()
                    out.append(('compare %s -> %s' % (type(op).__name__, CMP[type(op)].__name__), n, ast.unparse(m)))
        elif isinstance(n, ast.BoolOp):
            m = copy.deepcopy(n)
            m.op = ast.Or() if isinstance(n.op, ast.And) else ast.And()
            out.append(('and <-> or', n, ast.unparse(m)))
        elif isinstance(n, ast.UnaryOp) and isinstance(n.op, ast.Not):
            out.append(('drop not', n, '(' + ast.unparse(n.operand) + ')'))
        elif isinstance(n, ast.Constant) and type(n.value) is int and 0 <= n.value <= 0x10000:
            out.append(('const %d -> %d' % (n.value, n.value + 1), n, repr(n.value + 1)))
            if n.value > 0:
                out.append(('const %d -> %d' % (n.value, n.value - 1), n, repr(n.value - 1)))
        elif isinstance(n, ast.BinOp) and type(n.op) in BIN and not (isinstance(n.op, ast.Mod) and isinstance(n.left, ast.Constant) and isinstance(n.left.value, (str, bytes))):
            m = copy.deepcopy(n)
            m.op = BIN[type(n.op)]()
            out.append(('binop %s -> %s' % (type(n.op).__name__, BIN[type(n.op)].__name__), n, '(' + ast.unparse(m) + ')'))
        elif isinstance(n, ast.AugAssign):
            out.append(('delete augmented assignment', n, 'pass'))
        elif isinstance(n, ast.Assign) and len(n.targets) == 1 and isinstance(n.targets[0], (ast.Attribute, ast.Subscript)):
            out.append(('delete store', n, 'pass'))
        elif isinstance(n, ast.Expr) and isinstance(n.value, ast.Call) and not ast.unparse(n.value.func).startswith(('util.', 'print', 'logging')):
            out.append(('delete call statement', n, 'pass'))
        elif isinstance(n, ast.Break):
            out.append(('break -> continue', n, 'continue'))
        elif isinstance(n, ast.Continue):
            out.append(('continue -> break', n, 'break'))
    return out


def apply(src_lines, node, text):
    """replace the source segment of node (single- or multi-line) by text"""
    l0, c0, l1, c1 = node.lineno - 1, node.col_offset, node.end_lineno - 1, node.end_col_offset
    enc = [ln.encode('utf-8') for ln in src_lines]
    head = enc[l0][:c0].decode('utf-8')
    tail = enc[l1][c1:].decode('utf-8')
    return src_lines[:l0] + [head + text + tail] + src_lines[l1 + 1:]


def sh(cmd, cwd=None, env=None, timeout=1800):
    try:
        r = subprocess.run(cmd, shell=True, cwd=cwd, env=env, capture_output=True, text=True, timeout=timeout)
        return r.returncode, r.stdout + r.stderr
    except subprocess.TimeoutExpired:
        return 124, 'timeout'


def run_mutant(m):
    tmp = tempfile.mkdtemp(prefix='mut_')
    scratch = os.path.join(tmp, 'r')
    try:
        shutil.copytree(REPO, scratch, ignore=shutil.ignore_patterns('.git', '__pycache__', '*.pyc', '.pytest_cache'))
        path = os.path.join(scratch, m['file'])
        open(path, 'w').write(m['new_source'])
        env = dict(os.environ, PYTHONPATH=scratch, PYTHONDONTWRITEBYTECODE='1')
        rc, out = sh('/venv/bin/python -m pytest -q -x -p no:cacheprovider --timeout=60 2>&1 | tail -1', cwd=scratch, env=env, timeout=400)
        res = {k: m[k] for k in ('id', 'file', 'function', 'line', 'what', 'old', 'new', 'props')}
        res['tests'] = out.strip().splitlines()[-1][:80] if out.strip() else ''
        if ' passed' not in res['tests'] or 'failed' in res['tests'] or 'error' in res['tests']:
            res['verdict'] = 'killed-by-tests'
            return res
        res['checks'] = {}
        for p in m['props']:
            rcc, outc = sh('./check %s --tier quick' % p, cwd=VERIF, env=dict(os.environ, VERIF_REPO=scratch), timeout=1500)
            first = [l for l in outc.splitlines() if l.startswith(('VIOLATION', 'UNDECIDED', 'ERROR'))][:1]
            res['checks'][p] = [rcc, first[0][:200] if first else '']
        codes = [v[0] for v in res['checks'].values()]
        res['verdict'] = 'detected' if 1 in codes else 'error' if 3 in codes or 124 in codes else 'undecided' if 2 in codes else 'SURVIVED'
        return res
    finally:
        shutil.rmtree(tmp, ignore_errors=True)


def main():
    per = int(sys.argv[sys.argv.index('--per-function') + 1]) if '--per-function' in sys.argv else 8
    jobs = int(sys.argv[sys.argv.index('--jobs') + 1]) if '--jobs' in sys.argv else 5
    only = re.compile(sys.argv[sys.argv.index('--only') + 1]) if '--only' in sys.argv else None
    outp = sys.argv[sys.argv.index('--out') + 1] if '--out' in sys.argv else '/tmp/mutants.jsonl'
    force = sys.argv[sys.argv.index('--props') + 1].split(',') if '--props' in sys.argv else None
    todo = []
    for file, rules in TARGETS.items():
        src = open(os.path.join(REPO, file)).read()
        lines = src.split('\n')
        tree = ast.parse(src)
        for qual, fnode in functions(tree):
            props = []
            for rx, ps in rules:
                if re.search(rx, qual):
                    props += [p for p in ps if p not in props]
            if not props or (only and not only.search(file + ':' + qual)):
                continue
            if force:
                props = force
            ms = mutants_of(fnode)
            step = max(1, len(ms) // per)
            for k, (what, node, text) in enumerate(ms[::step][:per]):
                new = '\n'.join(apply(lines, node, text))
                try:
                    ast.parse(new)
                except SyntaxError:
                    continue
                todo.append({'id': '%s:%s#%d' % (file, qual, k), 'file': file, 'function': qual, 'line': node.lineno, 'what': what,
                             'old': (ast.get_source_segment(src, node) or '')[:120], 'new': text[:120], 'props': props, 'new_source': new})
    if '--replay' in sys.argv:            # --replay <mutant id> <prop>[,<prop>...]: run the named checks on one mutant again
        mid, props = sys.argv[sys.argv.index('--replay') + 1], sys.argv[sys.argv.index('--replay') + 2].split(',')
        for m in todo:
            if m['id'] == mid:
                m['props'] = props
                print(json.dumps({k: v for k, v in run_mutant(m).items()}, indent=1))
        return
    print('%d mutants' % len(todo), flush=True)
    n = {'killed-by-tests': 0, 'detected': 0, 'undecided': 0, 'SURVIVED': 0, 'error': 0}
    with open(outp, 'w') as fh, ThreadPoolExecutor(jobs) as tp:
        for res in tp.map(run_mutant, todo):
            n[res['verdict']] += 1
            fh.write(json.dumps(res) + '\n')
            fh.flush()
            if res['verdict'] not in ('killed-by-tests', 'detected'):
                print('%-10s %s L%d %s: %r -> %r  %s' % (res['verdict'], res['id'], res['line'], res['what'], res['old'][:50], res['new'][:50],
                                                         json.dumps(res.get('checks', {}))[:200]), flush=True)
    print(json.dumps(n))


if __name__ == '__main__':
    main()
