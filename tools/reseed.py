#!/usr/bin/env python3
"""tools/reseed.py [name-prefix ...]  -- re-run every stored seeded change (seeded/<name>/patch.diff) against a fresh scratch worktree of
/repo HEAD with the property's quick check, in parallel, and refresh `check_exit_code`, `detected`, `check_output` in its meta.json.
Scratch worktrees live under /tmp and are removed."""
import json
import os
import shutil
import subprocess
import sys
import tempfile
from concurrent.futures import ThreadPoolExecutor

VERIF = os.path.dirname(os.path.dirname(os.path.abspath(__file__)))


def sh(cmd, cwd=None, env=None, timeout=3600):
    r = subprocess.run(cmd, shell=True, cwd=cwd, env=env, capture_output=True, text=True, timeout=timeout)
    return r.returncode, r.stdout + r.stderr


def one(name):
    d = os.path.join(VERIF, 'seeded', name)
    meta = json.load(open(os.path.join(d, 'meta.json')))
    prop = meta['property']
    tmp = tempfile.mkdtemp(prefix='reseed_')
    scratch = os.path.join(tmp, 'r')
    try:
        rc, out = sh('git -C /repo worktree add --detach -q %s HEAD' % scratch)
        if rc:
            return name, 'worktree: ' + out
        patch = os.path.join(d, 'patch.diff')
        rc, out = sh('git apply %s || git apply -3 %s || patch -p1 -s < %s' % (patch, patch, patch), cwd=scratch)
        if rc:
            meta.update({'check_exit_code': None, 'detected': None, 'check_output': ['patch no longer applies to /repo HEAD: ' + out[-300:]]})
        else:
            rcc, outc = sh('./check %s --tier quick' % prop, cwd=VERIF, env=dict(os.environ, VERIF_REPO=scratch))
            lines = [l.strip()[:300] for l in outc.splitlines() if l.startswith(('VIOLATION', '  failed obligation', 'UNDECIDED', 'ERROR', 'KNOWN'))][:8]
            meta.update({'check_exit_code': rcc, 'detected': rcc == 1, 'check_output': lines})
        meta['repo_head'] = sh('git -C /repo log --format=%h -1')[1].strip()
        json.dump(meta, open(os.path.join(d, 'meta.json'), 'w'), indent=1)
        return name, 'exit=%s %s' % (meta['check_exit_code'], (meta['check_output'] or [''])[0][:160])
    finally:
        sh('git -C /repo worktree remove --force %s' % scratch)
        shutil.rmtree(tmp, ignore_errors=True)


def main():
    names = sorted(os.listdir(os.path.join(VERIF, 'seeded')))
    if sys.argv[1:]:
        names = [n for n in names if n.startswith(tuple(sys.argv[1:]))]
    missed = 0
    groups = {}
    for n in names:          # seeds of one property run one after the other: they share that property's scratch replay directory
        groups.setdefault(n.split('-')[0], []).append(n)
    with ThreadPoolExecutor(int(os.environ.get('RESEED_JOBS', '4'))) as tp:
        for results in tp.map(lambda g: [one(n) for n in g], groups.values()):
            for name, res in results:
                print('%-55s %s' % (name, res), flush=True)
                if not res.startswith('exit=1'):
                    missed += 1
    print('%d seeds, %d not detected' % (len(names), missed))
    return 1 if missed else 0


if __name__ == '__main__':
    sys.exit(main())
