#!/bin/sh
# tools/refactest.sh <diff> <prop> [<prop> ...]  -- run checks against a scratch worktree with a BEHAVIOUR-PRESERVING refactoring applied;
# every check must exit 0 (held) or 2 (undecided: contract must be re-derived) -- never 1 (a false alarm).
DIFF="$1"; shift
WT=$(mktemp -d /tmp/refactest.XXXXXX)
git -C /repo worktree add --detach -q "$WT/r" HEAD || exit 3
( cd "$WT/r" && (git apply "$DIFF" 2>/dev/null || git apply -3 "$DIFF" 2>/dev/null) ) || { echo "$DIFF: patch does not apply"; git -C /repo worktree remove --force "$WT/r"; rm -rf "$WT"; exit 3; }
for P in "$@"; do
  OUT=$(cd /verif && VERIF_REPO="$WT/r" ./check "$P" --tier quick 2>&1); RC=$?
  echo "$(basename $(dirname $DIFF))/$(basename $DIFF) $P exit=$RC $(echo "$OUT" | grep -E '^(VIOLATION|UNDECIDED|ERROR)' | head -2 | cut -c1-260 | tr '\n' ' ')"
done
git -C /repo worktree remove --force "$WT/r"; rm -rf "$WT"
