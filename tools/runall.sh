#!/bin/sh
# tools/runall.sh [tier] -- every claimed check against /repo itself (refreshes evidence/); prints one line per property
cd "$(dirname "$0")/.." || exit 3
TIER="${1:-quick}"
for p in $(python3 -c "import json; print(' '.join(c['property_id'] for c in json.load(open('MANIFEST.json'))['checks']))"); do
  ./check "$p" --tier "$TIER" > /tmp/runall_$p.log 2>&1; rc=$?
  echo "$p exit=$rc $(tail -1 /tmp/runall_$p.log | cut -c1-120)"
done
