#!/bin/sh
# tools/seedrun.sh <property> <patch file> [tier]  -- run a check against a scratch worktree of /repo HEAD with the patch applied
P="$1"; PATCH="$2"; TIER="${3:-quick}"
WT=$(mktemp -d /tmp/seedrun.XXXXXX)
git -C /repo worktree add --detach -q "$WT/r" HEAD || exit 3
( cd "$WT/r" && (git apply "$PATCH" 2>/dev/null || git apply -3 "$PATCH" 2>/dev/null || patch -p1 -s < "$PATCH") ) || { echo "patch does not apply"; git -C /repo worktree remove --force "$WT/r"; rm -rf "$WT"; exit 3; }
( cd "$WT/r" && git diff --stat | tail -1 )
cd /verif && VERIF_REPO="$WT/r" ./check "$P" --tier "$TIER" 2>&1 | grep -E "^(VIOLATION|  failed|UNDECIDED|ERROR|KNOWN|C[0-9][0-9] )" | cut -c1-260 | head -${LINES_MAX:-12}
git -C /repo worktree remove --force "$WT/r"; rm -rf "$WT"
