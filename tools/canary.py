"""Apply small breaking edits (canaries) to a SCRATCH copy of the repository (mkdtemp, removed at once) and
require that the check of the named property reports a violation (exit 1).  An entry with a "harmless" key (the reason) is an edit
that does NOT break the property: there the check must not raise an alarm (exit 0 or 2).  Never touches /repo."""
import json
import os
import shutil
import subprocess
import sys
import tempfile

HERE = os.path.dirname(os.path.dirname(os.path.abspath(__file__)))
REPO = os.environ.get('VERIF_REPO', '/repo')


def run_canary(c, tier='quick'):
    tmp = tempfile.mkdtemp(prefix='canary_')
    try:
        dst = os.path.join(tmp, 'repo')
        shutil.copytree(os.path.join(REPO, 'pico8'), os.path.join(dst, 'pico8'))
        path = os.path.join(dst, c['file'])
        s = open(path).read()
        if s.count(c['old']) != 1:
            return 'stale', 'pattern occurs %d times' % s.count(c['old'])
        open(path, 'w').write(s.replace(c['old'], c['new']))
        env = dict(os.environ, VERIF_REPO=dst, VERIF_CANARY='1')
        r = subprocess.run([os.path.join(HERE, 'check'), c['property'], '--tier', tier], env=env,
                           capture_output=True, text=True)
        lines = [l for l in r.stdout.splitlines() if l.startswith(('VIOLATION', 'UNDECIDED', 'ERROR'))]
        return {0: 'missed', 1: 'detected', 2: 'undecided', 3: 'error'}.get(r.returncode, 'error'), '; '.join(lines[:3])[:400]
    finally:
        shutil.rmtree(tmp, ignore_errors=True)


def main():
    want = sys.argv[1:] or None
    res = {}
    for fn in sorted(os.listdir(os.path.join(HERE, 'canaries'))):
        if not fn.endswith('.json'):
            continue
        for c in json.load(open(os.path.join(HERE, 'canaries', fn))):
            if want and c['property'] not in want and c['id'] not in want:
                continue
            st, info = run_canary(c)
            if c.get('harmless'):
                st = 'FALSE-ALARM' if st == 'detected' else 'no-alarm' if st in ('missed', 'undecided') else st
                info = '(harmless edit: no alarm expected) ' + info
            res[c['id']] = st
            print('%-10s %-40s %s  %s' % (c['property'], c['id'], st, info))
    bad = [k for k, v in res.items() if v not in ('detected', 'no-alarm')]
    print('%d canaries, %d not detected' % (len(res), len(bad)))
    return 1 if bad else 0


if __name__ == '__main__':
    sys.exit(main())
