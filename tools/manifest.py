"""Regenerate MANIFEST.json from the table below (keeps it schema-valid)."""
import json
import os

HERE = os.path.dirname(os.path.dirname(os.path.abspath(__file__)))
PROPS = [json.loads(l)['id'] for l in open(os.path.join(HERE, 'properties.jsonl'))]

CHECKS = {
 'C14': dict(category='other', design_ref='DESIGN.md section 4 (C08 / C09 / C10 / C14)',
    text='Partial proof + bounded. Proved on all control paths of the real functions (enumerated from the ast with assignment / branch / '
         'call events): _evaluate_require stores a package under its require string only where that string was not yet in the table, '
         'enters it before the recursive descent (shared packages and cycles give one entry each), resolves nested requires relative '
         'to the package\'s own file, opens only the located file and raises LuaBuildError for an unresolved one; '
         'RequireWalker yields a require() only where every argument-shape error test was negative (1-2 arguments, a string literal, '
         'the single option use_game_loop=<bool>); _prepend_package_lua emits the package-table preamble, then per table entry in '
         'insertion order header + package lines (+ newline if missing) + end, then the loader, then the main program\'s lines, and '
         'returns the program unchanged when there are no packages; the preamble constants are the loader the statement describes.',
    note='Bounded (never counted as proved): that the built code parses, defines each name once and contains every package token for '
         'token minus its top-level game-loop definitions -- package graphs (single, diamond, nested directories, custom load path) x '
         'reference-grammar bodies with game-loop functions at start / middle / end x with / without final newline x use_game_loop, '
         'built by the real do_build and re-lexed with the reference tokenizer; malformed / unresolvable require() must fail.',
    technique='path-complete verification of visited-once / ordering / validation / emission contracts over the real build functions + bounded package-graph builds'),
 'C08': dict(category='other', design_ref='DESIGN.md section 4 (C08 / C09 / C10 / C14)',
    text='Partial proof + bounded. Proved (pyvc VCs, z3): Parser._accept -- the one function through which the cursor ever advances '
         '(a scan of the class shows every other write of the cursor restores a position saved in the same function) -- meets its '
         'specification for every token list, position, pattern and fence: it skips only trivia that does not match, returns the '
         'first candidate iff it matches and lies before the short-if fence leaving the cursor just after it, otherwise returns None '
         'with the cursor restored, and terminates. The short-if fence computed inside Parser._stat is proved to be the first newline '
         'token at or after the condition (or the end of the code) -- so the body may reach exactly to the end of its line, comments '
         'included -- and is installed for the body and removed in a finally clause. Cursor hygiene of every parser method on all its '
         'control paths (given the _accept contract, inductively): a method that returns None has restored the cursor -- except _var / '
         '_varlist, whose only callers restore it -- and every tree node is built with start = a position saved from the cursor and '
         'end = the cursor.',
    note='Structural obligations (SHAPE / PATHS) become a violation only with a failing input from the bounded run, otherwise '
         'undecided. Bounded (never counted as proved): completeness and tree adequacy -- programs generated from an independent reference grammar '
         '(every statement kind first/middle/last and inside every block-bearing statement, then random programs) x 6 layouts through '
         'the real lexer and parser: accepted, consumed to the last token, tree == derivation with operators/operands in source order, '
         'short-if extents; statements that begin with `(`, method calls with string / table argument, lists of up to three items; plus '
         'a hand-written corpus of about 120 tricky programs (specs/luacorpus.py). Nested short-ifs and `?x,y` are outside the dialect.',
    technique='contract-based deductive verification of the cursor primitive and the short-if fence region (pyvc VCs, z3) + bounded enumeration from a reference grammar'),
 'C09': dict(category='other', design_ref='DESIGN.md section 4 (C08 / C09 / C10 / C14)',
    text='Partial proof + bounded. Proved: the token-cursor helper _get_code_for_spaces consumes exactly the maximal trivia run at the '
         'cursor (bounded by the node / the list) and returns those tokens\' codes; _get_text, _get_name and _get_semis -- verified '
         'MODULARLY against that contract -- return the trivia followed by the keyword / the name token\'s code / the run of trivia and '
         'semicolons and leave the cursor exactly one past the token they stand for; the formatter\'s override moves the cursor exactly '
         'like the base helper (its text is opaque); the end-of-input check at the head of '
         'LuaASTEchoWriter.to_lines -- inherited by luafmt and every other tree-driven writer -- raises ParserError iff a non-trivia '
         'token lies at or after the position where the parser stopped, for every token list and stopping point (no silent loss); '
         'every yield of every _walk_* handler is a cursor-helper result, an item of a nested walk or a token\'s own code with a cursor '
         'step (scan of all 156 yields), and _get_text / _get_name assert the token under the cursor before stepping over it.',
    note='Bounded (never counted as proved): that luafmt succeeds on every valid program and reproduces every token -- reference-grammar '
         'programs x 6 layouts x indent widths: tokens and comments identical under the reference tokenizer, output parses to the same '
         'tree (line-scoped constructs keep their extent), token count unchanged; and the three tree-driven writers on '
         'lexable-but-unparsed inputs must raise or keep every token; EXHAUSTIVE trivia runs (blank, tab, LF, CRLF, comment lines, `;`; '
         '<= 3-4 symbols) at the start of the code, between statements at depth 0 and 2, after a short-if and at the end of the code; '
         'the hand-written corpus specs/luacorpus.py. That the handlers ask for the token their node was parsed with (the precondition '
         'of _get_text / _get_name) is not a discharged obligation.',
    technique='contract-based deductive verification of the writer cursor helper and the end-of-input region (pyvc VCs, z3) + emission scan + bounded enumeration from a reference grammar'),
 'C10': dict(category='other', design_ref='DESIGN.md section 4 (C08 / C09 / C10 / C14)',
    text='Partial proof + bounded. Proved on ALL control paths of every _walk_* handler (enumerated from the real ast, branches on the '
         'same flag kept consistent): _indent is raised by one right after an opening token is emitted, lowered by one right before '
         'the closing token, never below its entry value, and restored when the handler finishes; nothing else writes _indent and a '
         'token on its own line is indented by indentwidth x _indent. Hence the depth used for indentation equals the number of '
         'blocks and brackets open at the token, a closing token counting as closed.',
    note='Bounded (never counted as proved): the regular-expression pipeline of the formatter is outside the solvers\' reach. '
         'Reference-grammar programs, one statement per line, in groups of layouts with the same line breaks (re-indented, tabs, '
         'trailing blanks, CRLF, blank-run lengths, -- and // comment lines) x indent widths: one output per group, fixed point, no '
         'trailing whitespace, at most one blank line, none at the end, indentation == indentwidth x independently recomputed depth. '
         'EXHAUSTIVE trivia runs (<= 4-5 symbols over blank, tab, LF, CRLF, comment lines, `;`) at five positions: same output clauses, '
         'fixed point, and one output per class of runs that differ only in leading / trailing blanks of their lines.',
    technique='path-complete verification of the indentation bookkeeping contract over the real handlers + bounded canonical-form enumeration'),
 'C03': dict(category='proof', design_ref='DESIGN.md section 4 (C03)',
    text='Every section writer and reader (gfx, gff/map hex rows, sfx, music) is proved equal to the P8Spec text / bytes functions '
         '(contracts shared with C16, re-discharged here), and on top of them spec-level lemmas are discharged by z3 for ALL region '
         'contents: bytes_X(text_X(d)) == d for every section (music: except bit 7 of each pattern\'s 4th channel byte, as the statement '
         'says), text(bytes(text(d))) == text(d) (the re-written file is identical), and every row of text_X(d) is an in-format row '
         '(the precondition of the reader contracts). The framing is read off the real source on every run: on all control paths of '
         'P8Formatter.to_file the chunks are written to outstr in the order header, version line, __lua__, code chunks through '
         'p8scii_to_unicode + UTF-8, a newline exactly when the last chunk has none, __gfx__, optional __label__, blank, __gff__, '
         '__map__, __sfx__, __music__, blank; the reader loop groups the lines after a __name__ line under that name (converted by '
         'unicode_to_p8scii) and from_file hands each group to the section class of its name, label only if present, version from the '
         'version line.',
    note='P8SCII <-> Unicode is C15, the default Lua writer is C06 (Lua code is compared as the default writer emits it: quoted strings '
         'may be re-spelled value-preservingly). The composition read(write(g)) == g is the conjunction of these obligations; the '
         'whole-file composition through real file objects is additionally exercised by a bounded native run (never counted as '
         'proved). Regions are assumed to have their PICO-8 sizes.',
    technique='contract-based deductive verification (codec contracts vs an independent format spec + spec-level inverse lemmas, z3 LIA/BV) + framing obligations from enumerated control paths of the real writer/reader'),
 'C04': dict(category='proof', design_ref='DESIGN.md section 4 (C04)',
    text='The building blocks are under contract and discharged for all inputs: the per-pixel pack and unpack against PngSpec (the low '
         'two bits of A,R,G,B carry each memory byte, the upper six bits of every channel are the label\'s, pixels beyond the data are '
         'copied -- for every label image), and the code area: get_bytes_from_code returns exactly 0x3d00 bytes laid out as raw text or '
         ':c: header + stream, chosen by len(compressed) < len(text), zero padded, and REFUSES (raises) whenever the chosen form does '
         'not fit -- including texts of 64 KiB and more, which no header can describe -- never truncated, never grown; '
         'get_code_from_bytes inverts both forms for every version byte (CR -> blank, trailing newline: the normalisation named in '
         'the statement). The glue is read off the real source on every run and compared with the PICO-8 memory map: join order '
         'gfx|map|gff|music|sfx|code|version, reader offsets 0x0000/0x2000/0x3000/0x3100/0x3200/0x4300/0x8000, slice -> section '
         'of the same name, label source = existing destination else the bundled blank.',
    note='Assumed: pypng write/read is the identity on RGBA8 rows and emits a valid PNG (exercised by an independent PNG decoder in the '
         'bounded run: CRC, zlib, five filters). The end-to-end composition (whole files through the public writer/reader, .p8 -> '
         '.p8.png -> .p8, fit boundary at 0x3d00/0x3d01, random label pixels) is a bounded native run and never counted as proved. '
         'Regions are assumed to have their PICO-8 sizes.',
    technique='contract-based deductive verification (pack/unpack in QF_UFBV, code area in LIA with arrays; pyvc VCs, z3) + layout obligations read from the real ast against the memory-map spec; bounded whole-file round trips'),
 'C06': dict(category='other', design_ref='DESIGN.md section 4 (C06)',
    text='Partial proof + exhaustive ground + bounded. Proved: the real loop body and epilogue of LuaEchoWriter.to_lines are executed '
         'symbolically for an arbitrary pending list and an arbitrary token of every class; each step either appends the token code or '
         'flushes pending ++ [code] as one chunk, and by an induction whose steps z3 discharges (sequence theory) the concatenation '
         'of all chunks equals the concatenation of all token codes, for token lists of every length. Read off the real lexer: a '
         'matcher-table token stores the matched text verbatim and exactly that many bytes are consumed; only TokString re-spells. '
         'Exhaustive (finite, complete for their domain): all 131,584 one- and two-byte string values x both quotes through the real '
         'TokString.code, an independent decoder and the real lexer; all ~19,600 escape units of the dialect x continuation kinds '
         'through the real lexer against the escape rules.',
    note='Bounded only (never counted as proved): coverage of the source by multi-line tokens (line continuation, long strings, block '
         'comments), CRLF, missing final newline -- echo of enumerated and random sources as one chunk and as per-line chunks. The step '
         'from byte pairs to all strings relies on the per-byte concatenation shape of the spelling and on the decoders\' bounded '
         'look-ahead (stated assumption). \\z is outside the dialect.',
    technique='contract-based verification: symbolic execution of the real echo-writer loop body + induction discharged by z3 (sequences); exhaustive ground evaluation of the real string encoder/decoder on finite domains; bounded native echo'),
 'C13': dict(category='proof', design_ref='DESIGN.md section 4 (C13)',
    text='do_build is executed symbolically from its real source (the six-section loop unrolled exactly, state merging at joins; '
         'about 1100 paths). At the one call of file.to_file it is proved, for every combination of optional arguments and every '
         'answer of the file system predicates, that each section of the cart being written is: the named source cart\'s section if '
         '--X was given, the empty default if --empty-X was given, else OUT\'s previous section (the empty default if OUT did not '
         'exist); that the label is the previous OUT\'s; that the cart is written to OUT; and that file.to_file is reached only with '
         'usable arguments. The function contract: it returns 0 exactly when the cart was written once; conflicting or unusable '
         'arguments (both --X and --empty-X, missing file, wrong extension, bad OUT extension) return 1 without any write; an '
         'exception (LuaBuildError from require resolution) leaves OUT untouched.',
    note='Carts are abstract values (SEC(file, section), LABEL(file), EMPTY(section)); file names are abstract with uninterpreted '
         'exists/endswith predicates. The .lua source path is summarised as an abstract function of the file (C14). What file.to_file '
         'does with the cart is C03/C04/C11. A bounded native run of the real build over assignments x OUT states compares every '
         'section read back (replay).',
    technique='contract-based deductive verification: symbolic execution of the real do_build with abstract carts, obligations at the write site discharged by z3'),
 'C20': dict(category='proof', design_ref='DESIGN.md section 4 (C20)',
    text='lines_for_tab is proved (loop invariant over the real generator loop, concatenation model with offset function, lemmas) to '
         'yield, for every line list of any length and every tab selector, exactly the lines the statement describes: with t(i) the '
         'number of separator lines before line i, the non-separator lines with t(i) == tab (all lines, separators included, when no '
         'tab is selected). For process_includes, obligations on all control paths of the real loop body (dataflow events) establish: '
         'a non-include line is yielded unchanged and nothing else happens; an include line is never yielded; the only other '
         'yields are the lines of lines_for_tab(<fresh cart loaded from the target with do_includes=False>.lua.to_lines(), tab) or of '
         'the opened .lua file; the tab selector is the number after ":"; a missing target raises P8IncludeNotFound before anything '
         'is opened. What the two regular expressions accept is a REG/GROUND fact.',
    note='The composition "output == concatenation of expand(line)" follows from the per-iteration obligations (SHAPE: syntactic / '
         'dataflow, not a solver proof). Lines and the separator test are abstract in the lines_for_tab proof. A bounded native run '
         '(every position, every target kind, tab selectors 0..tabs+1, repeated targets, missing targets) compares with a reference '
         'splice and serves as replay.',
    technique='contract-based deductive verification (loop invariant + concatenation model for lines_for_tab; pyvc VCs, z3) + dataflow obligations on all enumerated control paths of process_includes'),
 'C12': dict(category='proof', design_ref='DESIGN.md section 4 (C12)',
    text='The guards that dominate every open()/os.path.isfile() of #include and require() are read from the real source (all '
         'control paths, with assignment and branch events) on every run. #include: on each of the paths to a file access in '
         'process_includes the translated path conditions are proved by z3 (string theory) to imply, for ALL strings, that the '
         'path is the include root or below it; get_root_include_path is proved to return a normalised absolute path. '
         'require(): _evaluate_require is shown to open only what _locate_require_file returns, after the filter; '
         '_locate_require_file to probe only pattern.replace("?", p) for the patterns of the load path; and the filter, '
         'translated into regular conditions, is proved by exhaustive automaton exploration to guarantee for ALL strings A, p, B '
         'that every ".." path component of A + p + B lies inside A or inside B, i.e. a candidate can leave a load-path '
         'directory only where the pattern itself says so.',
    note='POSIX paths. Assumed (sampled against the real os.path every run): abspath(normpath(x)) is normalised and absolute, '
         'dirname keeps that and contains the path, commonpath([a,b]) == a iff b is a or below a. The two SHAPE obligations are '
         'syntactic (dataflow along enumerated paths). A bounded native run with canary files outside every root and every '
         'open/isfile recorded supplies concrete failing inputs (replay).',
    technique='contract-based deductive verification of path guards extracted from the real control paths: z3 string theory (#include) + regular-language decision procedure (require filter)'),
 'C11': dict(category='proof', design_ref='DESIGN.md section 4 (C11)',
    text='file.to_file is under an effect-order contract discharged on every control path of the real function, enumerated from '
         'its ast with EVERY call allowed to raise (which covers a fault at the k-th write for all k without enumerating k): any '
         'event that can create, truncate, remove or rename a file by path happens only after the encoder (fmt.to_file) returned '
         'normally, and the encoder is handed the anonymous temporary file. The frame of the encoders -- no path-modifying '
         'primitive, no open() for writing, writes only to outstr -- is established by a syntactic effect scan over everything '
         'reachable (by name) from P8Formatter.to_file / P8PNGFormatter.to_file, and the CLI callers are shown to reach the '
         'destination only through file.to_file.',
    note='Path-insensitive over-approximation (both branches, loops 0/1/2 times). Assumed: an anonymous temporary file is not the '
         'destination; rb-opens and os.path.exists do not modify; pypng writes only to its stream; a failure of the final copy is '
         'outside the statement. A bounded native fault-injection run (every write index, three exception kinds, failing writer, '
         'unparsable Lua) doubles as replay.',
    technique='contract-based verification of an effect-order contract: exhaustive control-path enumeration of the real ast with exceptional edges + syntactic frame scan'),
 'C02': dict(category='proof', design_ref='DESIGN.md section 4 (C02)',
    text='MinifyNameFactory._name_for_id is proved (real recursive body; its own contract is the induction hypothesis of the '
         'recursive call, with a decreasing-argument obligation) to return the base-26 spelling B26(id) over the real NAME_CHARS; '
         'B26 is proved injective and lower-case-alphabetic by induction (steps discharged by z3). get_short_name is proved, '
         'for every factory state satisfying a representation invariant (each map value is B26(id) of a distinct id < next id; '
         'no key and no value is reserved or in the keep file) and every name, to re-establish the invariant, keep every existing '
         'entry, return kept names exactly as written, and -- the injectivity clause of the property -- to give any two '
         'different names different outputs, including one kept and one renamed. That names AND labels go through this one '
         'factory is read off the transition relation extracted from the real minifier loop.',
    note='Names are int-coded abstract values (only equality / membership are used); reserved and keep sets are uninterpreted '
         'predicates, so the proof holds for every keep file and every builtin list. ids < 2**30. __init__ / read_names_file '
         '(file iteration) and termination of the skip loop are covered by a bounded native run only (labelled bounded).',
    technique='contract-based deductive verification (representation invariant + quantified postconditions over a symbolic dict, induction lemmas; pyvc VCs, z3)'),
 'C01': dict(category='proof', design_ref='DESIGN.md section 4 (C01 / C19), Appendix B',
    text='The real loop body of LuaMinifyTokenWriter.to_lines (plus the helper methods it calls, inlined) is executed symbolically '
         'once per (abstract control state x refined token class) on every run, which yields the minifier\'s transition relation '
         '(chunks emitted, next control state); the extraction itself checks that the successor is a function of the abstraction '
         '(token class, first/last byte class w.r.t. the byte constants of the writer), forking on text-dependent flags. The '
         'reachable control x ghost space is then explored exhaustively (finite, so token sequences of every length are covered): '
         'every significant token is emitted with its own text (names through the factory), nothing but blanks/newlines in '
         'between, a line break is kept wherever a statement can end and none is inserted, and no two tokens emitted without a '
         'separator FUSE -- where FUSE is decided by the regular-language back end for ALL texts of each pair of LexSpec token '
         'classes (maximal munch over the whole lexical grammar, both admitted numeral readings).',
    note='No-fusion is demanded only for class pairs made adjacent by a witness program the real parser accepts on this run '
         '(10k generated programs). String VALUE preservation is C06, renaming is C02. The stats token count and the end-to-end '
         're-lexing are additionally exercised by a bounded native differential (labelled bounded).',
    technique='contract-based deductive verification: symbolic execution of the real loop body into a finite transition relation + exhaustive state exploration + regular-language decision procedure (product automata) for token fusion'),
 'C19': dict(category='proof', design_ref='DESIGN.md section 4 (C01 / C19)',
    text='On the transition relation extracted from the real loop body (see C01), exhaustive exploration proves for token '
         'sequences of every length: each of the first two comments that precede any code is emitted verbatim followed by a '
         'newline, nothing at all is emitted before or between them (so they are the first lines of the output), every other '
         'comment emits nothing (never becomes code); that code never becomes a comment is the no-fusion obligation of C01 '
         '(pairs "-" "-" and "/" "/" are in FUSE), which this check also discharges.',
    note='Header shape variations (blank lines, spaces, comment kinds, code on the same line) are all token sequences over the '
         'abstract classes and therefore inside the exploration; about 3000 concrete header shapes also run through the real minifier '
         '(bounded; it is what decides when a change takes the loop body out of the executor\'s subset). get_title/get_byline themselves '
         'are not under contract.',
    technique='contract-based deductive verification: symbolic execution of the real loop body into a finite transition relation + exhaustive state exploration (+ REG no-fusion)'),
 'C07': dict(category='proof', design_ref='DESIGN.md section 4 (C07), Appendix B',
    text='For the default lexer state: the real ordered matcher table (patterns taken from the compiled objects of the real '
         'module, parsed with CPython\'s own regex parser) and the real dispatch chain of _process_token (read from its AST) '
         'are turned into automata; the product with the automata of an independent lexical specification is explored '
         'exhaustively, deciding for ALL byte strings that the first token picotool reports has the kind and length maximal '
         'munch dictates (keyword over name, longest operator/numeral/name). Progress (no empty match) and chunk independence '
         '(no token spans past a newline) are decided the same way. The position bookkeeping at the end of _process_token is under a '
         'region contract (loop invariant: line = line at entry + newlines consumed, column = distance to the last newline, for every '
         'consumed text). Multi-line states, escape decoding and numeric values are checked by a bounded native differential run '
         'against a reference tokenizer (labelled bounded).',
    note='Assumed and cross-checked every run: anchored re.match == longest prefix accepted by the automaton (exhaustive '
         'comparison with the real re on all strings up to length 4/5 per pattern). The operator set is the dialect picotool '
         'implements; admitted alternative readings: hex/binary numerals with trailing dot, 1..x.',
    technique='regular-language decision procedure over the real regex table (product automaton, exhaustive) + bounded native differential'),
 'C05': dict(category='proof', design_ref='DESIGN.md section 4 (C05)',
    text='compress_code is proved (loop invariant with ghost item-boundary lists, callee contract of _find_repeatable_block '
         'itself proved with two nested loop invariants and termination variants) to emit, for EVERY text, a stream that is '
         'well formed by an independent declarative description of the :c: format (literal / escaped literal / block with '
         '3<=len<=17 and 1<=offset<=produced, byte-by-byte copy semantics) and denotes exactly that text (+ the _update60 '
         'compatibility suffix); decompress_code is proved, for EVERY well-formed stream (not only produced ones, overlapping '
         'references included) and every header length, to return the text that description denotes; get_bytes_from_code / '
         'get_code_from_bytes are proved for layout, header, fit refusal and the raw path.',
    note='Trusted: pyvc VC generator, z3/cvc5 with quantified hypotheses. The composition decode(encode(x)) == x follows by '
         'matching the two contracts (same predicate); that matching is not a machine-checked obligation and is exercised by '
         'a bounded native run (labelled bounded). Text without NUL, <= 0xffff bytes; "_update60 in text" is an '
         'uninterpreted predicate. Preconditions with quantifiers are covered by concrete witnesses.',
    technique='contract-based deductive verification (loop invariants + ghost state over the real loops, z3/cvc5) against a declarative format spec'),
 'C15': dict(category='proof', design_ref='DESIGN.md section 4 (C15)',
    text='The real unicode_to_p8scii loop is proved (loop invariant: cursor at a glyph boundary, decoded prefix == original '
         'bytes; termination variant) to return bs for EVERY text that is a concatenation of table spellings of a byte string '
         'bs of any length, and p8scii_to_unicode is proved to return exactly that concatenation; the three table facts the '
         'proof uses (width table, reverse map, spelling length) plus distinctness, prefix-freeness and UTF-8 encodability '
         'are closed obligations evaluated exhaustively on the real 256-entry tables on every run.',
    note='Trusted: pyvc VC generator, z3 with quantified axioms (concatenation model of str.join with an induction-proved '
         'monotonicity lemma; dict lookups as functions of the key). The exhaustive native run over all 65,536 byte pairs '
         'is a finite ground obligation, not the basis of the all-lengths claim.',
    technique='contract-based deductive verification (loop invariant over the real loop, z3) + exhaustive ground lemmas on the real tables'),
 'C16': dict(category='proof', design_ref='DESIGN.md section 4 (C16)',
    text='Writers and readers of every .p8 section (gfx, gff/map generic hex, sfx, music) and the .p8.png pack/unpack are '
         'each proved, for all region contents / all in-format rows / all label images, against ONE independent format '
         'specification (specs/p8spec.py) -- so a mistake shared by writer and reader fails both. The specification itself is '
         'checked on every run against the carts PICO-8 saved as both .p8 and .p8.png (PNG pixels -> bytes -> text must '
         'reproduce PICO-8\'s own text).',
    note='Trusted: pyvc VC generator (builtin models of format/int/fromhex/rstrip cross-checked against CPython over their '
         'whole finite domain every run), z3. Cart image geometry fixed at 160x205 RGBA8. Map.from_lines/from_bytes wrappers '
         'are not under contract. The memory map of the image (slicing in the reader, join in the writer) is a LAYOUT obligation read off '
         'the ast (shared with C04), a violation only with a failing input from the bounded whole-file run (reference PNG decoder, '
         'PICO-8\'s own .p8 / .p8.png pairs); a ground codec run covers all 65,536 sfx note words and every byte value per gfx / music '
         'column on concrete regions.',
    technique='contract-based deductive verification against an independent format spec (pyvc VCs, z3 QF_UFBV/LIA) + ground spec sanity'),
 'C17': dict(category='proof', design_ref='DESIGN.md section 4 (C17)',
    text='Every accessor of Gfx/Map/Gff/Sfx/Music (except Map.get_rect_pixels) is under a contract whose postcondition '
         'equates the WHOLE region contents after the call with a plain model of the documented semantics (so the frame '
         '"all other bytes unchanged" and clipping are proved, not sampled); obligations are generated from the real '
         'source by symbolic execution, loops cut at invariants, calls checked against callee contracts, and every '
         'obligation is discharged by z3 for all inputs.',
    note='Trusted: the pyvc VC generator (python subset semantics, cross-checked against CPython on a model of each '
         'path on every run) and z3. 32-bit encoding is exact under discharged no-wrap obligations; argument '
         'magnitudes bounded by 2**20. Map.get_rect_pixels is not under contract.',
    technique='contract-based deductive verification: VCs from the real AST (pyvc), z3 QF_UFBV + quantified invariants'),
 'C18': dict(category='proof', design_ref='DESIGN.md section 4 (C18)',
    text='Game.write_cart_data is under a contract taken from the property statement: ValueError iff the write passes '
         '0x4300 and then no region is modified; otherwise every region keeps its size and the concatenated cart memory '
         'equals old[:start] + data + old[start+len:]. All paths of the real function (5-region loop unrolled exactly) '
         'yield obligations that z3 discharges for all addresses, lengths, data and prior contents.',
    note='Trusted: pyvc VC generator (sequence/slice-assignment semantics cross-checked against CPython on each path), z3. '
         'Python ints mathematical (LIA, exact). The five buffers are assumed distinct bytearrays of the region sizes.',
    technique='contract-based deductive verification: VCs from the real AST (pyvc), z3 LIA + arrays'),
}

PENDING = 'no check is claimed for this property (see DESIGN.md)'


def main():
    m = {"version": 1,
         "setup_cmd": "python3-vt -c 'import z3' && /venv/bin/python -c 'import pico8' && chmod +x /verif/check",
         "hooks": {"guard": "PICOTOOL_VERIF",
                   "enable": "no hooks: contracts are sidecar files under /verif/contracts and the checks read /repo's working tree directly; the guard name is reserved and unused",
                   "baseline_off_cmd": "cd /repo && /venv/bin/python -m pytest -ra -q -p no:cacheprovider --timeout=900 --continue-on-collection-errors",
                   "source_commits": [], "add_only": True},
         "engines": [{"name": "pyvc", "path": "pyvc/", "serves_properties": sorted(CHECKS),
                      "kind_free_text": "verification-condition generator for a Python subset: symbolic execution of the real function ASTs against sidecar contracts (requires/ensures/loop invariants/callee contracts), obligations discharged by z3 (cvc5 for unknowns); counter-models replayed on the real code in /venv/bin/python"}],
         "checks": [], "not_applicable": [],
         "notes": "exit codes of ./check: 0 held, 1 violation (VIOLATION line + replay file), 2 undecided (never reported as violation), 3 internal error"}
    for p in PROPS:
        if p in CHECKS:
            c = CHECKS[p]
            m['checks'].append({
                "property_id": p, "quick_cmd": "./check %s --tier quick" % p,
                "thorough_cmd": "./check %s --tier thorough" % p,
                "evidence_file": "evidence/%s.json" % p,
                "replay_cmd_template": "./check %s --replay {path}" % p,
                "engine": "pyvc",
                "level_claimed": {"category": c['category'], "text": c['text'], "design_ref": c['design_ref']},
                "level_note": c['note'], "technique": c['technique']})
        else:
            m['not_applicable'].append({"property_id": p, "reason": PENDING})
    json.dump(m, open(os.path.join(HERE, 'MANIFEST.json'), 'w'), indent=1)


if __name__ == '__main__':
    main()
