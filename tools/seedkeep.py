#!/usr/bin/env python3
"""tools/seedkeep.py <property> <name> <agent worktree> <needs text> [--patch FILE]

Confirms a seeded change independently and stores it under /verif/seeded/<name>/:
  * a FRESH scratch worktree of /repo HEAD is created (outside /repo and /verif), the patch is applied there;
  * the pinned test suite must pass with the change;
  * the demonstration must fail (exit != 0) with the change and pass (exit 0) on an unchanged worktree;
  * the property's quick check is run against the changed worktree (VERIF_REPO) and its verdict recorded;
  * the scratch worktree is removed.
"""
import json
import os
import shutil
import subprocess
import sys
import tempfile

VERIF = os.path.dirname(os.path.dirname(os.path.abspath(__file__)))


def sh(cmd, cwd=None, env=None, timeout=3600):
    r = subprocess.run(cmd, shell=True, cwd=cwd, env=env, capture_output=True, text=True, timeout=timeout)
    return r.returncode, (r.stdout + r.stderr)


def main():
    prop, name, wt, needs = sys.argv[1:5]
    patch_file = sys.argv[sys.argv.index('--patch') + 1] if '--patch' in sys.argv else None
    dest = os.path.join(VERIF, 'seeded', name)
    os.makedirs(dest, exist_ok=True)
    if patch_file:
        patch = open(patch_file).read()
    else:
        patch = sh('git diff -- pico8', cwd=wt)[1]
    open(os.path.join(dest, 'patch.diff'), 'w').write(patch)
    demos = [f for f in os.listdir(wt) if f.startswith('demo_') and f.endswith('.py')]
    for d in demos:
        shutil.copy(os.path.join(wt, d), dest)
    tmp = tempfile.mkdtemp(prefix='seedkeep_')
    scratch = os.path.join(tmp, 'r')
    meta = {'property': prop, 'name': name, 'needs': needs, 'source': 'independent sub-agent given only the property text'}
    try:
        rc, out = sh('git -C /repo worktree add --detach -q %s HEAD' % scratch)
        assert rc == 0, out
        env = dict(os.environ, PYTHONPATH=scratch, PYTHONDONTWRITEBYTECODE='1')
        for d in demos:
            shutil.copy(os.path.join(wt, d), scratch)
        rc0, out0 = sh('/venv/bin/python %s' % demos[0], cwd=scratch, env=env) if demos else (None, '')
        rc, out = sh('git apply %s || git apply -3 %s' % (os.path.join(dest, 'patch.diff'), os.path.join(dest, 'patch.diff')), cwd=scratch)
        assert rc == 0, 'patch does not apply: ' + out
        rct, outt = sh('/venv/bin/python -m pytest -q -p no:cacheprovider --timeout=900 -x 2>&1 | tail -1', cwd=scratch, env=env)
        rc1, out1 = sh('/venv/bin/python %s' % demos[0], cwd=scratch, env=env) if demos else (None, '')
        envc = dict(os.environ, VERIF_REPO=scratch)
        rcc, outc = sh('./check %s --tier quick' % prop, cwd=VERIF, env=envc)
        lines = [l.strip()[:300] for l in outc.splitlines() if l.startswith(('VIOLATION', '  failed obligation', 'UNDECIDED', 'ERROR', 'KNOWN'))][:8]
        meta.update({'tests_with_change': outt.strip().splitlines()[-1] if outt.strip() else '', 'demo_exit_without_change': rc0,
                     'demo_exit_with_change': rc1, 'demo_output_with_change': out1.strip().splitlines()[-3:],
                     'check_exit_code': rcc, 'detected': rcc == 1, 'check_output': lines,
                     'ran': ['fresh scratch worktree of /repo HEAD; git apply patch.diff',
                             'PYTHONPATH=<scratch> /venv/bin/python -m pytest -q -p no:cacheprovider --timeout=900',
                             'demo on the unchanged scratch worktree and with the change',
                             'VERIF_REPO=<scratch> ./check %s --tier quick' % prop, 'git worktree remove --force <scratch>']})
    finally:
        sh('git -C /repo worktree remove --force %s' % scratch)
        shutil.rmtree(tmp, ignore_errors=True)
    json.dump(meta, open(os.path.join(dest, 'meta.json'), 'w'), indent=1)
    print(json.dumps({k: meta.get(k) for k in ('tests_with_change', 'demo_exit_without_change', 'demo_exit_with_change',
                                               'check_exit_code', 'detected')}))
    for l in meta.get('check_output', [])[:4]:
        print('   ', l[:200])


if __name__ == '__main__':
    main()
