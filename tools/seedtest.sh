#!/bin/sh
# tools/seedtest.sh <property> <scratch worktree> <name>
# Confirms a seeded change (tests pass with it; demo fails with it and passes without), stores it under
# /verif/seeded/<name>/, then applies it to /repo, runs the property's quick check, and undoes it at once.
P="$1"; WT="$2"; NAME="$3"
D=/verif/seeded/$NAME; mkdir -p "$D"
cd "$WT" || exit 3
git diff -- pico8 > "$D/patch.diff"
cp "$WT"/demo_*.py "$D/" 2>/dev/null
T_WITH=$(PYTHONPATH=$WT /venv/bin/python -m pytest -q -p no:cacheprovider --timeout=900 2>&1 | tail -1)
PYTHONPATH=$WT /venv/bin/python demo_*.py > /tmp/demo_with.txt 2>&1; DW=$?
git stash -q
PYTHONPATH=$WT /venv/bin/python demo_*.py > /tmp/demo_without.txt 2>&1; DWO=$?
git stash pop -q
echo "tests with change: $T_WITH ; demo with change exit=$DW ; demo without exit=$DWO"
cd /repo && git apply "$D/patch.diff" || { echo "patch does not apply to /repo"; exit 3; }
cd /verif && ./check "$P" --tier quick > /tmp/seed_check.txt 2>&1; RC=$?
git -C /repo checkout -- .
echo "check $P exit=$RC"; grep -c "^VIOLATION" /tmp/seed_check.txt; grep "^VIOLATION" /tmp/seed_check.txt | head -3 | cut -c1-220; tail -1 /tmp/seed_check.txt
python3 - "$P" "$NAME" "$T_WITH" "$DW" "$DWO" "$RC" <<'PY'
import json,sys
p,name,tw,dw,dwo,rc=sys.argv[1:7]
viol=[l.strip() for l in open('/tmp/seed_check.txt') if l.startswith(('VIOLATION','  failed obligation','UNDECIDED','ERROR'))][:8]
meta={'property':p,'name':name,'tests_with_change':tw,'demo_exit_with_change':int(dw),'demo_exit_without_change':int(dwo),
      'check_exit_code':int(rc),'detected':int(rc)==1,'check_output':viol,
      'ran':['PYTHONPATH=<worktree> /venv/bin/python -m pytest -q -p no:cacheprovider','demo with/without change (git stash)',
             'git -C /repo apply patch.diff; ./check %s --tier quick; git -C /repo checkout -- .'%p]}
try:
    old=json.load(open('/verif/seeded/%s/meta.json'%name)); meta['needs']=old.get('needs','')
except Exception: meta['needs']=''
json.dump(meta,open('/verif/seeded/%s/meta.json'%name,'w'),indent=1)
PY
