"""C05 (and C04): PICO-8 ':c:' code compression."""
import z3

from pyvc.contract import Contract
from pyvc.loops import LoopSpec
from pyvc import values as V, source
from pyvc.values import (E, SInt, SBool, SSeq, AND, OR, NOT, implies, ite, val_eq, seq_eq, seq_of, forall, toint)

MOD = 'pico8.game.compress'
WINDOW = 3120         # (255 - 60) * 16: largest offset a 2-byte block reference can express
MAXBLOCK = 17


class FindBlock(Contract):
    abstract_result = True
    """_find_repeatable_block(dat, pos) -> (n, off): a longest earlier match, never overlapping pos."""
    target = MOD + ':_find_repeatable_block'
    mode = 'lia'
    property_ids = ('C05',)

    def setup(self, K):
        a = {'dat': K.bytes('dat'), 'pos': K.int('pos')}
        self.a = a
        return a

    def requires(self, K, a):
        return AND(a['pos'] >= 0, a['pos'] < SSeq.of(a['dat']).n)

    def result(self, K, a):
        return (V.fresh_int('best_len'), V.fresh_int('block_offset'))

    def ensures(self, K, a, old, res):
        if not res.returned:
            return [('no-exception', False)]
        dat, pos = SSeq.of(a['dat']), a['pos']
        n, off = res.value
        room = dat.n - pos
        return [('length-in-range', AND(n >= 0, n <= MAXBLOCK, n <= room)),
                ('offset-in-window', implies(n >= 1, AND(off >= 1, off <= pos, off <= WINDOW))),
                ('no-overlap(off >= n)', implies(n >= 1, n <= off)),
                ('is-a-repeat', implies(n >= 1, forall(pos, pos + n, lambda p: dat.get(p - off) == dat.get(p), 'p')))]

    @property
    def loops(self):
        dat, pos = SSeq.of(self.a['dat']), self.a['pos']

        def outer(ctx, k):
            i, bl, bi, ml, mh = ctx['i'], ctx['best_len'], ctx['best_i'], ctx['max_len'], ctx['max_hist_len']
            return [('bounds', AND(pos - mh <= i, i <= pos, bl >= 0, bl <= ml, mh >= 0, mh <= pos, mh <= WINDOW,
                                   ml >= 0, ml <= MAXBLOCK, ml <= dat.n - pos)),
                    ('best-is-a-match', implies(bl >= 1, AND(pos - mh <= bi, bi < i, bl <= pos - bi,
                                                             forall(pos, pos + bl, lambda p: dat.get(p - (pos - bi)) == dat.get(p), 'p'))))]

        def inner(ctx, k):
            i, j, ml = ctx['i'], ctx['j'], ctx['max_len']
            return [('bounds', AND(i <= j, j <= pos, j - i <= ml)),
                    ('matched-so-far', forall(pos, pos + (j - i), lambda p: dat.get(p - (pos - i)) == dat.get(p), 'p'))]
        return {1: LoopSpec(inv=outer, variant=lambda ctx: pos - ctx['i']),
                2: LoopSpec(inv=inner, variant=lambda ctx: pos - ctx['j'])}



from specs import cspec


def table():
    return list(source.module_info(MOD)['consts']['COMPRESSED_LUA_CHAR_TABLE'])


def tbl_fn():
    t = SSeq.of(table(), 'list')
    return t.get


def named_repeats(T):
    """cspec.repeats(T) as a NAMED predicate REP(a, l, o) with its definition as two axioms (elimination with a
    multi-pattern, introduction with a Skolem function), so that item descriptions are quantifier free."""
    I = V.isort()
    T = V.named(T, 'Tnamed')      # T[p] must be a plain trigger term
    REP = z3.Function(E.fresh('REP'), I, I, I, z3.BoolSort())
    SK = z3.Function(E.fresh('repsk'), I, I, I, I)
    a, l, o, p = (V.ivar(E.fresh(x)) for x in 'alop')
    tp = toint(T.get(SInt(p)))                  # trigger term without arithmetic: T[p]
    E.axioms.append(z3.ForAll([a, l, o, p], z3.Implies(z3.And(REP(a, l, o), p >= a, p < a + l),
                                                       tp == toint(T.get(SInt(p - o)))),
                              patterns=[z3.MultiPattern(REP(a, l, o), tp)]))
    sk = SK(a, l, o)
    E.axioms.append(z3.ForAll([a, l, o], z3.Or(REP(a, l, o), z3.And(sk >= a, sk < a + l, toint(T.get(SInt(sk))) !=
                                                                    toint(T.get(SInt(sk - o))))),
                              patterns=[REP(a, l, o)]))
    return lambda aa, ll, oo: SBool(REP(toint(aa), toint(ll), toint(oo)))


class Stream:
    """An arbitrary well-formed ':c:' stream S[0:n] of m items denoting the text T[0:tl]; the item boundaries are
    ghost lists BO/BP of m+1 stream/text offsets.  Everything lives in the args dict under '__' names (ghost
    arguments: concretised with a counter-model, not passed to the real function)."""
    @staticmethod
    def fresh(K, maxlen=0xffff):
        n, tl, m = K.int('n', 0, maxlen), K.int('tl', 0, maxlen), K.int('m', 0, maxlen)
        return {'__S': V.byte_seq('S', n), '__T': V.byte_seq('T', tl),
                '__BO': V.int_seq('BO', m + 1), '__BP': V.int_seq('BP', m + 1)}

    def __init__(self, a):
        self.S, self.T, self.BO, self.BP = (SSeq.of(a[k]) for k in ('__S', '__T', '__BO', '__BP'))
        self.n, self.tl, self.m = self.S.n, self.T.n, self.BO.n - 1
        self.rep = named_repeats(self.T) if not E.concrete else cspec.repeats(self.T)

    def wf(self):
        return AND(self.BP.n == self.BO.n, self.m >= 0,
                   cspec.well_formed(self.S, self.n, self.T, self.tl, self.m, self.BO.get, self.BP.get, tbl_fn(), self.rep))

    def item(self, j):
        return cspec.item_ok(self.S, self.T, tbl_fn(), self.BO.get(j), self.BP.get(j), self.BO.get(j + 1),
                             self.BP.get(j + 1), self.rep)


def encode_items(items):
    """Concrete stream + text + boundaries for a list of items ('lit', byte) / ('esc', byte) / ('blk', off, ln)."""
    t = table()
    S, T, BO, BP = [], [], [0], [0]
    for it in items:
        if it[0] == 'lit':
            S.append(t.index(it[1], 1))
            T.append(it[1])
        elif it[0] == 'esc':
            S += [0, it[1]]
            T.append(it[1])
        else:
            off, ln = it[1], it[2]
            S += [60 + off // 16, off % 16 + (ln - 2) * 16]
            for _ in range(ln):
                T.append(T[len(T) - off])
        BO.append(len(S))
        BP.append(len(T))
    return {'__S': SSeq.of(bytes(S)), '__T': SSeq.of(bytes(T)), '__BO': SSeq.of(BO, 'list'), '__BP': SSeq.of(BP, 'list')}


_STREAMS = {}


def stream_of(a):
    key = (id(a['__S']), id(E.axioms))
    if key not in _STREAMS:
        _STREAMS.clear()
        _STREAMS[key] = Stream(a)
    return _STREAMS[key]


class Decompress(Contract):
    abstract_result = True
    """decompress_code on EVERY code area holding a well-formed stream (not only those picotool produces):
    the first `hl` bytes of the CSpec text, hl = the header length (hl may end before the stream does -- picotool's
    own writer stores the length of the text without the compatibility suffix)."""
    target = MOD + ':decompress_code'
    mode = 'lia'
    property_ids = ('C05', 'C04')

    def setup(self, K):
        a = Stream.fresh(K)
        st = stream_of(a)
        a['__hl'] = K.int('hl', 0, 0xffff)
        pad = V.byte_seq('pad')
        L = K.int('L', 8, 0x10000)
        hl = a['__hl']
        hdr = [58, 99, 58, 0, hl // 256, hl % 256, 0, 0]          # ':c:\\0' len_hi len_lo 0 0

        def cd(i):
            r = ite(i < 8 + st.n, st.S.get(i - 8), pad.get(i))
            for k in range(7, -1, -1):
                r = ite(i == k, hdr[k], r)
            return r
        a['codedata'] = SSeq(L, cd, 'list')
        self.a = a
        return a

    def witness(self, K):
        a = encode_items([('lit', ord('a')), ('blk', 1, 5), ('esc', ord('Z')), ('lit', ord('\n')), ('blk', 7, 3)])
        st = Stream(a)
        hl = st.tl - 2                                    # the header length ends inside the last block
        a['__hl'] = hl
        a['codedata'] = SSeq.of([58, 99, 58, 0, hl // 256, hl % 256, 0, 0] + [st.S.get(i) for i in range(st.n)] + [0] * 5, 'list')
        return a

    def examples(self, rnd):
        t = table()
        for trial in range(400):
            items, produced = [], 0
            for _ in range(rnd.randint(0, 6)):
                kind = rnd.choice(('lit', 'lit', 'esc', 'blk', 'blk')) if produced else rnd.choice(('lit', 'esc'))
                if kind == 'lit':
                    items.append(('lit', t[rnd.randint(1, 59)])); produced += 1
                elif kind == 'esc':
                    items.append(('esc', rnd.choice((0x80, 0xff, ord('A'), ord('Z'))))); produced += 1
                else:
                    off, ln = rnd.randint(1, min(produced, 40)), rnd.randint(3, 17)
                    items.append(('blk', off, ln)); produced += ln
            if trial % 5 == 0:
                # texts that consist of / end with the compatibility suffix
                items = [('esc', b) if b not in t[1:] else ('lit', b) for b in (cspec.FUTURE1 if trial % 2 else cspec.FUTURE2)]
                if trial % 3 == 0:
                    items = [('lit', ord('x')), ('lit', 10)] + items
            a = encode_items(items)
            st = Stream(a)
            hl = st.tl if rnd.random() < 0.7 else rnd.randint(0, st.tl)
            a['__hl'] = hl
            a['codedata'] = SSeq.of([58, 99, 58, 0, hl // 256, hl % 256, 0, 0] + [st.S.get(i) for i in range(st.n)] +
                                    [0] * rnd.randint(0, 4), 'list')
            yield a

    def requires(self, K, a):
        st = stream_of(a)
        cd = SSeq.of(a['codedata'])
        hl = a['__hl']
        hdr = [58, 99, 58, 0, hl // 256, hl % 256, 0, 0]
        return AND(cd.n >= 8 + st.n, st.wf(), hl >= 0, hl <= st.tl, st.tl <= 0xffff,
                   *([cd.get(k) == hdr[k] for k in range(8)] +
                     [forall(0, st.n, lambda i: cd.get(8 + i) == st.S.get(i)),
                      forall(0, st.tl, lambda p: NOT(st.T.get(p) == 0))]))     # format limit: code text has no NUL

    def result(self, K, a):
        return (V.fresh_int('code_length'), V.byte_seq('code'), V.fresh_int('compressed_size'))

    def ensures(self, K, a, old, res):
        if not res.returned:
            return [('no-exception', False)]
        st = stream_of(a)
        hl = a['__hl']
        clen, code, csize = res.value
        want = SSeq(cspec.unsuffix_len(st.T, hl), st.T.get, 'bytes')
        return [('code_length-is-header-value', val_eq(clen, hl)),
                ('code-is-CSpec-text(without the compatibility suffix)', seq_eq(SSeq.of(code), want)),
                ('compressed_size-within-header+stream', AND(csize >= 8, csize <= 8 + st.n,
                                                             implies(hl == st.tl, csize == 8 + st.n)))]

    @property
    def loops(self):
        st = stream_of(self.a)
        hl = self.a['__hl']

        def inv(ctx, k):
            gj, in_i, out_i, out = ctx['gj'], ctx['in_i'], ctx['out_i'], ctx['out']
            bp = st.BP.get(gj)
            return [('ghost-item-index', AND(gj >= 0, gj <= st.m)),
                    ('at-item-boundary', in_i == 8 + st.BO.get(gj)),
                    ('produced-so-far', AND(out_i == ite(bp < hl, bp, hl), out_i >= 0, bp >= 0, ctx['code_length'] == hl)),
                    ('buffer-length', out.n == hl),
                    ('prefix-is-CSpec-text', forall(0, out_i, lambda p: out.get(p) == st.T.get(p)))]

        def lemmas(ctx):
            gj = ctx['gj']
            return [('an-item-remains', gj < st.m),
                    ('item-description', AND(st.item(gj), st.BO.get(gj) >= 0, st.BO.get(gj + 1) <= st.n,
                                             st.BP.get(gj + 1) <= st.tl))]

        def copy_inv(ctx, k):
            # inner loop of a block item: k bytes copied so far, byte by byte
            gj, out_i, out = ctx['gj'], ctx['out_i'], ctx['out']
            bp = st.BP.get(gj)
            return [('copied-so-far', AND(out_i == bp + k, out_i <= hl, out.n == hl, ctx['code_length'] == hl,
                                          ctx['length'] == st.BP.get(gj + 1) - bp,
                                          ctx['offset'] >= 1, ctx['offset'] <= bp, st.BP.get(gj + 1) <= st.tl, bp >= 0,
                                          st.rep(bp, ctx['length'], ctx['offset']))),
                    ('prefix-is-CSpec-text', forall(0, out_i, lambda p: out.get(p) == st.T.get(p)))]
        return {1: LoopSpec(inv=inv, lemmas=lemmas, modifies=['out'], ghost={'gj': 0},
                            ghost_step=lambda ctx: {'gj': ctx['gj'] + 1},
                            shapes={'out': lambda: V.int_seq('out', kind='list')},
                            variant=lambda ctx: hl - ctx['out_i']),
                2: LoopSpec(inv=copy_inv, modifies=['out'], shapes={'out': lambda: V.int_seq('out', kind='list')},
                            lemmas=lambda ctx, k: [('this-byte-repeats', implies(ctx['out_i'] < hl, st.T.get(ctx['out_i']) ==
                                                    st.T.get(ctx['out_i'] - ctx['offset'])))])}


_REPS = {}


def rep_for(T):
    key = (id(T), id(E.axioms))
    if key not in _REPS:
        _REPS[key] = (named_repeats(T) if not E.concrete else cspec.repeats(T), T)
    return _REPS[key][0]


class Compress(Contract):
    abstract_result = True
    """compress_code(in_p): the output is a WELL-FORMED ':c:' stream (CSpec) denoting exactly the text
    in_p (+ the 0.1.7 compatibility suffix when the text mentions _update60)."""
    target = MOD + ':compress_code'
    mode = 'lia'
    no_merge = True
    name_locals = ('in_p',)
    property_ids = ('C05', 'C04')

    def setup(self, K):
        a = {'in_p': K.bytes('in_p')}
        self.a = a
        return a

    def requires(self, K, a):
        return SSeq.of(a['in_p']).n <= 0x10000

    def witness(self, K):
        return {'in_p': SSeq.of(b'function _update60()\n x+=1 x+=1 x+=1 -- \x80\nend')}

    def examples(self, rnd):
        for trial in range(300):
            n = rnd.choice((0, 1, 2, 5, 20, 60, 200))
            alpha = rnd.choice((b'ab', b'ab\n ', b'abcdefgh()=\n\x80'))
            x = bytes(rnd.choice(alpha) for _ in range(n))
            if trial % 4 == 0:
                x += b'_update60' + rnd.choice((b'', b'\n', b' ', b'x'))
            yield {'in_p': SSeq.of(x)}

    def has60(self, in_p):
        """b'_update60' in in_p, as an uninterpreted predicate of the text (it implies len >= 9)."""
        if E.concrete:
            x = SSeq.of(in_p)
            return b'_update60' in bytes(x.get(i) for i in range(x.n))
        key = (id(in_p), id(E.axioms))
        if getattr(self, '_h60', (None,))[0] != key:
            b = z3.Bool(E.fresh('has_update60'))
            E.axioms.append(z3.Implies(b, toint(SSeq.of(in_p).n) >= 9))
            self._h60 = (key, SBool(b), in_p)
        return self._h60[1]

    def contains_model(self, ex, cont, item, st):
        if isinstance(item, bytes) and item == b'_update60':
            return self.has60(cont)
        return None

    def text(self, a):
        """The text the stream must denote."""
        x = SSeq.of(a['in_p'])
        suffix = AND(self.has60(a['in_p']), x.n < 0x10001 - (len(cspec.FUTURE2) + 1))
        last = x.get(x.n - 1)
        with_nl = V.merge_values(AND(NOT(last == 32), NOT(last == 10)), x + SSeq.of(b'\n'), x)
        return V.merge_values(suffix, with_nl + SSeq.of(cspec.FUTURE2), x)

    def result(self, K, a):
        out = K.bytearray('compressed')
        m = V.fresh_int('items')
        K.st.locals['__gbo'], K.st.locals['__gbp'] = V.int_seq('gbo', m + 1), V.int_seq('gbp', m + 1)
        return out

    def ensures(self, K, a, old, res):
        if not res.returned:
            return [('no-exception', False)]
        S = K.seq(res.value)
        loc = K.st.locals
        want = self.text(a)
        T = SSeq.of(loc['in_p']) if 'in_p' in loc else want          # verification: the text the loop ran on
        if E.concrete and 'gbo' not in loc and '__gbo' not in loc:
            # judging a real run: the item boundaries are recovered by the independent reference decoder
            dec = cspec.decode([S.get(i) for i in range(S.n)], table())
            if dec is None:
                return [('stream-is-well-formed-CSpec-for-the-text', False)]
            BO, BP = SSeq.of(dec[1], 'list'), SSeq.of(dec[2], 'list')
        else:
            BO, BP = SSeq.of(K.seq(loc['gbo'] if 'gbo' in loc else loc['__gbo'])), SSeq.of(K.seq(loc['gbp'] if 'gbp' in loc else loc['__gbp']))
        return [('text-is-input(+compatibility suffix)', seq_eq(T, want)),
                ('stream-is-well-formed-CSpec-for-the-text',
                 AND(BO.n == BP.n, cspec.well_formed(S, S.n, T, T.n, BO.n - 1, BO.get, BP.get, tbl_fn(), rep_for(T))))]

    @property
    def loops(self):
        def inv(ctx, k):
            T, out, pos, gbo, gbp = ctx['in_p'], ctx['out'], ctx['pos'], ctx['gbo'], ctx['gbp']
            T = SSeq.of(T)
            m = gbo.n - 1
            rep = rep_for(ctx.raw('in_p'))
            return [('ghost-shape', AND(m >= 0, gbp.n == gbo.n, gbo.get(0) == 0, gbp.get(0) == 0)),
                    ('at-boundary', AND(gbo.get(m) == out.n, gbp.get(m) == pos, pos >= 0, pos <= T.n)),
                    ('items-so-far-are-well-formed', forall(0, m, lambda j: AND(
                        cspec.item_ok(out, T, tbl_fn(), gbo.get(j), gbp.get(j), gbo.get(j + 1), gbp.get(j + 1), rep),
                        gbo.get(j) >= 0, gbp.get(j) >= 0, gbo.get(j + 1) <= out.n, gbp.get(j + 1) <= pos), 'j'))]

        def lemmas(ctx):
            T = SSeq.of(ctx['in_p'])
            c = T.get(ctx['pos'])
            li = SSeq.of(ctx['literal_index']).get(c)
            return [('literal-index-inverts-the-table', AND(li >= 0, li <= 59, implies(li >= 1, tbl_fn()(li) == c)))]
        return {2: LoopSpec(inv=inv, lemmas=lemmas, modifies=['out'],
                            ghost={'gbo': lambda ctx: SSeq.of([0], 'list'), 'gbp': lambda ctx: SSeq.of([0], 'list')},
                            ghost_step=lambda ctx: {'gbo': ctx['gbo'] + SSeq.of([ctx['out'].n], 'list'),
                                                    'gbp': ctx['gbp'] + SSeq.of([ctx['pos']], 'list')},
                            shapes={'gbo': lambda: V.int_seq('gbo'), 'gbp': lambda: V.int_seq('gbp')},
                            variant=lambda ctx: SSeq.of(ctx['in_p']).n - ctx['pos'])}


CONTRACTS = [FindBlock(), Decompress(), Compress()]
