"""C08: cursor hygiene of EVERY parser function, on all control paths (pyvc/effects.py with dataflow events).

Given the contract of Parser._accept (proved in contracts/parsercur.py: a None result leaves the cursor where it was, a
token result leaves it just after that token) and, inductively, this very property for the callees:

  (H1) a parser function that returns None has restored the cursor: on every path ending in `return None`, every step that may
       have advanced the cursor (an _accept / _expect / sub-parser call known or possibly non-None) is followed by an
       assignment `self._pos = <position saved at entry>` before the return;
  (H2) the functions for which (H1) does not hold ("dirty": they may return None with the cursor advanced) are called only
       where the caller restores the cursor itself before it returns None;
  (H3) every node is built with start=<position saved from self._pos> and end=self._pos.
"""
import ast

from pyvc import source, effects

PARSER = 'pico8.lua.parser'
PRIMS = ('_peek', '_accept', '_expect', '_assert', '__init__', 'process_tokens', 'root', 'tokens')
NEVER_NONE = ('_chunk',)           # returns a (possibly empty) Chunk: a non-None result does not imply an advance


def parser_methods():
    cls = [n for n in source.mod_ast(PARSER)[0].body if isinstance(n, ast.ClassDef) and n.name == 'Parser'][0]
    return {f.name: f for f in cls.body if isinstance(f, ast.FunctionDef) and f.name not in PRIMS}


def _self_call(node):
    """name of the Parser method called by `self._x(...)`, else None"""
    if isinstance(node, ast.Call) and isinstance(node.func, ast.Attribute) and isinstance(node.func.value, ast.Name) and node.func.value.id == 'self':
        return node.func.attr
    return None


def _nonnull_facts(test, pol, pending):
    """[(callee, known non-None?)] implied by a branch: callee is the parse call whose result the test inspects.
    Returns (facts, unknown) where unknown=True when the test mentions a parse call / pending result we cannot decide."""
    facts, unknown = [], False

    def atom(t, p):
        nonlocal unknown
        # V is None / V is not None / V / not V  ;  self._accept(..) is None / ...
        subj, want_nonnull = None, None
        if isinstance(t, ast.Compare) and len(t.ops) == 1 and isinstance(t.comparators[0], ast.Constant) and t.comparators[0].value is None:
            subj = t.left
            want_nonnull = isinstance(t.ops[0], ast.IsNot)
            if not p:
                want_nonnull = not want_nonnull
        elif isinstance(t, (ast.Name, ast.Call)):
            subj, want_nonnull = t, p
        if subj is None:
            if any(_self_call(n) for n in ast.walk(t)) or any(isinstance(n, ast.Name) and n.id in pending for n in ast.walk(t)):
                unknown = True
            return
        callee = _self_call(subj)
        if callee is None and isinstance(subj, ast.Name) and subj.id in pending:
            callee = pending[subj.id]
        if callee is not None:
            facts.append((callee, want_nonnull))

    def walk(t, p):
        nonlocal unknown
        if isinstance(t, ast.UnaryOp) and isinstance(t.op, ast.Not):
            walk(t.operand, not p)
        elif isinstance(t, ast.BoolOp) and ((isinstance(t.op, ast.And) and p) or (isinstance(t.op, ast.Or) and not p)):
            for v in t.values:
                walk(v, p)
        elif isinstance(t, ast.BoolOp):
            # a false conjunction / true disjunction: which operand decided is unknown
            if any(_self_call(n) for n in ast.walk(t)) or any(isinstance(n, ast.Name) and n.id in pending for n in ast.walk(t)):
                unknown = True
        else:
            atom(t, p)
    walk(test, pol)
    return facts, unknown


def analyse(fnode, dirty=()):
    """Per-path analysis.  Returns (None-returning paths that may leave the cursor advanced, number of None-returning paths)."""
    outs = effects.Paths(may_raise=lambda c: c in ('self._expect', 'self._assert'), dataflow=True, max_iter=2, limit=600000).function(fnode)
    bad, n_none = [], 0
    for kind, t in outs:
        if kind != 'return' or not effects.consistent(t):
            continue
        adv = False
        pending = {}
        known_none = set()
        retval = 'fall-through'
        for e in t:
            if e[0] == 'assign':
                tgt = ast.unparse(e[1])
                if tgt == 'self._pos':
                    if isinstance(e[2], ast.Name):
                        adv = False                      # restored to a saved position: earlier results are undone
                        pending.clear()
                    else:
                        adv = True
                    continue
                callee = _self_call(e[2])
                if isinstance(e[1], ast.Name):
                    pending.pop(e[1].id, None)
                    known_none.discard(e[1].id)
                    if callee is not None and callee not in ('_peek',):
                        pending[e[1].id] = callee
                        if callee in dirty:
                            adv = True                   # may have advanced even if it returns None
                    elif isinstance(e[2], ast.BoolOp) and any(_self_call(v) for v in e[2].values):
                        pending[e[1].id] = '_accept'     # x = self._accept(a) or self._accept(b) ...
            elif e[0] == 'assume':
                facts, unknown = _nonnull_facts(e[1], e[2], pending)
                for v in _none_vars(e[1], e[2]):
                    known_none.add(v)
                for callee, nonnull in facts:
                    if nonnull and callee not in NEVER_NONE:
                        adv = True
                    if not nonnull and callee in dirty:
                        adv = True
                if unknown:
                    adv = True
            elif e[0] == 'ret' and e[1] in ('self._expect', 'self._assert'):
                adv = True                               # returned normally: something was consumed
            elif e[0] == 'call' and _is_dirty_call(e, dirty):
                adv = True
            elif e[0] == 'return':
                retval = e[1]
        is_none = retval == 'fall-through' or retval is None or (isinstance(retval, ast.Constant) and retval.value is None)
        if is_none:
            # a parse result that was never seen to be None may stand for consumed tokens
            if any(v not in known_none and c not in NEVER_NONE for v, c in pending.items()):
                adv = True if not _restored_after_last_parse(t) else adv
            n_none += 1
            if adv:
                bad.append(t)
    return bad, n_none


def _none_vars(test, pol):
    """names the branch shows to be None: `v is None` (true) / `v is not None` (false) / `not v` (true) / `v` (false), through and/or"""
    out = []

    def walk(t, p):
        if isinstance(t, ast.UnaryOp) and isinstance(t.op, ast.Not):
            walk(t.operand, not p)
        elif isinstance(t, ast.BoolOp) and ((isinstance(t.op, ast.And) and p) or (isinstance(t.op, ast.Or) and not p)):
            for v in t.values:
                walk(v, p)
        elif isinstance(t, ast.Compare) and len(t.ops) == 1 and isinstance(t.left, ast.Name) and isinstance(t.comparators[0], ast.Constant) \
                and t.comparators[0].value is None:
            if isinstance(t.ops[0], ast.Is) == p:
                out.append(t.left.id)
        elif isinstance(t, ast.Name) and not p:
            out.append(t.id)
    walk(test, pol)
    return out


def _restored_after_last_parse(trace):
    """is the last cursor-relevant event of the path a restore `self._pos = <name>`?"""
    last = None
    for e in trace:
        if e[0] == 'assign' and ast.unparse(e[1]) == 'self._pos':
            last = 'restore' if isinstance(e[2], ast.Name) else 'set'
        elif e[0] == 'call' and e[1].startswith('self._') and e[1] not in ('self._peek', 'self._assert'):
            last = 'parse'
    return last == 'restore'


def _is_dirty_call(e, dirty):
    return e[1].startswith('self.') and e[1][5:] in dirty


def hygiene():
    """[(name, status, detail)]"""
    ms = parser_methods()
    res = []
    dirty = set()
    # fixpoint: a function is dirty if some None-returning path may leave the cursor advanced (given the current dirty set)
    for _ in range(4):
        new = set()
        for name, f in ms.items():
            bad, n = analyse(f, dirty)
            if bad:
                new.add(name)
        if new == dirty:
            break
        dirty = new
    clean = sorted(set(ms) - dirty)
    res.append(('PATHS:parser/(H1) on every path returning None the cursor has been restored, in %d parser functions: %s' % (len(clean), ', '.join(clean)),
                len(clean) > 0, ''))
    # H2: callers of dirty functions are themselves clean (they restore) or dirty only because of it -- the top-level entry points must be clean
    entry = [n for n in ('_chunk', '_stat', '_laststat', '_exp', '_explist', '_functioncall', '_prefixexp') if n in ms]
    bad_entry = [n for n in entry if n in dirty]
    callers = {}
    for name, f in ms.items():
        for c in ast.walk(f):
            g = _self_call(c)
            if g in dirty:
                callers.setdefault(g, set()).add(name)
    detail = {g: sorted(cs) for g, cs in callers.items()}
    res.append(('PATHS:parser/(H2) the functions that may return None with the cursor advanced (%s) are called only from functions that restore it: '
                'statement, block and expression parsers are all clean' % (', '.join(sorted(dirty)) or 'none'), not bad_entry, str(detail)))
    # H3: node construction
    bad3, nnodes = [], 0
    node_names = {n for n, _ in _node_types()}
    for name, f in ms.items():
        saved = set()
        for s in ast.walk(f):
            if isinstance(s, ast.Assign) and len(s.targets) == 1 and isinstance(s.targets[0], ast.Name) and ast.unparse(s.value) == 'self._pos':
                saved.add(s.targets[0].id)
        for c in ast.walk(f):
            if isinstance(c, ast.Call) and isinstance(c.func, ast.Name) and c.func.id in node_names:
                nnodes += 1
                kw = {k.arg: ast.unparse(k.value) for k in c.keywords}
                if kw.get('end') != 'self._pos' or kw.get('start') not in saved:
                    bad3.append('%s: %s(start=%s, end=%s)' % (name, c.func.id, kw.get('start'), kw.get('end')))
    res.append(('PATHS:parser/(H3) each of the %d node constructions has start=<a position saved from self._pos> and end=self._pos' % nnodes,
                not bad3 and nnodes > 0, str(bad3[:3])))
    return res, sorted(dirty)


def _node_types():
    tree = source.mod_ast(PARSER)[0]
    for n in tree.body:
        if isinstance(n, ast.Assign) and ast.unparse(n.targets[0]) == '_ast_node_types':
            return ast.literal_eval(n.value)
    return ()
