"""C20: lines_for_tab(lines, tab) yields exactly the lines of the requested editor tab.

Spec (from the property statement): with t(i) = number of tab-separator lines among lines[0..i), the result is the
concatenation over i of   [lines[i]]  if (lines[i] is a separator ? tab is None : tab is None or tab == t(i))   else [].
`is a separator` is the real test TAB_LINE_RE.match(line), kept abstract (an uninterpreted predicate of the line index);
what the regular expression accepts is a separate REG/GROUND fact."""
import z3

from pyvc.contract import Contract
from pyvc.loops import LoopSpec
from pyvc import values as V
from pyvc.values import E, SInt, SBool, SSeq, SOpt, AND, OR, NOT, implies, ite, val_eq, seq_eq, toint, tobool, forall
from pyvc.calls import concat_model, CONCATS

P8 = 'pico8.game.formatter.p8'


class _Regex:
    def __init__(self, owner):
        self.owner = owner

    def pyvc_getattr(self, attr):
        if attr == 'match':
            return _Match(self.owner)
        raise V.SymErr('regex attribute %s' % attr)


class _Match:
    def __init__(self, owner):
        self.owner = owner

    def pyvc_call(self, ex, args, kw, st, node):
        line = args[0]
        idx = self.owner.index_of(line)
        if idx is None:
            raise V.SymErr('TAB_LINE_RE.match on something that is not a line of the input')
        # a match object or None: only its truth value is used
        return SOpt(NOT(SBool(self.owner.TAB(toint(idx)))), 1)


class LinesForTab(Contract):
    target = P8 + ':lines_for_tab'
    mode = 'lia'
    property_ids = ('C20',)
    generator = True

    def setup(self, K):
        I = z3.IntSort()
        self.TAB = z3.Function('is_tab_separator', I, z3.BoolSort())
        self.CNT = z3.Function('tabs_before', I, I)
        n = K.int('n', 0)
        self.n = n
        self.LINE = z3.Function('line_id', I, I)          # lines are opaque values (ids); line i has id LINE(i)
        lines = SSeq(n, lambda i: SInt(self.LINE(toint(i))), 'list')
        self.lines = lines
        k = z3.Int(E.fresh('k'))
        E.axioms.append(self.CNT(0) == 0)
        E.axioms.append(z3.ForAll([k], z3.Implies(k >= 0, self.CNT(k + 1) == self.CNT(k) + z3.If(self.TAB(k), 1, 0)), patterns=[self.CNT(k + 1)]))
        E.axioms.append(z3.ForAll([k], z3.Implies(k >= 0, self.CNT(k) >= 0), patterns=[self.CNT(k)]))
        tab = K.opt('inc_tab', K.int('tab'))
        self.tab = tab
        self.spec = concat_model(SSeq(n, lambda i: self.piece(i), 'list'), 'list')
        self.OFF = CONCATS[id(self.spec)][2]
        return {'lines_iter': lines, 'inc_tab': tab}

    def index_of(self, line):
        # inside the loop the current line is lines[k]: recover k from the term LINE(k)
        t = toint(line)
        if z3.is_app(t) and t.decl().name() == 'line_id':
            return SInt(t.arg(0))
        return None

    def selected(self, i):
        tabi = SBool(self.TAB(toint(i)))
        allt = self.tab.isnone
        return ite(tabi, allt, OR(allt, val_eq(self.tab.val, SInt(self.CNT(toint(i))))))

    def piece(self, i):
        line = SInt(self.LINE(toint(i)))
        return SSeq(ite(self.selected(i), 1, 0), lambda j: line, 'list')

    def requires(self, K, a):
        return implies(NOT(self.tab.isnone), self.tab.val >= 0)

    def ensures(self, K, a, old, res):
        if not res.returned:
            return [('no-exception', False)]
        got = K.seq(res.value)
        want = self.spec
        return [('yields-exactly-the-selected-lines.len', val_eq(got.n, want.n)),
                ('yields-exactly-the-selected-lines.items', forall(0, want.n, lambda j: val_eq(got.get(j), want.get(j))))]

    @property
    def loops(self):
        OFF, spec = self.OFF, self.spec

        def inv(ctx, k):
            y = ctx['__yielded__']
            return [('tab-counter', val_eq(ctx['cur_tab'], SInt(self.CNT(toint(k))))),
                    ('yielded-so-far.len', val_eq(y.n, SInt(OFF(toint(k))))),
                    ('yielded-so-far.items', forall(0, y.n, lambda j: val_eq(y.get(j), spec.get(j))))]

        def lemmas(ctx, k):
            kk = toint(k)
            sel = self.selected(k)
            return [('offset-step', SInt(OFF(kk + 1)) == SInt(OFF(kk)) + ite(sel, 1, 0)),
                    ('next-item', implies(sel, val_eq(spec.get(SInt(OFF(kk))), SInt(self.LINE(kk)))))]
        return {1: LoopSpec(inv=inv, lemmas=lemmas, shapes={'__yielded__': lambda: V.int_seq('yielded', kind='list')})}

    def global_model(self, name):
        if name == 'TAB_LINE_RE':
            return _Regex(self)
        return NotImplemented


CONTRACTS = [LinesForTab()]
