"""C18: Game.write_cart_data = pointwise memory update (contract taken from the property statement)."""
from pyvc.contract import Contract
from pyvc.values import AND, OR, NOT, implies, iff, val_eq, seq_eq, SSeq

REGIONS = (('gfx', 'pico8.gfx.gfx:Gfx', 0x2000), ('map', 'pico8.map.map:Map', 0x1000),
           ('gff', 'pico8.gff.gff:Gff', 0x100), ('music', 'pico8.music.music:Music', 0x100),
           ('sfx', 'pico8.sfx.sfx:Sfx', 0x1100))      # PICO-8 memory map order, sizes


def cart_mem(K, game):
    """The 0x4300 bytes of cart memory as ONE sequence: gfx ++ map ++ gff ++ music ++ sfx."""
    m = None
    for name, _, _ in REGIONS:
        d = K.data(K.field(game, name))
        m = d if m is None else m + d
    return m


class WriteCartData(Contract):
    target = 'pico8.game.game:Game.write_cart_data'
    mode = 'lia'
    property_ids = ('C18',)

    def setup(self, K):
        secs = {}
        for name, cls, size in REGIONS:
            secs[name] = K.obj(cls, _data=K.bytearray(name + '_data', size))   # five DISTINCT buffers
        game = K.obj('pico8.game.game:Game', **secs)
        return {'self': game, 'data': K.bytes('data'), 'start_addr': K.int('start_addr')}

    def requires(self, K, a):
        return a['start_addr'] >= 0

    def modifies(self, K, a):
        return [K.ref(K.field(a['self'], n)) for n, _, _ in REGIONS]

    def raises(self, K, a):
        return {'ValueError': a['start_addr'] + a['data'].n > 0x4300}

    def ensures(self, K, a, old, res):
        g, data, start = a['self'], a['data'], a['start_addr']
        if res.raised():
            # rejected => nothing modified
            return [('reject-untouched.' + n, seq_eq(K.data(K.field(g, n)), old.data(old.field(g, n))))
                    for n, _, _ in REGIONS]
        out = [('len-' + n, K.data(K.field(g, n)).n == size) for n, _, size in REGIONS]
        m0 = cart_mem(old, g)
        want = m0[:start] + data + m0[start + data.n:]
        out.append(('mem-pointwise', seq_eq(cart_mem(K, g), want)))
        return out

    # ---- replay -----------------------------------------------------------
    replay_recipe = 'write_cart_data'

    def concretize(self, mv):
        n = max(0, mv.int(self._a['data'].n))
        return {'start_addr': mv.int(self._a['start_addr']), 'data': [mv.int(self._a['data'].get(i)) for i in range(min(n, 0x5000))]}


CONTRACTS = [WriteCartData()]
