"""C17: section accessors against plain models, with full frame (every other byte unchanged).

ints="bv": 32-bit vectors with a discharged no-wrap obligation on every arithmetic node.
Arguments are bounded by BIG (2**20) so that the 32-bit encoding is exact; this bound is the
'machine arithmetic' assumption reported in the evidence (sizes/offsets beyond a million pixels
are outside what is verified).
"""
import z3

from pyvc.contract import Contract
from pyvc.loops import LoopSpec
from pyvc import values as V
from pyvc.values import (E, SInt, SBool, SSeq, SOpt, AND, OR, NOT, implies, iff, ite, val_eq, seq_eq, seq_of,
                         forall, toint)
from specs import models as M

BIG = 1 << 20
GFX, MAP, GFF, SFX, MUSIC = ('pico8.gfx.gfx:Gfx', 'pico8.map.map:Map', 'pico8.gff.gff:Gff',
                             'pico8.sfx.sfx:Sfx', 'pico8.music.music:Music')


def ragged(name, maxval):
    """Arbitrary iterable of rows of arbitrary lengths (a caller-supplied sprite / tile rectangle)."""
    R = SInt(V.ivar(E.fresh(name + '.rows')))
    W = z3.Function(E.fresh(name + '.width'), V.isort(), V.isort())
    P = z3.Function(E.fresh(name + '.val'), V.isort(), V.isort(), V.isort())
    r, c = V.ivar(E.fresh('r')), V.ivar(E.fresh('c'))
    E.axioms.append(z3.And(R.t >= 0, R.t <= BIG))
    E.var_bounds[R.t.get_id()] = (0, BIG)
    E.axioms.append(z3.ForAll([r], z3.And(W(r) >= 0, W(r) <= BIG), patterns=[W(r)]))
    E.axioms.append(z3.ForAll([r, c], z3.And(P(r, c) >= 0, P(r, c) <= maxval), patterns=[P(r, c)]))
    E.size_hints.append(lambda b: z3.And(R.t <= b, z3.ForAll([r], W(r) <= b)))
    return SSeq(R, lambda i: SSeq(SInt(W(toint(i))), lambda j: SInt(P(toint(i), toint(j))), 'list'), 'list')


class SectionContract(Contract):
    mode = 'bv'
    property_ids = ('C17',)
    cls = None
    size = None

    def section(self, K, **extra):
        return K.obj(self.cls, _data=K.bytearray('data', self.size), **extra)

    def unchanged(self, K, a, old):
        return seq_eq(K.data(a['self']), old.data(a['self']))


# =============================================================== Gfx
class GfxGetSprite(SectionContract):
    target = 'pico8.gfx.gfx:Gfx.get_sprite'
    cls, size = GFX, 8192

    def setup(self, K):
        self.d0 = None
        a = {'self': self.section(K), 'id': K.int('id', 0, 255), 'tile_width': K.int('tw', 1, 1 << 12),
             'tile_height': K.int('th', 1, 1 << 12)}
        self.a, self.d0 = a, K.data(a['self'])
        return a

    def requires(self, K, a):
        return AND(a['id'] >= 0, a['id'] <= 255, a['tile_width'] >= 1, a['tile_width'] <= (1 << 12),
                   a['tile_height'] >= 1, a['tile_height'] <= (1 << 12), K.data(a['self']).n == 8192)

    def model(self, d, a):
        return seq_of(a['tile_height'] * 8,
                      lambda r: M.sprite_row(d, a['id'], r, a['tile_width'] * 8), 'list')

    def result(self, K, a):
        return K.list(self.model(K.data(a['self']), a))

    def ensures(self, K, a, old, res):
        if not res.returned:
            return [('no-exception', False)]
        return [('result-is-model', val_eq(K.seq(res.value), self.model(old.data(a['self']), a))),
                ('memory-unchanged', self.unchanged(K, a, old))]

    @property
    def loops(self):
        a = self.a
        d = self.d0
        ftr, ftc = a['id'] // 16, a['id'] % 16

        def rows(ctx, k):      # loop 1: ty  -- k tile rows done = 8k pixel rows
            return {'result': seq_of(k * 8, lambda r: M.sprite_row(d, a['id'], r, a['tile_width'] * 8), 'list')}

        def cols(ctx, k):      # loop 3: tx  -- k tiles of the current pixel row done
            r = (ctx['ty'] - ftr) * 8 + ctx['y_offset']
            return {'row': seq_of(k * 8, lambda c: M.sprite_pixel(d, a['id'], r, c), 'bytes')}
        return {1: LoopSpec(defs=rows), 3: LoopSpec(defs=cols)}


class GfxSetSprite(SectionContract):
    target = 'pico8.gfx.gfx:Gfx.set_sprite'
    cls, size = GFX, 8192

    def setup(self, K):
        a = {'self': self.section(K), 'id': K.int('id', 0, 255), 'sprite': ragged('sprite', 16),
             'tile_x_offset': K.int('xo', 0, BIG), 'tile_y_offset': K.int('yo', 0, BIG)}
        self.a, self.d0 = a, K.data(a['self'])
        return a

    def requires(self, K, a):
        return AND(a['id'] >= 0, a['id'] <= 255, a['tile_x_offset'] >= 0, a['tile_x_offset'] <= BIG,
                   a['tile_y_offset'] >= 0, a['tile_y_offset'] <= BIG, K.data(a['self']).n == 8192)

    def modifies(self, K, a):
        return [K.ref(a['self'])]

    def origin(self, a):
        return (a['id'] % 16) * 8 + a['tile_x_offset'], (a['id'] // 16) * 8 + a['tile_y_offset']

    def ensures(self, K, a, old, res):
        if not res.returned:
            return [('no-exception', False)]
        fx, fy = self.origin(a)
        d0, sp = old.data(a['self']), a['sprite']
        want = seq_of(8192, lambda loc: M.painted_byte(d0, sp, fx, fy, loc, sp.n), 'bytes')
        return [('sheet-is-model(paint+clip, all other pixels unchanged)', seq_eq(K.data(a['self']), want))]

    @property
    def loops(self):
        a, d0 = self.a, self.d0
        fx, fy = self.origin(a)
        sp = a['sprite']
        return {1: LoopSpec(defs=lambda ctx, k: {'self._data': seq_of(
                    8192, lambda loc: M.painted_byte(d0, sp, fx, fy, loc, k), 'bytes')}),
                2: LoopSpec(defs=lambda ctx, k: {'self._data': seq_of(
                    8192, lambda loc: M.painted_byte(d0, sp, fx, fy, loc, ctx['y'], k), 'bytes')})}



# =============================================================== Map
class MapContract(SectionContract):
    cls, size = MAP, 4096
    variants = ('gfx', 'nogfx')

    def mapobj(self, K, variant):
        g = K.obj(GFX, _data=K.bytearray('gfxdata', 8192)) if variant == 'gfx' else None
        return K.obj(MAP, _data=K.bytearray('mapdata', 4096), _gfx=g)

    def gfxdata(self, K, a):
        g = K.field(a['self'], '_gfx')
        return None if g is None else K.data(g)

    def wf(self, K, a):
        g = self.gfxdata(K, a)
        return AND(K.data(a['self']).n == 4096, True if g is None else g.n == 8192)

    def maxrow(self, K, a):
        return 31 if K.field(a['self'], '_gfx') is None else 63

    def cell(self, K, a, x, y):
        return M.map_cell(K.data(a['self']), self.gfxdata(K, a), x, y)

    def frame(self, K, a, old):
        out = [('map-bytes-unchanged', seq_eq(K.data(a['self']), old.data(a['self'])))]
        if self.gfxdata(K, a) is not None:
            out.append(('gfx-bytes-unchanged', seq_eq(self.gfxdata(K, a), self.gfxdata(old, a))))
        return out


class MapGetCell(MapContract):
    target = 'pico8.map.map:Map.get_cell'

    def setup(self, K, variant):
        return {'self': self.mapobj(K, variant), 'x': K.int('x'), 'y': K.int('y')}

    def requires(self, K, a):
        return AND(self.wf(K, a), a['x'] >= 0, a['x'] <= 127, a['y'] >= 0, a['y'] <= self.maxrow(K, a))

    def result(self, K, a):
        return self.cell(K, a, a['x'], a['y'])

    def ensures(self, K, a, old, res):
        if not res.returned:
            return [('no-exception', False)]
        return [('result-is-model', val_eq(res.value, self.cell(old, a, a['x'], a['y'])))] + self.frame(K, a, old)


class MapSetCell(MapContract):
    target = 'pico8.map.map:Map.set_cell'

    def setup(self, K, variant):
        return {'self': self.mapobj(K, variant), 'x': K.int('x'), 'y': K.int('y'), 'val': K.int('val')}

    def requires(self, K, a):
        return AND(self.wf(K, a), a['x'] >= 0, a['x'] <= 127, a['y'] >= 0, a['y'] <= self.maxrow(K, a),
                   a['val'] >= 0, a['val'] <= 255)

    def modifies(self, K, a):
        g = K.field(a['self'], '_gfx')
        return [K.ref(a['self'])] + ([K.ref(g)] if g is not None else [])

    def update(self, old, a):
        x, y, v = a['x'], a['y'], a['val']
        m0, g0 = old.data(a['self']), self.gfxdata(old, a)
        out = [(old.ref(a['self']), seq_of(4096, lambda i: ite(AND(y <= 31, i == y * 128 + x), v, m0.get(i)), 'bytes'))]
        if g0 is not None:
            out.append((old.ref(old.field(a['self'], '_gfx')), seq_of(
                8192, lambda i: ite(AND(y > 31, i == 4096 + (y - 32) * 128 + x), v, g0.get(i)), 'bytes')))
        return out

    def ensures(self, K, a, old, res):
        return [] if res.returned else [('no-exception', False)]


class MapGetRectTiles(MapContract):
    target = 'pico8.map.map:Map.get_rect_tiles'

    def setup(self, K, variant):
        a = {'self': self.mapobj(K, variant), 'x': K.int('x'), 'y': K.int('y'),
             'width': K.int('width'), 'height': K.int('height')}
        self.a, self.K0 = a, K
        return a

    def requires(self, K, a):
        return AND(self.wf(K, a), a['x'] >= 0, a['x'] <= 127, a['y'] >= 0, a['y'] <= 63, a['width'] >= 1,
                   a['width'] <= BIG, a['height'] >= 1, a['height'] <= 64,
                   a['y'] + a['height'] <= self.maxrow(K, a) + 1)

    def tile(self, K, a, r, c):
        tx, ty = a['x'] + c, a['y'] + r
        off = OR(ty > 63, tx > 127)
        return ite(off, 0, self.cell(K, a, ite(off, 0, tx), ite(off, 0, ty)))

    def model(self, K, a):
        return seq_of(a['height'], lambda r: seq_of(a['width'], lambda c: self.tile(K, a, r, c), 'bytes'), 'list')

    def result(self, K, a):
        return K.list(self.model(K, a))

    def ensures(self, K, a, old, res):
        if not res.returned:
            return [('no-exception', False)]
        return [('result-is-model', val_eq(K.seq(res.value), self.model(old, a)))] + self.frame(K, a, old)

    @property
    def loops(self):
        a, K0 = self.a, self.K0
        return {1: LoopSpec(defs=lambda ctx, k: {'result': seq_of(
                    k, lambda r: seq_of(a['width'], lambda c: self.tile(K0, a, r, c), 'bytes'), 'list')}),
                2: LoopSpec(defs=lambda ctx, k: {'row': seq_of(
                    k, lambda c: self.tile(K0, a, ctx['tile_y'] - a['y'], c), 'bytes')})}


class MapSetRectTiles(MapContract):
    target = 'pico8.map.map:Map.set_rect_tiles'

    def setup(self, K, variant):
        a = {'self': self.mapobj(K, variant), 'rect': ragged('rect', 255), 'x': K.int('x'), 'y': K.int('y')}
        self.a, self.K0, self.m0, self.g0 = a, K, K.data(a['self']), self.gfxdata(K, a)
        return a

    def requires(self, K, a):
        # documented: whatever extends off the edge of the map is discarded.  Without a Gfx the map has
        # 32 rows and the method offers no clipping there: rows must then fit (in-contract arguments).
        pre = AND(self.wf(K, a), a['x'] >= 0, a['x'] <= BIG, a['y'] >= 0, a['y'] <= BIG)
        if K.field(a['self'], '_gfx') is None:
            pre = AND(pre, a['y'] + a['rect'].n <= 32)
        return pre

    def modifies(self, K, a):
        g = K.field(a['self'], '_gfx')
        return [K.ref(a['self'])] + ([K.ref(g)] if g is not None else [])

    def newcell(self, a, oldv, cx, cy, rows_done, cur_cols=None):
        rect = a['rect']
        r, c = cy - a['y'], cx - a['x']
        inrow = AND(r >= 0, r < rows_done)
        if cur_cols is not None:
            inrow = OR(inrow, AND(r == rows_done, c < cur_cols, r >= 0, r < rect.n))
        row = rect.get(ite(AND(r >= 0, r < rect.n), r, 0))
        hit = AND(inrow, r >= 0, r < rect.n, c >= 0, c < row.n)
        return ite(hit, row.get(ite(AND(c >= 0, c < row.n), c, 0)), oldv)

    def mapbytes(self, a, m0, rows_done, cur_cols=None):
        return seq_of(4096, lambda i: self.newcell(a, m0.get(i), i % 128, i // 128, rows_done, cur_cols), 'bytes')

    def gfxbytes(self, a, g0, rows_done, cur_cols=None):
        return seq_of(8192, lambda i: ite(i < 4096, g0.get(i), self.newcell(
            a, g0.get(i), i % 128, ite(i < 4096, 32, 32 + (i - 4096) // 128), rows_done, cur_cols)), 'bytes')

    def ensures(self, K, a, old, res):
        if not res.returned:
            return [('no-exception', False)]
        n = a['rect'].n
        out = [('map-is-model(write+clip, other cells unchanged)',
                seq_eq(K.data(a['self']), self.mapbytes(a, old.data(a['self']), n)))]
        if self.gfxdata(old, a) is not None:
            out.append(('gfx-is-model(rows 32-63 in the lower sheet half, upper half unchanged)',
                        seq_eq(self.gfxdata(K, a), self.gfxbytes(a, self.gfxdata(old, a), n))))
        return out

    @property
    def loops(self):
        a = self.a

        def d(ctx, rows, cols=None):
            r = {'self._data': self.mapbytes(a, self.m0, rows, cols)}
            if self.g0 is not None:
                r['self._gfx._data'] = self.gfxbytes(a, self.g0, rows, cols)
            return r
        return {1: LoopSpec(defs=lambda ctx, k: d(ctx, k)),
                2: LoopSpec(defs=lambda ctx, k: d(ctx, ctx['tile_y'], k))}


# =============================================================== Gff
class GffContract(SectionContract):
    cls, size = GFF, 256

    def setup(self, K):
        return {'self': self.section(K), 'id': K.int('id'), 'flags': K.int('flags')}

    def requires(self, K, a):
        return AND(K.data(a['self']).n == 256, a['id'] >= 0, a['id'] <= 255)

    def newbyte(self, old, f):
        raise NotImplementedError

    def modifies(self, K, a):
        return [K.ref(a['self'])]

    def ensures(self, K, a, old, res):
        if not res.returned:
            return [('no-exception', False)]
        d0 = old.data(a['self'])
        want = seq_of(256, lambda i: ite(i == a['id'], self.newbyte(d0.get(i), a['flags']), d0.get(i)), 'bytes')
        return [('flags-are-model(other tiles unchanged)', seq_eq(K.data(a['self']), want))]


def bits8(x):
    return x % 256


class GffGetFlags(GffContract):
    target = 'pico8.gff.gff:Gff.get_flags'

    def modifies(self, K, a):
        return []

    def result(self, K, a):
        return K.data(a['self']).get(a['id']) & a['flags']

    def ensures(self, K, a, old, res):
        if not res.returned:
            return [('no-exception', False)]
        b = old.data(a['self']).get(a['id'])
        # bit i of the result is set iff it is set in the tile's byte and requested
        return [('result-is-model', val_eq(res.value, b & a['flags'])),
                ('memory-unchanged', self.unchanged(K, a, old))]


class GffSetFlags(GffContract):
    target = 'pico8.gff.gff:Gff.set_flags'

    def newbyte(self, old, f):
        return old | bits8(f)


class GffClearFlags(GffContract):
    target = 'pico8.gff.gff:Gff.clear_flags'

    def newbyte(self, old, f):
        return old - (old & bits8(f))


class GffResetFlags(GffContract):
    target = 'pico8.gff.gff:Gff.reset_flags'

    def newbyte(self, old, f):
        return bits8(f)


# =============================================================== Sfx
class SfxContract(SectionContract):
    cls, size = SFX, 4352

    def wf(self, K, a):
        return AND(K.data(a['self']).n == 4352, a['id'] >= 0, a['id'] <= 63)


class SfxGetNote(SfxContract):
    target = 'pico8.sfx.sfx:Sfx.get_note'

    def setup(self, K):
        return {'self': self.section(K), 'id': K.int('id'), 'note': K.int('note')}

    def requires(self, K, a):
        return AND(self.wf(K, a), a['note'] >= 0, a['note'] <= 31)

    def result(self, K, a):
        return M.word_fields(M.note_word(K.data(a['self']), a['id'], a['note']))

    def ensures(self, K, a, old, res):
        if not res.returned:
            return [('no-exception', False)]
        return [('result-is-model', val_eq(res.value, M.word_fields(M.note_word(old.data(a['self']), a['id'], a['note'])))),
                ('memory-unchanged', self.unchanged(K, a, old))]


class SfxSetNote(SfxContract):
    target = 'pico8.sfx.sfx:Sfx.set_note'
    FIELDS = (('pitch', 63), ('waveform', 15), ('volume', 7), ('effect', 7))

    def setup(self, K):
        a = {'self': self.section(K), 'id': K.int('id'), 'note': K.int('note')}
        for f, _ in self.FIELDS:
            a[f] = K.opt(f, K.int(f))
        return a

    def requires(self, K, a):
        pre = [self.wf(K, a), a['note'] >= 0, a['note'] <= 31]
        for f, hi in self.FIELDS:
            o = SOpt.of(a[f])
            pre.append(implies(NOT(o.isnone), AND(o.val >= 0, o.val <= hi)))
        return AND(*pre)

    def modifies(self, K, a):
        return [K.ref(a['self'])]

    def update(self, old, a):
        # note-is-model: given fields set, the other fields of the note and all other bytes unchanged
        d0 = old.data(a['self'])
        cur = M.word_fields(M.note_word(d0, a['id'], a['note']))
        new = [ite(SOpt.of(a[f]).isnone, c, SOpt.of(a[f]).val) for (f, _), c in zip(self.FIELDS, cur)]
        w = M.fields_word(*new)
        at = a['id'] * 68 + a['note'] * 2
        return [(old.ref(a['self']),
                 seq_of(4352, lambda i: V.vite(i == at, lambda: w % 256, lambda: V.vite(
                     i == at + 1, lambda: w // 256, lambda: d0.get(i))), 'bytes'))]

    def ensures(self, K, a, old, res):
        return [] if res.returned else [('no-exception', False)]


class SfxGetProperties(SfxContract):
    target = 'pico8.sfx.sfx:Sfx.get_properties'

    def setup(self, K):
        return {'self': self.section(K), 'id': K.int('id')}

    def requires(self, K, a):
        return self.wf(K, a)

    def model(self, d, a):
        return tuple(d.get(a['id'] * 68 + 64 + j) for j in range(4))

    def result(self, K, a):
        return self.model(K.data(a['self']), a)

    def ensures(self, K, a, old, res):
        if not res.returned:
            return [('no-exception', False)]
        return [('result-is-model', val_eq(res.value, self.model(old.data(a['self']), a))),
                ('memory-unchanged', self.unchanged(K, a, old))]


class SfxSetProperties(SfxContract):
    target = 'pico8.sfx.sfx:Sfx.set_properties'
    FIELDS = ('editor_mode', 'note_duration', 'loop_start', 'loop_end')

    def setup(self, K):
        a = {'self': self.section(K), 'id': K.int('id')}
        for f in self.FIELDS:
            a[f] = K.opt(f, K.int(f))
        return a

    def requires(self, K, a):
        pre = [self.wf(K, a)]
        for f in self.FIELDS:
            o = SOpt.of(a[f])
            pre.append(implies(NOT(o.isnone), AND(o.val >= 0, o.val <= 255)))
        return AND(*pre)

    def modifies(self, K, a):
        return [K.ref(a['self'])]

    def update(self, old, a):
        # properties-are-model: given properties stored, all other bytes unchanged
        d0 = old.data(a['self'])
        base = a['id'] * 68 + 64

        def byte(i):
            def sel(j):
                if j == len(self.FIELDS):
                    return d0.get(i)
                o = SOpt.of(a[self.FIELDS[j]])
                return V.vite(AND(i == base + j, NOT(o.isnone)), lambda: o.val, lambda: sel(j + 1))
            return sel(0)
        return [(old.ref(a['self']), seq_of(4352, byte, 'bytes'))]

    def ensures(self, K, a, old, res):
        return [] if res.returned else [('no-exception', False)]


# =============================================================== Music
class MusicContract(SectionContract):
    cls, size = MUSIC, 256

    def wf(self, K, a):
        return AND(K.data(a['self']).n == 256, a['id'] >= 0, a['id'] <= 63)


class MusicGetChannel(MusicContract):
    target = 'pico8.music.music:Music.get_channel'

    def setup(self, K):
        return {'self': self.section(K), 'id': K.int('id'), 'channel': K.int('channel')}

    def requires(self, K, a):
        return AND(self.wf(K, a), a['channel'] >= 0, a['channel'] <= 3)

    def model(self, d, a):
        p = d.get(a['id'] * 4 + a['channel']) % 128
        return SOpt(p > 63, p)

    def result(self, K, a):
        return self.model(K.data(a['self']), a)

    def ensures(self, K, a, old, res):
        if not res.returned:
            return [('no-exception', False)]
        return [('result-is-model(None when silent)', val_eq(res.value, self.model(old.data(a['self']), a))),
                ('memory-unchanged', self.unchanged(K, a, old))]


class MusicSetChannel(MusicContract):
    target = 'pico8.music.music:Music.set_channel'

    def setup(self, K):
        return {'self': self.section(K), 'id': K.int('id'), 'channel': K.int('channel'),
                'pattern': K.opt('pattern', K.int('pattern'))}

    def requires(self, K, a):
        p = SOpt.of(a['pattern'])
        return AND(self.wf(K, a), a['channel'] >= 0, a['channel'] <= 3,
                   implies(NOT(p.isnone), AND(p.val >= 0, p.val <= 63)))

    def modifies(self, K, a):
        return [K.ref(a['self'])]

    def ensures(self, K, a, old, res):
        if not res.returned:
            return [('no-exception', False)]
        d0, p = old.data(a['self']), SOpt.of(a['pattern'])
        at = a['id'] * 4 + a['channel']
        # silent channel n is stored as 0x41 + n; the flag bit (bit 7) of the byte is kept
        newv = ite(p.isnone, 0x41 + a['channel'], p.val) + (d0.get(at) // 128) * 128
        return [('channel-is-model(flag bit and other bytes unchanged)',
                 seq_eq(K.data(a['self']), seq_of(256, lambda i: ite(i == at, newv, d0.get(i)), 'bytes')))]


class MusicGetProperties(MusicContract):
    target = 'pico8.music.music:Music.get_properties'

    def setup(self, K):
        return {'self': self.section(K), 'id': K.int('id')}

    def requires(self, K, a):
        return self.wf(K, a)

    def model(self, d, a):
        return tuple(d.get(a['id'] * 4 + j) >= 128 for j in range(3))

    def result(self, K, a):
        return self.model(K.data(a['self']), a)

    def ensures(self, K, a, old, res):
        if not res.returned:
            return [('no-exception', False)]
        return [('result-is-model', val_eq(res.value, self.model(old.data(a['self']), a))),
                ('memory-unchanged', self.unchanged(K, a, old))]


class MusicSetProperties(MusicContract):
    target = 'pico8.music.music:Music.set_properties'
    FIELDS = ('begin', 'end', 'stop')

    def setup(self, K):
        a = {'self': self.section(K), 'id': K.int('id')}
        for f in self.FIELDS:
            a[f] = K.opt(f, K.bool(f))
        return a

    def requires(self, K, a):
        return self.wf(K, a)

    def modifies(self, K, a):
        return [K.ref(a['self'])]

    def ensures(self, K, a, old, res):
        if not res.returned:
            return [('no-exception', False)]
        d0 = old.data(a['self'])

        def byte(i):
            r = d0.get(i)
            for j, f in enumerate(self.FIELDS):
                o = SOpt.of(a[f])
                r = ite(AND(i == a['id'] * 4 + j, NOT(o.isnone)), d0.get(i) % 128 + ite(o.val, 128, 0), r)
            return r
        return [('flags-are-model(channel bits and other bytes unchanged)',
                 seq_eq(K.data(a['self']), seq_of(256, byte, 'bytes')))]


CONTRACTS = [GfxGetSprite(), GfxSetSprite(), MapGetCell(), MapSetCell(), MapGetRectTiles(), MapSetRectTiles(),
             GffGetFlags(), GffSetFlags(), GffClearFlags(), GffResetFlags(),
             SfxGetNote(), SfxSetNote(), SfxGetProperties(), SfxSetProperties(),
             MusicGetChannel(), MusicSetChannel(), MusicGetProperties(), MusicSetProperties()]
