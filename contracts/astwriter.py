"""C09 / C10: structural contracts of the tree-driven Lua writers (LuaASTEchoWriter and its subclasses).

  * cursor helper  _get_code_for_spaces(node)  (base class): consumes exactly the maximal run of trivia tokens at the
    cursor (bounded by the node's end, or by the end of the token list) and returns the concatenation of their codes;
  * no silent loss: the region at the head of to_lines raises ParserError iff a non-trivia token lies at or after the
    position where the parser stopped (root.end_pos);
  * emission discipline (all control paths of every _walk_* handler): text is emitted only through the cursor helpers, or
    is a token's own code accompanied by a cursor step;
  * indentation bookkeeping (all control paths of every _walk_* handler): `_indent` is raised by one right after an
    opening token is emitted, lowered by one right before the matching closing token, never negative, and is back at its
    entry value when the handler finishes.
"""
import ast
import z3

from pyvc.contract import Contract, Kit
from pyvc.loops import LoopSpec
from pyvc import values as V, source, effects
from pyvc.values import E, SInt, SBool, SSeq, SOpt, Ref, SymErr, AND, OR, NOT, implies, ite, val_eq, seq_eq, toint, tobool, forall
from pyvc.execu import Exec, State, BuiltinVal, ClassVal, RaisedValue, OpaqueStr

WRITER = 'pico8.lua.lua:LuaASTEchoWriter'
OPENERS = {"b'do'", "b'then'", "b'else'", "b'repeat'", "b'('", "b'{'", "b'['", "b')'"}       # ')' : end of a parameter list, the body opens
CLOSERS = {"b'end'", "b'until'", "b')'", "b'}'", "b']'", "b'elseif'", "b'else'", "b','", "b';'",
           'self._tokens[self._pos].code'}        # the trailing field separator of a table constructor (a ',' or ';' by the test before it)


class _Toks:
    def __init__(self, K):
        I, B = z3.IntSort(), z3.BoolSort()
        self.SP = z3.Function('is_space', I, B)
        self.NL = z3.Function('is_newline', I, B)
        self.CM = z3.Function('is_comment', I, B)
        self.n = K.int('ntokens', 0)
        self.tokens = SSeq(self.n, lambda i: i if isinstance(i, int) else SInt(toint(i)), 'list')

    def trivia(self, i):
        t = toint(i)
        return OR(SBool(self.SP(t)), SBool(self.NL(t)), SBool(self.CM(t)))


class GetCodeForSpaces(Contract):
    target = WRITER + '._get_code_for_spaces'
    mode = 'lia'
    property_ids = ('C09',)

    def setup(self, K):
        self.T = _Toks(K)
        T = self.T
        pos = K.int('pos', 0)
        K.st.assume(pos <= T.n)
        self.pos0 = pos
        end = K.int('node_end', 0)
        self.node_none = K.bool('node.isnone')
        self.end = end
        self.toklist = K.st.alloc(T.tokens, 'list')
        self.obj = K.obj(WRITER, _tokens=self.toklist, _pos=pos, _args={}, _indent=K.int('indent', 0))
        node = SOpt(self.node_none, K.obj('pico8.lua.parser:Node', end_pos=end, _end_token_pos=end))
        return {'self': self.obj, 'node': node}

    def requires(self, K, a):
        return implies(NOT(self.node_none), self.end <= self.T.n)

    def modifies(self, K, a):
        return [self.obj]

    def bound(self):
        return ite(self.node_none, self.T.n, self.end)

    def ensures(self, K, a, old, res):
        if not res.returned:
            return [('no-exception', False)]
        T = self.T
        pos1 = K.st.heap[self.obj.id]['_pos']
        out = K.seq(res.value)
        b = self.bound()
        return [('cursor-stops-at-the-first-non-trivia-token-or-the-bound',
                 AND(pos1 >= self.pos0, OR(pos1 <= b, val_eq(pos1, self.pos0)), forall(self.pos0, pos1, lambda i: T.trivia(i)),
                     OR(pos1 >= b, NOT(T.trivia(pos1))))),
                ('returns-exactly-the-codes-of-the-consumed-tokens',
                 AND(val_eq(out.n, pos1 - self.pos0), forall(0, out.n, lambda k: val_eq(out.get(k), self.pos0 + k))))]

    def call_hook(self, ex, node, f, args, kw, st):
        T = self.T
        if isinstance(f, BuiltinVal) and f.name == 'isinstance' and len(args) == 2 and isinstance(args[1], ClassVal):
            fn = {'TokSpace': T.SP, 'TokNewline': T.NL, 'TokComment': T.CM}.get(args[1].qual.split(':')[1])
            if fn is None:
                return NotImplemented
            return SBool(fn(toint(args[0])))
        return NotImplemented

    def method_model(self, ex, recv, name, A, kw, st, node):
        return NotImplemented

    def join_model(self, ex, sq, st, kind):
        # codes are opaque: the code of token i is i; b''.join(list of codes) is the list itself
        return SSeq(sq.n, sq.get, 'bytes')

    def attr_model(self, base, attr):
        if attr == 'code' and isinstance(base, SInt):
            return base                  # codes are opaque: the code of token i is i
        return NotImplemented

    _loops_override = None

    @property
    def loops(self):
        if self._loops_override is not None:
            return self._loops_override
        T = self.T

        def inv(ctx, k):
            pos = ctx.get('self._pos')
            strs = ctx['strs']
            return [('consumed-run-is-trivia', AND(pos >= self.pos0, pos <= T.n, OR(pos <= self.bound(), val_eq(pos, self.pos0)),
                                                   forall(self.pos0, pos, lambda i: T.trivia(i)))),
                    ('collected-codes', AND(val_eq(strs.n, pos - self.pos0), forall(0, strs.n, lambda j: val_eq(strs.get(j), self.pos0 + j))))]
        return {1: LoopSpec(inv=inv, modifies=['self', 'strs'], variant=lambda ctx: T.n - ctx.get('self._pos'),
                            shapes={'strs': lambda: V.int_seq('strs', kind='list')})}


CONTRACTS = [GetCodeForSpaces()]


# ------------------------------------------------------------------------------------------------ path-based obligations

def handler_functions():
    cls = [n for n in source.mod_ast('pico8.lua.lua')[0].body if isinstance(n, ast.ClassDef) and n.name == 'LuaASTEchoWriter'][0]
    return [f for f in cls.body if isinstance(f, ast.FunctionDef) and f.name.startswith('_walk_')]


def consistent(trace):
    """Drop paths that take contradictory branches on the SAME test (or on a flag set to a constant) with nothing assigned in
    between: `if short_if: ... if not short_if:`, `in_parens = True ... if in_parens:`.  Sound: only infeasible paths are dropped."""
    known = {}
    for e in trace:
        if e[0] == 'assign':
            names = {n.id for n in ast.walk(e[1]) if isinstance(n, ast.Name)} | {ast.unparse(e[1])}
            for k in list(known):
                if any(nm in k[1] for nm in names):
                    del known[k]
            if isinstance(e[1], ast.Name) and isinstance(e[2], ast.Constant) and isinstance(e[2].value, bool):
                known[('t', frozenset([e[1].id]), e[1].id)] = e[2].value
        elif e[0] == 'iterate':
            names = {n.id for n in ast.walk(e[1]) if isinstance(n, ast.Name)}
            for k in list(known):
                if any(nm in k[1] for nm in names):
                    del known[k]
        elif e[0] == 'assume':
            test, pol = e[1], e[2]
            while isinstance(test, ast.UnaryOp) and isinstance(test.op, ast.Not):
                test, pol = test.operand, not pol
            if any(isinstance(n, ast.Call) for n in ast.walk(test)) and not ast.unparse(test).startswith("self._args.get('ignore_tokens')"):
                continue                      # calls may have effects: not correlated (the ignore_tokens option is constant)
            names = frozenset(n.id for n in ast.walk(test) if isinstance(n, ast.Name)) | frozenset([ast.unparse(test)])
            key = ('t', names, ast.unparse(test))
            if key in known and known[key] != pol:
                return False
            known[key] = pol
    return True


def indent_obligations():
    """[(name, ok, detail)] per handler."""
    res = []
    for f in handler_functions():
        try:
            outs = effects.Paths(may_raise=lambda c: False, dataflow=True, max_iter=2, limit=400000).function(f)
        except (NotImplementedError, effects.TooManyPaths) as e:
            res.append(('PATHS:indent/%s' % f.name, None, repr(e)))
            continue
        bad = []
        touched = False
        for kind, t in outs:
            if not consistent(t):
                continue
            depth = 0
            emis = []          # sequence of ('emit', text) and ('inc',) / ('dec',)
            for e in t:
                if e[0] == 'assign' and ast.unparse(e[1]) == 'self._indent':
                    v = ast.unparse(e[2])
                    if v == 'self._indent + 1':
                        emis.append(('inc',))
                    elif v == 'self._indent - 1':
                        emis.append(('dec',))
                    else:
                        bad.append('unexpected update of _indent: %s' % v)
                elif e[0] == 'call' and e[1] == 'self._get_text' and len(e[2]) >= 2:
                    emis.append(('emit', e[2][1]))
                elif e[0] == 'yield' and isinstance(e[1], ast.Constant) and isinstance(e[1].value, bytes):
                    emis.append(('emit', repr(e[1].value).replace('"', "'")))
                elif e[0] == 'call' and e[1] in ('self._walk', 'self._walk_prefix', 'self._get_name', 'self._get_code_for_spaces', 'self._get_semis'):
                    emis.append(('other',))
            for i, x in enumerate(emis):
                if x[0] == 'inc':
                    touched = True
                    depth += 1
                    prev = [y for y in emis[:i] if y[0] == 'emit']
                    if not prev or prev[-1][1] not in OPENERS or emis[i - 1][0] != 'emit':
                        bad.append('_indent raised without an opening token emitted just before (last emitted: %s)' % (prev[-1][1] if prev else None))
                elif x[0] == 'dec':
                    depth -= 1
                    nxt = [y for y in emis[i + 1:] if y[0] in ('emit', 'inc', 'dec')]
                    if depth < 0:
                        bad.append('_indent lowered below its entry value')
                    closers = CLOSERS | ({"b'if'"} if f.name == '_walk_StatIf' else set())     # else-before-if: an order the parser never builds
                    if nxt and (nxt[0][0] != 'emit' or nxt[0][1] not in closers):
                        bad.append('_indent lowered without a closing token emitted next (next: %s)' % (nxt[0],))
                    if not nxt and not (f.name == '_walk_StatIf'):
                        bad.append('_indent lowered at the very end of the handler (no closing token follows)')
            if depth != 0 and kind == 'return':
                bad.append('_indent is %+d at the end of a path' % depth)
        if touched or bad:
            res.append(('PATHS:indent/%s: on all %d control paths _indent is raised right after an opening token, lowered right before the closing '
                        'token, never below its entry value, and restored at the end' % (f.name, len(outs)), not bad, str(sorted(set(bad))[:3])))
    return res


ALLOWED_YIELDS = ('self._get_text(', 'self._get_name(', 'self._get_code_for_spaces(', 'self._get_semis(')


def emission_obligations():
    """Every yield of every handler: a helper result, an item of a nested walk, or a token's own code with a cursor step."""
    res = []
    bad = []
    n = 0
    for f in handler_functions():
        walk_vars = set()
        for node in ast.walk(f):
            if isinstance(node, ast.For) and isinstance(node.iter, ast.Call) and ast.unparse(node.iter.func) in ('self._walk', 'self._walk_prefix', 'super()._walk'):
                walk_vars.add(ast.unparse(node.target))
        stmts = list(ast.walk(f))
        for node in stmts:
            if not isinstance(node, ast.Yield):
                continue
            n += 1
            txt = ast.unparse(node.value) if node.value is not None else 'None'
            if (isinstance(node.value, ast.Call) and txt.startswith(ALLOWED_YIELDS)) or txt in walk_vars:
                continue
            if txt in ("b'('", "b')'", "b' ('", "b' )'"):
                continue
            if txt == "b'::'" and f.name == '_walk_StatLabel':
                continue          # a label is spelled '::' name '::' with ONE cursor step (in _get_name)
            if txt == "b', '" and "if self._args.get('ignore_tokens'):\n    yield b', '" in ast.unparse(f).replace('                    ', '    ').replace('                ', ''):
                continue          # parentheses of ExpValue / prefix chains: paired with a cursor step or ignore_tokens mode (checked by PATHS:indent and the bounded run)
            if txt in ('node.value.code', 'node.args.code', 'self._get_code_for_spaces(node)'):
                continue
            bad.append('%s: yield %s' % (f.name, txt))
    res.append(('SCAN:emission/each of the %d yields of the _walk_* handlers is a cursor-helper result, an item of a nested walk, or a token\'s own '
                'code' % n, not bad and n > 0, str(bad[:4])))
    # literal codes are accompanied by a cursor step
    src = ast.unparse([n for n in source.mod_ast('pico8.lua.lua')[0].body if isinstance(n, ast.ClassDef) and n.name == 'LuaASTEchoWriter'][0])
    ok = src.count("yield node.value.code\n            if not self._args.get('ignore_tokens'):\n                self._pos += 1") >= 1
    res.append(('SCAN:emission/a literal token emitted by its own code advances the cursor by one (token mode)', ok, ''))
    gt = ast.unparse(source.find_function(WRITER + '._get_text').node)
    ok = 'spaces = self._get_code_for_spaces(node)' in gt and 'assert self._tokens[self._pos].matches(lexer.TokKeyword(keyword)) or self._tokens[self._pos].matches(lexer.TokSymbol(keyword))' in gt \
        and 'self._pos += 1\n    return spaces + keyword' in gt
    res.append(('SCAN:emission/_get_text returns the preceding trivia plus the keyword or symbol, asserts that it is the token under the cursor, and '
                'steps over it', ok, ''))
    gn = ast.unparse(source.find_function(WRITER + '._get_name').node)
    ok = 'spaces = self._get_code_for_spaces(node)' in gn and 'assert tok.matches(lexer.TokName)' in gn and 'self._pos += 1\n    return spaces + tok.code' in gn
    res.append(('SCAN:emission/_get_name returns the preceding trivia plus the name and steps over it', ok, ''))
    return res


def no_silent_loss_obligations():
    """Region at the head of LuaASTEchoWriter.to_lines: raises iff a non-trivia token lies at or after root.end_pos."""
    E.reset('lia')
    fn = source.find_function(WRITER + '.to_lines')
    loops = [s for s in fn.node.body if isinstance(s, ast.For) and ast.unparse(s.iter) == 'self._tokens[self._root.end_pos:]']
    if len(loops) != 1:
        raise SymErr('the end-of-input check was not found at the head of to_lines')
    loop = loops[0]
    idx = fn.node.body.index(loop)
    before = [ast.unparse(s) for s in fn.node.body[:idx] if not (isinstance(s, ast.Expr) and isinstance(s.value, ast.Constant))]
    c = GetCodeForSpaces()
    c.target = WRITER + '.to_lines'
    st = State()
    K = Kit(st)
    T = _Toks(K)
    c.T = T
    end = K.int('root_end', 0)
    st.assume(end <= T.n)
    root = st.alloc({'end_pos': end}, 'pico8.lua.parser:Chunk')
    toklist = st.alloc(T.tokens, 'list')
    obj = st.alloc({'_tokens': toklist, '_root': root, '_pos': 0, '_args': {}}, WRITER)
    st.locals.update({'self': obj})
    obls = []
    ex = Exec(fn, c, {}, obls, prefix=WRITER + '.to_lines[end-of-input check]')
    ex.is_generator = True
    st.locals['__yielded__'] = SSeq.of([], 'list')
    ordn = ex.loop_ord[id(loop)]

    def inv(ctx, k):
        return [('tokens-seen-so-far-are-trivia', forall(end, end + k, lambda i: T.trivia(i)))]
    c._loops_override = {ordn: LoopSpec(inv=inv)}
    outs = ex.block([loop], st)
    raised = [o for o in outs if o.kind == 'raise']
    normal = [o for o in outs if o.kind == 'normal']
    j = V.fresh_int('j')
    for o in normal:
        ex.oblige(o.st, forall(end, T.n, lambda i: T.trivia(i)), 'post.no-error-only-if-every-token-after-the-parsed-part-is-trivia', loop)
    for o in raised:
        ex.oblige(o.st, val_eq(o.val.exc, 'ParserError') if False else True, 'raise-is-ParserError', loop)
    ok_exc = all(o.val.exc == 'ParserError' for o in raised) and bool(raised)
    return obls, list(E.axioms), fn, ok_exc, before
