"""C09 / C10: structural contracts of the tree-driven Lua writers (LuaASTEchoWriter and its subclasses).

  * cursor helper  _get_code_for_spaces(node)  (base class): consumes exactly the maximal run of trivia tokens at the
    cursor (bounded by the node's end, or by the end of the token list) and returns the concatenation of their codes;
  * no silent loss: the region at the head of to_lines raises ParserError iff a non-trivia token lies at or after the
    position where the parser stopped (root.end_pos);
  * emission discipline (all control paths of every _walk_* handler): text is emitted only through the cursor helpers, or
    is a token's own code accompanied by a cursor step;
  * indentation bookkeeping (all control paths of every _walk_* handler): `_indent` is raised by one right after an
    opening token is emitted, lowered by one right before the matching closing token, never negative, and is back at its
    entry value when the handler finishes.
"""
import ast
import z3

from pyvc.contract import Contract, Kit
from pyvc.loops import LoopSpec
from pyvc import values as V, source, effects
from pyvc.values import E, SInt, SBool, SSeq, SOpt, Ref, SymErr, AND, OR, NOT, implies, ite, val_eq, seq_eq, toint, tobool, forall
from pyvc.execu import Exec, State, BuiltinVal, ClassVal, RaisedValue, OpaqueStr

WRITER = 'pico8.lua.lua:LuaASTEchoWriter'
OPENERS = {"b'do'", "b'then'", "b'else'", "b'repeat'", "b'('", "b'{'", "b'['", "b')'"}       # ')' : end of a parameter list, the body opens
CLOSERS = {"b'end'", "b'until'", "b')'", "b'}'", "b']'", "b'elseif'", "b'else'", "b','", "b';'",
           'self._tokens[self._pos].code'}        # the trailing field separator of a table constructor (a ',' or ';' by the test before it)


# Token model shared by the cursor-helper contracts: the token list is the identity list (token i IS the integer i), tokens
# are classified by uninterpreted predicates, the code of token i is the opaque byte 256 + i (so it never collides with a
# literal byte), a keyword / symbol pattern is an uninterpreted function of its (one opaque byte of) text and `matches`
# is an uninterpreted relation.
_I, _B = z3.IntSort(), z3.BoolSort()
SP, NL, CM = z3.Function('is_space', _I, _B), z3.Function('is_newline', _I, _B), z3.Function('is_comment', _I, _B)
KWPAT, SYMPAT = z3.Function('keyword_pattern', _I, _I), z3.Function('symbol_pattern', _I, _I)
MATCH = z3.Function('token_matches', _I, _I, _B)
NAMECLS = -7         # the class object lexer.TokName used as a pattern
SEMI = 59            # b';'


def trivia(i):
    t = toint(i)
    return OR(SBool(SP(t)), SBool(NL(t)), SBool(CM(t)))


def is_semi(i):
    return SBool(MATCH(toint(i), SYMPAT(z3.IntVal(SEMI))))


def code(i):
    return i + 256


def _text_code(v, st):
    """the one opaque byte standing for a keyword / symbol text"""
    if isinstance(v, bytes):
        if len(v) != 1:
            raise SymErr('multi-byte literal pattern')
        return v[0]
    return st.seq(v).get(0)


class _CursorHelper(Contract):
    """Common part: symbolic writer object, views of cursor / bound in a state, modelling hooks."""
    mode = 'lia'
    property_ids = ('C09',)

    def setup(self, K):
        n = K.int('ntokens', 0)
        pos = K.int('pos', 0)
        K.st.assume(pos <= n)
        end = K.int('node_end', 0)
        toklist = K.st.alloc(SSeq(n, lambda i: i if isinstance(i, int) else SInt(toint(i)), 'list'), 'list')
        obj = K.obj(WRITER, _tokens=toklist, _pos=pos, _args={}, _indent=K.int('indent', 0))
        node = SOpt(K.bool('node.isnone'), K.obj('pico8.lua.parser:Node', end_pos=end, _end_token_pos=end))
        a = {'self': obj, 'node': node}
        self.pos0, self.n, self.b = pos, n, self.bound_of(K, a)        # for the loop invariants of the function's own proof
        return a

    # ---- views
    @staticmethod
    def n_of(K, a):
        return K.st.seq(K.field(a['self'], '_tokens')).n

    @staticmethod
    def pos_of(K, a):
        return K.field(a['self'], '_pos')

    @staticmethod
    def bound_of(K, a):
        node = SOpt.of(a['node'])
        n = _CursorHelper.n_of(K, a)
        if node.isnone is True:
            return n
        end = K.field(node.val, 'end_pos')
        return end if node.isnone is False else ite(node.isnone, n, end)

    def requires(self, K, a):
        node = SOpt.of(a['node'])
        wf = AND(self.pos_of(K, a) >= 0, self.pos_of(K, a) <= self.n_of(K, a))
        if node.isnone is True:
            return wf
        end = K.field(node.val, 'end_pos')
        return AND(wf, implies(NOT(node.isnone), AND(end <= self.n_of(K, a), end >= 0)))

    def modifies(self, K, a):
        return [a['self']]

    def havoc_record(self, K, a, ref, cur):
        return {'_pos': SInt(V.ivar(E.fresh('pos_after')))}

    def frame_clause(self, K, a, old):
        now, was = K.st.heap[a['self'].id], old.st.heap[a['self'].id]
        return ('only-the-cursor-field-of-the-writer-changes', set(now) == set(was) and all(now[f] is was[f] for f in was if f != '_pos'))

    @staticmethod
    def first_non_trivia(K, a, p):
        """p is where _get_code_for_spaces stops when started at the cursor"""
        pos0, b = _CursorHelper.pos_of(K, a), _CursorHelper.bound_of(K, a)
        return AND(p >= pos0, OR(p <= b, val_eq(p, pos0)), forall(pos0, p, lambda i: trivia(i)), OR(p >= b, NOT(trivia(p))))

    # ---- modelling hooks
    def call_hook(self, ex, node, f, args, kw, st):
        if isinstance(f, BuiltinVal) and f.name == 'isinstance' and len(args) == 2:
            classes = args[1] if isinstance(args[1], tuple) else (args[1],)
            fns = [{'TokSpace': SP, 'TokNewline': NL, 'TokComment': CM}.get(c.qual.split(':')[1]) if isinstance(c, ClassVal) else None for c in classes]
            if not fns or any(fn is None for fn in fns):
                return NotImplemented
            return OR(*[SBool(fn(toint(args[0]))) for fn in fns])
        if isinstance(f, ClassVal) and f.qual.split(':')[1] in ('TokKeyword', 'TokSymbol') and len(args) == 1:
            fn = KWPAT if f.qual.endswith('TokKeyword') else SYMPAT
            return SInt(fn(toint(_text_code(args[0], st))))
        return NotImplemented

    method_model_first = True

    def method_model(self, ex, recv, name, A, kw, st, node):
        if name == 'matches' and isinstance(recv, (int, SInt)) and len(A) == 1:
            pat = A[0]
            if isinstance(pat, ClassVal):
                if not pat.qual.endswith(':TokName'):
                    return NotImplemented
                pat = NAMECLS
            return SBool(MATCH(toint(recv), toint(pat)))
        return NotImplemented

    def join_model(self, ex, sq, st, kind):
        # b''.join(list of codes) is the list itself (every code is one opaque byte)
        return SSeq(sq.n, sq.get, 'bytes')

    def attr_model(self, base, attr):
        if attr == 'code' and isinstance(base, (int, SInt)):
            return code(base)
        return NotImplemented


class GetCodeForSpaces(_CursorHelper):
    target = WRITER + '._get_code_for_spaces'
    abstract_result = True

    def result(self, K, a):
        return V.int_seq('spaces', kind='bytes')

    def ensures(self, K, a, old, res):
        if not res.returned:
            return [('no-exception', False)]
        pos0, pos1 = self.pos_of(old, a), self.pos_of(K, a)
        out = K.seq(res.value)
        return [('cursor-stops-at-the-first-non-trivia-token-or-the-bound', self.first_non_trivia(old, a, pos1)),
                ('returns-exactly-the-codes-of-the-consumed-tokens',
                 AND(val_eq(out.n, pos1 - pos0), forall(0, out.n, lambda k: val_eq(out.get(k), code(pos0 + k))))),
                self.frame_clause(K, a, old)]

    _loops_override = None

    @property
    def loops(self):
        if self._loops_override is not None:
            return self._loops_override
        me = self

        def inv(ctx, k):
            pos = ctx.get('self._pos')
            strs = ctx['strs']
            return [('consumed-run-is-trivia', AND(pos >= me.pos0, pos <= me.n, OR(pos <= me.b, val_eq(pos, me.pos0)),
                                                   forall(me.pos0, pos, lambda i: trivia(i)))),
                    ('collected-codes', AND(val_eq(strs.n, pos - me.pos0), forall(0, strs.n, lambda j: val_eq(strs.get(j), code(me.pos0 + j)))))]
        return {1: LoopSpec(inv=inv, modifies=['self', 'strs'], variant=lambda ctx: me.n - ctx.get('self._pos'),
                            shapes={'strs': lambda: V.int_seq('strs', kind='list')})}


class GetText(_CursorHelper):
    """_get_text(node, keyword): the trivia before the keyword, then the keyword; the cursor ends one past the token that
    matched.  Precondition (from the call sites: a handler asks for the keyword its node was parsed with): the first
    non-trivia token at the cursor exists and matches the keyword or symbol pattern -- the function itself asserts it."""
    target = WRITER + '._get_text'

    def setup(self, K):
        a = super().setup(K)
        kw = K.int('keyword', 0, 255)
        a['keyword'] = SSeq(1, lambda i: kw, 'bytes')
        self.p = K.int('p', 0)                 # ghost: position of the first non-trivia token
        return a

    def requires(self, K, a):
        p, kw = self.p, toint(K.st.seq(a['keyword']).get(0))
        return AND(super().requires(K, a), self.first_non_trivia(K, a, p), p < self.n_of(K, a),
                   OR(SBool(MATCH(toint(p), KWPAT(kw))), SBool(MATCH(toint(p), SYMPAT(kw)))))

    def ensures(self, K, a, old, res):
        if not res.returned:
            return [('no-exception', False)]
        pos0, pos1, p = self.pos_of(old, a), self.pos_of(K, a), self.p
        out = K.seq(res.value)
        return [('cursor-ends-one-past-the-matched-token', val_eq(pos1, p + 1)),
                ('returns-the-trivia-then-the-keyword',
                 AND(val_eq(out.n, p - pos0 + 1), forall(0, p - pos0, lambda k: val_eq(out.get(k), code(pos0 + k))),
                     val_eq(out.get(p - pos0), K.st.seq(a['keyword']).get(0)))),
                self.frame_clause(K, a, old)]


class GetName(_CursorHelper):
    """_get_name(node, tok): the trivia before the name, then the code of the name token handed in; the cursor ends one
    past the first non-trivia token.  (The function does not compare `tok` with the token under the cursor: that the two
    are the same token is the parser's node/token correspondence, decided by the C08 obligations and the bounded run.)"""
    target = WRITER + '._get_name'

    def setup(self, K):
        a = super().setup(K)
        a['tok'] = K.int('tok', 0)
        self.p = K.int('p', 0)
        return a

    def requires(self, K, a):
        return AND(super().requires(K, a), self.first_non_trivia(K, a, self.p), SBool(MATCH(toint(a['tok']), z3.IntVal(NAMECLS))))

    def attr_model(self, base, attr):
        if attr == 'code' and isinstance(base, (int, SInt)):
            c = code(base)
            return SSeq(1, lambda i: c, 'bytes')
        return NotImplemented

    def ensures(self, K, a, old, res):
        if not res.returned:
            return [('no-exception', False)]
        pos0, pos1, p = self.pos_of(old, a), self.pos_of(K, a), self.p
        out = K.seq(res.value)
        return [('cursor-ends-one-past-the-first-non-trivia-token', val_eq(pos1, p + 1)),
                ('returns-the-trivia-then-the-code-of-the-name-token',
                 AND(val_eq(out.n, p - pos0 + 1), forall(0, p - pos0, lambda k: val_eq(out.get(k), code(pos0 + k))),
                     val_eq(out.get(p - pos0), code(a['tok'])))),
                self.frame_clause(K, a, old)]


class GetSemis(_CursorHelper):
    """_get_semis(node): consumes the maximal run of trivia (up to the node's end) and ';' tokens at the cursor and returns
    their codes in order, a ';' token as the byte ';'.  The list of byte strings that is only appended to and finally
    joined is represented by its concatenation (join(l + [x]) = join(l) + x)."""
    target = WRITER + '._get_semis'

    def requires(self, K, a):
        n = self.n_of(K, a)
        return AND(super().requires(K, a), forall(0, n, lambda i: NOT(AND(trivia(i), is_semi(i)))))     # Token.matches compares classes

    def method_model(self, ex, recv, name, A, kw, st, node):
        if name == 'append' and isinstance(recv, Ref) and len(A) == 1 and isinstance(A[0], (SSeq, bytes)):
            cur = st.heap[recv.id]
            st.write_cell(recv, (cur + st.seq(A[0])).with_kind('list'))
            return None
        return super().method_model(ex, recv, name, A, kw, st, node)

    def _run(self, pos0, pos, out):
        return AND(pos >= pos0, pos <= self.n, forall(pos0, pos, lambda i: OR(trivia(i), is_semi(i))),
                   val_eq(out.n, pos - pos0),
                   forall(0, out.n, lambda k: val_eq(out.get(k), ite(is_semi(pos0 + k), SEMI, code(pos0 + k)))))

    def ensures(self, K, a, old, res):
        if not res.returned:
            return [('no-exception', False)]
        pos0, pos1, b, n = self.pos_of(old, a), self.pos_of(K, a), self.bound_of(old, a), self.n_of(old, a)
        out = K.seq(res.value)
        return [('consumes-a-run-of-trivia-and-semicolons-and-returns-their-codes-in-order', self._run(pos0, pos1, out)),
                ('the-run-is-maximal', AND(OR(pos1 >= b, NOT(trivia(pos1))), OR(pos1 >= n, NOT(is_semi(pos1))))),
                self.frame_clause(K, a, old)]

    @property
    def loops(self):
        me = self

        def inv(ctx, k):
            return [('consumed-run', me._run(me.pos0, ctx.get('self._pos'), ctx['spaces_and_semis']))]
        return {1: LoopSpec(inv=inv, modifies=['self', 'spaces_and_semis'], variant=lambda ctx: me.n - ctx.get('self._pos'),
                            shapes={'spaces_and_semis': lambda: V.int_seq('spaces_and_semis', kind='list')})}


class FmtGetCodeForSpaces(GetCodeForSpaces):
    """LuaFormatterWriter._get_code_for_spaces: the cursor moves exactly as in the base class (the formatter rewrites the text
    of the trivia run, never its extent).  The text is the result of the regular-expression pipeline, opaque here (C10's
    scans and bounded enumeration are about it)."""
    target = 'pico8.lua.lua:LuaFormatterWriter._get_code_for_spaces'
    property_ids = ('C09', 'C10')

    def setup(self, K):
        a = super().setup(K)
        rec = K.st.heap[a['self'].id]
        rec['_indent_mult'] = K.int('indent_mult', 0)
        return a

    def call_hook(self, ex, node, f, args, kw, st):
        if getattr(f, 'qual', getattr(f, 'name', None)) in ('re:sub', 're.sub') and len(args) == 3:
            return V.int_seq('resub', kind='bytes')        # some byte string
        return super().call_hook(ex, node, f, args, kw, st)

    def ensures(self, K, a, old, res):
        if not res.returned:
            return [('no-exception', False)]
        pos1 = self.pos_of(K, a)
        return [('cursor-stops-at-the-first-non-trivia-token-or-the-bound', self.first_non_trivia(old, a, pos1)),
                self.frame_clause(K, a, old)]


CONTRACTS = [GetCodeForSpaces(), GetText(), GetName(), GetSemis(), FmtGetCodeForSpaces()]


# ------------------------------------------------------------------------------------------------ path-based obligations

def handler_functions():
    cls = [n for n in source.mod_ast('pico8.lua.lua')[0].body if isinstance(n, ast.ClassDef) and n.name == 'LuaASTEchoWriter'][0]
    return [f for f in cls.body if isinstance(f, ast.FunctionDef) and f.name.startswith('_walk_')]


from pyvc.effects import consistent


def indent_obligations():
    """[(name, ok, detail)] per handler."""
    res = []
    for f in handler_functions():
        try:
            outs = effects.Paths(may_raise=lambda c: False, dataflow=True, max_iter=2, limit=400000).function(f)
        except (NotImplementedError, effects.TooManyPaths) as e:
            res.append(('PATHS:indent/%s' % f.name, None, repr(e)))
            continue
        bad = []
        touched = False
        for kind, t in outs:
            if not consistent(t):
                continue
            depth = 0
            emis = []          # sequence of ('emit', text) and ('inc',) / ('dec',)
            for e in t:
                if e[0] == 'assign' and ast.unparse(e[1]) == 'self._indent':
                    v = ast.unparse(e[2])
                    if v == 'self._indent + 1':
                        emis.append(('inc',))
                    elif v == 'self._indent - 1':
                        emis.append(('dec',))
                    else:
                        bad.append('unexpected update of _indent: %s' % v)
                elif e[0] == 'call' and e[1] == 'self._get_text' and len(e[2]) >= 2:
                    emis.append(('emit', e[2][1]))
                elif e[0] == 'yield' and isinstance(e[1], ast.Constant) and isinstance(e[1].value, bytes):
                    emis.append(('emit', repr(e[1].value).replace('"', "'")))
                elif e[0] == 'call' and e[1] in ('self._walk', 'self._walk_prefix', 'self._get_name', 'self._get_code_for_spaces', 'self._get_semis'):
                    emis.append(('other',))
            for i, x in enumerate(emis):
                if x[0] == 'inc':
                    touched = True
                    depth += 1
                    prev = [y for y in emis[:i] if y[0] == 'emit']
                    if not prev or prev[-1][1] not in OPENERS or emis[i - 1][0] != 'emit':
                        bad.append('_indent raised without an opening token emitted just before (last emitted: %s)' % (prev[-1][1] if prev else None))
                elif x[0] == 'dec':
                    depth -= 1
                    nxt = [y for y in emis[i + 1:] if y[0] in ('emit', 'inc', 'dec')]
                    if depth < 0:
                        bad.append('_indent lowered below its entry value')
                    closers = CLOSERS | ({"b'if'"} if f.name == '_walk_StatIf' else set())     # else-before-if: an order the parser never builds
                    if nxt and (nxt[0][0] != 'emit' or nxt[0][1] not in closers):
                        bad.append('_indent lowered without a closing token emitted next (next: %s)' % (nxt[0],))
                    if not nxt and not (f.name == '_walk_StatIf'):
                        bad.append('_indent lowered at the very end of the handler (no closing token follows)')
            if depth != 0 and kind == 'return':
                bad.append('_indent is %+d at the end of a path' % depth)
        if touched or bad:
            res.append(('PATHS:indent/%s: on all %d control paths _indent is raised right after an opening token, lowered right before the closing '
                        'token, never below its entry value, and restored at the end' % (f.name, len(outs)), not bad, str(sorted(set(bad))[:3])))
    return res


ALLOWED_YIELDS = ('self._get_text(', 'self._get_name(', 'self._get_code_for_spaces(', 'self._get_semis(')


def emission_obligations():
    """Every yield of every handler: a helper result, an item of a nested walk, or a token's own code with a cursor step."""
    res = []
    bad = []
    n = 0
    for f in handler_functions():
        walk_vars = set()
        for node in ast.walk(f):
            if isinstance(node, ast.For) and isinstance(node.iter, ast.Call) and ast.unparse(node.iter.func) in ('self._walk', 'self._walk_prefix', 'super()._walk'):
                walk_vars.add(ast.unparse(node.target))
        stmts = list(ast.walk(f))
        for node in stmts:
            if not isinstance(node, ast.Yield):
                continue
            n += 1
            txt = ast.unparse(node.value) if node.value is not None else 'None'
            if (isinstance(node.value, ast.Call) and txt.startswith(ALLOWED_YIELDS)) or txt in walk_vars:
                continue
            if txt in ("b'('", "b')'", "b' ('", "b' )'"):
                continue
            if txt == "b'::'" and f.name == '_walk_StatLabel':
                continue          # a label is spelled '::' name '::' with ONE cursor step (in _get_name)
            if txt == "b', '" and "if self._args.get('ignore_tokens'):\n    yield b', '" in ast.unparse(f).replace('                    ', '    ').replace('                ', ''):
                continue          # parentheses of ExpValue / prefix chains: paired with a cursor step or ignore_tokens mode (checked by PATHS:indent and the bounded run)
            if txt in ('node.value.code', 'node.args.code', 'self._get_code_for_spaces(node)'):
                continue
            bad.append('%s: yield %s' % (f.name, txt))
    res.append(('SCAN:emission/each of the %d yields of the _walk_* handlers is a cursor-helper result, an item of a nested walk, or a token\'s own '
                'code' % n, not bad and n > 0, str(bad[:4])))
    # literal codes are accompanied by a cursor step
    src = ast.unparse([n for n in source.mod_ast('pico8.lua.lua')[0].body if isinstance(n, ast.ClassDef) and n.name == 'LuaASTEchoWriter'][0])
    ok = src.count("yield node.value.code\n            if not self._args.get('ignore_tokens'):\n                self._pos += 1") >= 1
    res.append(('SCAN:emission/a literal token emitted by its own code advances the cursor by one (token mode)', ok, ''))
    gt = ast.unparse(source.find_function(WRITER + '._get_text').node)
    ok = 'spaces = self._get_code_for_spaces(node)' in gt and 'assert self._tokens[self._pos].matches(lexer.TokKeyword(keyword)) or self._tokens[self._pos].matches(lexer.TokSymbol(keyword))' in gt \
        and 'self._pos += 1\n    return spaces + keyword' in gt
    res.append(('SCAN:emission/_get_text returns the preceding trivia plus the keyword or symbol, asserts that it is the token under the cursor, and '
                'steps over it', ok, ''))
    gn = ast.unparse(source.find_function(WRITER + '._get_name').node)
    ok = 'spaces = self._get_code_for_spaces(node)' in gn and 'assert tok.matches(lexer.TokName)' in gn and 'self._pos += 1\n    return spaces + tok.code' in gn
    res.append(('SCAN:emission/_get_name returns the preceding trivia plus the name and steps over it', ok, ''))
    return res


def no_silent_loss_obligations():
    """Region at the head of LuaASTEchoWriter.to_lines: raises iff a non-trivia token lies at or after root.end_pos."""
    E.reset('lia')
    fn = source.find_function(WRITER + '.to_lines')
    loops = [s for s in fn.node.body if isinstance(s, ast.For) and ast.unparse(s.iter) == 'self._tokens[self._root.end_pos:]']
    if len(loops) != 1:
        raise SymErr('the end-of-input check was not found at the head of to_lines')
    loop = loops[0]
    idx = fn.node.body.index(loop)
    before = [ast.unparse(s) for s in fn.node.body[:idx] if not (isinstance(s, ast.Expr) and isinstance(s.value, ast.Constant))]
    c = GetCodeForSpaces()
    c.target = WRITER + '.to_lines'
    st = State()
    K = Kit(st)
    ntok = K.int('ntokens', 0)
    end = K.int('root_end', 0)
    st.assume(end <= ntok)
    root = st.alloc({'end_pos': end}, 'pico8.lua.parser:Chunk')
    toklist = st.alloc(SSeq(ntok, lambda i: i if isinstance(i, int) else SInt(toint(i)), 'list'), 'list')
    obj = st.alloc({'_tokens': toklist, '_root': root, '_pos': 0, '_args': {}}, WRITER)
    st.locals.update({'self': obj})
    obls = []
    ex = Exec(fn, c, {}, obls, prefix=WRITER + '.to_lines[end-of-input check]')
    ex.is_generator = True
    st.locals['__yielded__'] = SSeq.of([], 'list')
    ordn = ex.loop_ord[id(loop)]

    def inv(ctx, k):
        return [('tokens-seen-so-far-are-trivia', forall(end, end + k, lambda i: trivia(i)))]
    c._loops_override = {ordn: LoopSpec(inv=inv)}
    outs = ex.block([loop], st)
    raised = [o for o in outs if o.kind == 'raise']
    normal = [o for o in outs if o.kind == 'normal']
    j = V.fresh_int('j')
    for o in normal:
        ex.oblige(o.st, forall(end, ntok, lambda i: trivia(i)), 'post.no-error-only-if-every-token-after-the-parsed-part-is-trivia', loop)
    for o in raised:
        ex.oblige(o.st, val_eq(o.val.exc, 'ParserError') if False else True, 'raise-is-ParserError', loop)
    ok_exc = all(o.val.exc == 'ParserError' for o in raised) and bool(raised)
    return obls, list(E.axioms), fn, ok_exc, before
