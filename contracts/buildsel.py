"""C13: build takes each cart section from exactly the source the arguments name.

do_build is executed symbolically (six-section loop unrolled exactly, state merging at joins).  `args` is a record of
optional fields; file names are abstract values with uninterpreted predicates exists(.), endswith_X(.); a cart loaded
with file.from_file(f) is a fresh Game whose section X has the abstract value SEC(f, X) (its label LABEL(f)); the empty
game has EMPTY(X).  The obligations are evaluated at the (only) call of file.to_file: for each section the value stored in
`result` is the one the statement prescribes.  Paths that return 1 (or raise) never reach file.to_file."""
import z3

from pyvc.contract import Contract
from pyvc import values as V
from pyvc.values import E, SInt, SBool, SOpt, Ref, SymErr, AND, OR, NOT, implies, ite, val_eq, toint, tobool
from pyvc.execu import BoundMethod, FuncVal, ExternVal, OpaqueStr, SeqMethod, RaisedValue, ClassVal, Outcome

BUILD = 'pico8.build.build'
SECTIONS = ('lua', 'gfx', 'gff', 'map', 'sfx', 'music')


class DoBuild(Contract):
    target = BUILD + ':do_build'
    mode = 'lia'
    property_ids = ('C13',)
    raises_in_ensures = ('LuaBuildError', 'NotImplementedError')
    ignore_calls = ('pico8.util:error', 'pico8.util:write', 'pico8.util:debug', BUILD + ':_remove_global_return')

    def setup(self, K):
        I, B = z3.IntSort(), z3.BoolSort()
        self.EXISTS = z3.Function('exists', I, B)
        self.ENDS = {}
        self.SEC = z3.Function('section_of_cart', I, I, I)          # (file, section index) -> section value
        self.LABEL = z3.Function('label_of_cart', I, I)
        self.EMPTY = z3.Function('empty_section', I, I)
        self.BUILT = z3.Function('built_lua', I, I)                   # --lua main.lua: the code built from that file (C14)
        self.calls = []           # snapshots at file.to_file
        self._nondet = {}
        self.writes = 0
        fields = {'filename': K.int('OUT')}
        for s in SECTIONS:
            fields[s] = K.opt('arg_%s.none' % s, K.int('src_' + s))
            fields['empty_' + s] = K.bool('empty_' + s)
        fields.update({'lua_format': K.bool('lua_format'), 'lua_minify': K.bool('lua_minify'), 'lua_path': K.opt('lua_path.none', K.int('lua_path')),
                       'optimize_tokens': False, 'indentwidth': K.int('indentwidth'), 'keep_all_names': K.bool('keep_all_names'),
                       'keep_names_from_file': K.opt('knf.none', K.int('knf'))})
        self.args = K.obj('argparse:Namespace', **fields)
        self.fields = fields
        return {'args': self.args}

    def ends(self, suffix):
        if suffix not in self.ENDS:
            self.ENDS[suffix] = z3.Function('endswith_' + suffix.replace('.', '_'), z3.IntSort(), z3.BoolSort())
            if len(self.ENDS) > 1 and '.p8.png' in self.ENDS and '.p8' in self.ENDS:
                pass
        return self.ENDS[suffix]

    def requires(self, K, a):
        # a name ending in .p8.png does not end in .p8 or .lua, etc. (facts about string suffixes)
        x = z3.Int(E.fresh('f'))
        p8, png, lua_ = self.ends('.p8'), self.ends('.p8.png'), self.ends('.lua')
        E.axioms.append(z3.ForAll([x], z3.And(z3.Not(z3.And(p8(x), png(x))), z3.Not(z3.And(p8(x), lua_(x))), z3.Not(z3.And(png(x), lua_(x))))))
        return True

    # ---- what the statement prescribes -----------------------------------------------------------------------
    def expected(self, K, sec):
        i = SECTIONS.index(sec)
        f = self.fields
        out = toint(f['filename'])
        prev = z3.If(self.EXISTS(out), self.SEC(out, i), self.EMPTY(i))
        src = f[sec]
        given = NOT(src.isnone)
        from_cart = SInt(self.SEC(toint(src.val), i))
        if sec == 'lua':
            from_cart = ite(SBool(self.ends('.lua')(toint(src.val))), SInt(self.BUILT(toint(src.val))), from_cart)
        return ite(given, from_cart, ite(f['empty_' + sec], SInt(self.EMPTY(i)), SInt(prev)))

    def arguments_usable(self):
        f = self.fields
        out = toint(f['filename'])
        ok = OR(SBool(self.ends('.p8')(out)), SBool(self.ends('.p8.png')(out)))
        for sec in SECTIONS:
            src = f[sec]
            fn = toint(src.val)
            good_ext = OR(SBool(self.ends('.p8')(fn)), SBool(self.ends('.p8.png')(fn)))
            if sec == 'lua':
                good_ext = OR(good_ext, SBool(self.ends('.lua')(fn)))
            ok = AND(ok, implies(NOT(src.isnone), AND(NOT(f['empty_' + sec]), SBool(self.EXISTS(fn)), good_ext)))
        return ok

    def ensures(self, K, a, old, res):
        out = []
        usable = self.arguments_usable()
        wrote = getattr(K.st, 'c13_wrote', None)
        nwrites = len([1 for t in K.st.trace if t[0] == 'to_file'])
        if res.returned:
            r = res.value
            out.append(('returns-0-exactly-when-the-cart-was-written', val_eq(r, 0) if nwrites == 1 else val_eq(r, 1)))
            out.append(('unusable-arguments-fail-without-writing', implies(NOT(usable), nwrites == 0)))
            out.append(('usable-arguments-write-the-cart-once', implies(usable, nwrites == 1)))
        else:
            out.append(('an-exception-leaves-OUT-untouched', nwrites == 0))
        out.append(('at-most-one-write', nwrites <= 1))
        return out

    # ---- modelling hooks ---------------------------------------------------------------------------------------
    def method_model(self, ex, recv, name, A, kw, st, node):
        if isinstance(recv, SOpt):
            ex.oblige(st, NOT(recv.isnone), 'no-AttributeError(None.%s)' % name, node)
            recv = recv.val
        if name == 'endswith' and len(A) == 1 and isinstance(A[0], str):
            return SBool(self.ends(A[0])(toint(recv)))
        return NotImplemented

    def fresh_game(self, st, f, existing=True):
        rec = {}
        for i, s in enumerate(SECTIONS):
            rec[s] = SInt(self.SEC(toint(f), i)) if existing else SInt(self.EMPTY(i))
        rec['label'] = SInt(self.LABEL(toint(f))) if existing else SInt(self.EMPTY(99))
        return st.alloc(rec, 'pico8.game.game:Game')

    def call_hook(self, ex, node, f, args, kw, st):
        import ast
        txt = ast.unparse(node.func)

        def unwrap(v):
            if isinstance(v, SOpt):
                ex.oblige(st, NOT(v.isnone), 'no-TypeError(None used as a file name)', node)
                return v.val
            return v
        args = [unwrap(x) for x in args]
        if txt == 'os.path.exists':
            return SBool(self.EXISTS(toint(args[0])))
        if txt == 'game.Game.make_empty_game':
            return self.fresh_game(st, None, existing=False)
        if txt == 'file.from_file':
            return self.fresh_game(st, args[0])
        if txt == 'lua.Lua.from_lines':
            return SInt(z3.Int(E.fresh('lua_from_lines')))
        if txt == '_evaluate_require':
            key = ('require_fails', node.lineno, node.col_offset)
            if key not in self._nondet:
                self._nondet[key] = V.fresh_bool('require_fails')
            if ex.decide(self._nondet[key], st):
                return RaisedValue('LuaBuildError')
            return None
        if txt == '_prepend_package_lua':
            # the main file's code with its packages: an abstract value determined by the --lua file (C14)
            return SInt(self.BUILT(toint(unwrap(st.locals['fn']))))
        if txt == 'file.to_file':
            result = args[0]
            rec = st.heap[result.id]
            st.trace = st.trace + [('to_file',)]
            for sec in SECTIONS:
                ex.oblige(st, val_eq(rec[sec], self.expected(None, sec)),
                          'written-cart.%s == named source / empty default / previous section of OUT' % sec, node)
            outf = toint(self.fields['filename'])
            ex.oblige(st, val_eq(rec['label'], SInt(z3.If(self.EXISTS(outf), self.LABEL(outf), self.EMPTY(99)))),
                      'written-cart.label == label of the previous OUT (none/empty default if OUT did not exist)', node)
            ex.oblige(st, val_eq(kw.get('filename'), self.fields['filename']), 'written-to-OUT', node)
            ex.oblige(st, self.arguments_usable(), 'the-cart-is-written-only-with-usable-arguments', node)
            return None
        if txt in ('NotImplementedError',):
            return OpaqueStr()
        return NotImplemented

    def with_model(self, ex, s, st):
        # `with open(fn, 'rb') as infh:` -- reading the --lua source; the handle is an opaque value
        import ast
        it = s.items[0]
        if ast.unparse(it.context_expr.func) != 'open':
            raise SymErr('with on something other than open()')
        mode = ex.ev(it.context_expr.args[1], st) if len(it.context_expr.args) > 1 else 'r'
        if mode not in ('r', 'rb'):
            st.trace = st.trace + [('open-for-writing',)]
            ex.oblige(st, False, 'no file is opened for writing by do_build itself', s)
        if it.optional_vars is not None:
            st.locals[it.optional_vars.id] = SInt(z3.Int(E.fresh('filehandle')))
        return ex.block(s.body, st)


CONTRACTS = [DoBuild()]
