"""C02: MinifyNameFactory -- renaming is a consistent injection that respects reserved names.

Two layers:
  * `_name_for_id(id)` is proved (real recursive body, its own contract as induction hypothesis for the recursive call)
    to return B26(id), the bijective-style base-26 spelling over the REAL `NAME_CHARS`; lemma: B26 is injective
    (induction on the id, step discharged by the solver) and every character of B26(id) is a NAME_CHARS letter.
  * `get_short_name(name)` is proved against a representation invariant of the factory.  Names are abstract values
    (int-coded); `nameof(k)` stands for B26(k) and is injective (by the lemma above); the reserved set and the keep
    set are predicates over names; the name map is a symbolic dict with a ghost array `id` (the id each value was
    generated from).
"""
import z3

from pyvc.contract import Contract
from pyvc.loops import LoopSpec
from pyvc import values as V, source
from pyvc.values import (E, SInt, SBool, SSeq, SOpt, SymMap, Ref, AND, OR, NOT, implies, iff, ite, val_eq, seq_eq, toint, tobool)
from pyvc.execu import BoundMethod, OpaqueStr, SeqMethod

LUA = 'pico8.lua.lua'
FACTORY = LUA + ':MinifyNameFactory'
MAXID = 1 << 30


def name_chars():
    return source.class_info(FACTORY)['attrs']['NAME_CHARS']


# ------------------------------------------------------------------------------------------------ _name_for_id == B26

class B26:
    """B26(id) as (length function, character function) with their defining equations instantiated where needed."""
    def __init__(self):
        I = z3.IntSort()
        self.LEN = z3.Function('b26.len', I, I)
        self.CH = z3.Function('b26.ch', I, I, I)
        self.chars = name_chars()
        self.n = len(self.chars)

    def seq(self, idv):
        t = toint(idv)
        return SSeq(SInt(self.LEN(t)), lambda j: SInt(self.CH(t, toint(j))), 'bytes')

    def letter(self, d):
        """NAME_CHARS[d] for 0 <= d < n (as an ite chain over the real table)."""
        r = self.chars[-1]
        for k in range(self.n - 2, -1, -1):
            r = ite(d == k, self.chars[k], r)
        return r

    def unfold(self, idv):
        """Defining equations of B26 at one (symbolic) id >= 0."""
        t = toint(idv)
        n = self.n
        j = z3.Int(E.fresh('j'))
        q = t / n
        last = toint(self.letter(SInt(t % n)))
        return [z3.Implies(z3.And(t >= 0, t < n), z3.And(self.LEN(t) == 1, self.CH(t, 0) == last)),
                z3.Implies(t >= n, z3.And(self.LEN(t) == self.LEN(q) + 1, self.LEN(q) >= 1,
                                          self.CH(t, self.LEN(q)) == last,
                                          z3.ForAll([j], z3.Implies(z3.And(j >= 0, j < self.LEN(q)), self.CH(t, j) == self.CH(q, j)),
                                                    patterns=[self.CH(t, j)])))]


class NameForId(Contract):
    target = FACTORY + '._name_for_id'
    mode = 'lia'
    property_ids = ('C02',)

    def setup(self, K):
        self.b = B26()
        idv = K.int('id', 0, MAXID - 1)
        for ax in self.b.unfold(idv) + self.b.unfold(idv // self.b.n):
            E.axioms.append(ax)
        cls = K.obj(FACTORY)
        return {'cls': cls, 'id': idv}

    def requires(self, K, a):
        return AND(a['id'] >= 0, a['id'] < MAXID)

    def result(self, K, a):
        return self.b.seq(a['id'])

    def ensures(self, K, a, old, res):
        if not res.returned:
            return [('no-exception', False)]
        want = self.b.seq(a['id'])
        got = K.seq(res.value)
        return [('returns-B26(id).len', val_eq(got.n, want.n)),
                ('returns-B26(id).chars', V.forall(0, want.n, lambda j: val_eq(got.get(j), want.get(j)))),
                ('non-empty', got.n >= 1)]

    def call_hook(self, ex, node, f, args, kw, st):
        # the recursive call: cls._name_for_id(int(id / len)) -- its contract for the smaller id (induction hypothesis)
        if isinstance(f, BoundMethod) and f.qual == self.target:
            k = args[0]
            ex.oblige(st, AND(k >= 0, k < MAXID), 'call:_name_for_id/pre', node)
            ex.oblige(st, k < st.locals['id'], 'recursion-decreases', node)
            return self.b.seq(k)
        return NotImplemented


def injectivity_lemmas():
    """[(name, hyps, goal)] closed obligations about B26 (no code involved): the induction step of injectivity and the
    alphabet lemma.  IH is available for the quotients (strictly smaller ids)."""
    E.reset('lia')
    b = B26()
    a, c = z3.Int('a'), z3.Int('c')
    n = b.n
    j = z3.Int('j')
    eqseq = lambda x, y: z3.And(b.LEN(x) == b.LEN(y), z3.ForAll([j], z3.Implies(z3.And(j >= 0, j < b.LEN(x)), b.CH(x, j) == b.CH(y, j))))
    hyps = [a >= 0, c >= 0] + b.unfold(SInt(a)) + b.unfold(SInt(c)) + [eqseq(a, c)]
    # induction hypothesis for the quotients
    ih = z3.Implies(z3.And(a >= n, c >= n, eqseq(a / n, c / n)), a / n == c / n)
    out = [('lemma.B26-injective/step', hyps + [ih], a == c)]
    # letters: every character of B26(id) is one of the real NAME_CHARS (induction: IH for the quotient)
    k = z3.Int('k')
    isletter = lambda ch: z3.Or(*[ch == x for x in b.chars])
    ih2 = z3.Implies(a >= n, z3.ForAll([j], z3.Implies(z3.And(j >= 0, j < b.LEN(a / n)), isletter(b.CH(a / n, j)))))
    out.append(('lemma.B26-alphabet/step', [a >= 0, k >= 0, k < b.LEN(a)] + b.unfold(SInt(a)) + [ih2], isletter(b.CH(a, k))))
    out.append(('lemma.B26-length-positive', [a >= 0] + b.unfold(SInt(a)) + [z3.Implies(a >= n, b.LEN(a / n) >= 1)], b.LEN(a) >= 1))
    return out, list(E.axioms)


# ------------------------------------------------------------------------------------------------ get_short_name

class Names:
    """The abstract name universe: names are int-coded (they are only compared for equality and tested for set
    membership, so any injective coding is without loss of generality).  The coding puts the generated spellings on the
    odd numbers: nameof(k) = 2k+1 stands for B26(k) -- injective, as B26 is by the lemma -- so an input name may or may
    not coincide with a generated spelling.  Reserved / keep-file membership are predicates over names."""
    def __init__(self):
        I, B = z3.IntSort(), z3.BoolSort()
        self.nameof = lambda k: 2 * k + 1
        self.gid = lambda x: (x - 1) / 2
        self.inP = z3.Function('in_preserved', I, B)
        self.inK = z3.Function('in_keep_file', I, B)


class GetShortName(Contract):
    target = FACTORY + '.get_short_name'
    mode = 'lia'
    property_ids = ('C02',)
    ignore_calls = ('pico8.util:debug',)

    def setup(self, K):
        self.N = Names()
        m = K.st.alloc(SymMap.fresh('name_map', ghosts=['id']), 'dict')
        keep = SOpt(K.bool('keep.isnone'), 'KEEPSET')
        obj = K.obj(FACTORY, _name_map=m, _next_name_id=K.int('next'), _keep_all_names=K.bool('keep_all'),
                    _names_to_keep=keep)
        self.obj, self.m = obj, m
        return {'self': obj, 'name': K.int('name')}

    # --- the representation invariant ---------------------------------------------------------------------------
    def kept(self, K, x):
        """Names the factory returns unchanged."""
        N = self.N
        rec = K.st.heap[self.obj.id]
        kf = NOT(rec['_names_to_keep'].isnone)
        return OR(rec['_keep_all_names'], SBool(N.inP(toint(x))), AND(kf, SBool(N.inK(toint(x)))))

    def inv(self, K):
        N = self.N
        rec = K.st.heap[self.obj.id]
        m = K.st.heap[self.m.id]
        nxt = toint(rec['_next_name_id'])
        kf = tobool(NOT(rec['_names_to_keep'].isnone))
        x, y = z3.Int(E.fresh('x')), z3.Int(E.fresh('y'))
        hx, vx, ix = z3.Select(m.has, x), z3.Select(m.val, x), z3.Select(m.ghost['id'], x)
        body = z3.And(ix >= 0, ix < nxt, vx == N.nameof(ix),
                      z3.Not(N.inP(x)), z3.Not(z3.And(kf, N.inK(x))),
                      z3.Not(N.inP(vx)), z3.Not(z3.And(kf, N.inK(vx))))
        return [('next-id-non-negative', SBool(nxt >= 0)),
                ('entries(value == B26(id), id < next, key and value neither reserved nor kept)',
                 SBool(z3.ForAll([x], z3.Implies(hx, body), patterns=[z3.Select(m.has, x)]))),
                ('ids-distinct', SBool(z3.ForAll([x, y], z3.Implies(z3.And(hx, z3.Select(m.has, y), x != y),
                                                                      ix != z3.Select(m.ghost['id'], y)),
                                                 patterns=[z3.MultiPattern(z3.Select(m.has, x), z3.Select(m.has, y))])))]

    def requires(self, K, a):
        return AND(*[c for _, c in self.inv(K)])

    def cover_hint(self, K, a):
        # the precondition is satisfiable already with an EMPTY map (sat under a stronger constraint => sat)
        m = K.st.heap[self.m.id]
        return SBool(m.has == z3.K(z3.IntSort(), False))

    def modifies(self, K, a):
        return [self.obj, self.m]

    def ensures(self, K, a, old, res):
        if not res.returned:
            return [('no-exception', False)]
        N = self.N
        name = a['name']
        m0, m1 = old.st.heap[self.m.id], K.st.heap[self.m.id]
        out = [('inv.' + nm, cl) for nm, cl in self.inv(K)]
        x = z3.Int(E.fresh('x'))
        out.append(('existing-entries-unchanged (same input, same output for the whole run)',
                    SBool(z3.ForAll([x], z3.Implies(z3.Select(m0.has, x), z3.And(z3.Select(m1.has, x),
                                                                                 z3.Select(m1.val, x) == z3.Select(m0.val, x)))))))
        out.append(('only-this-name-is-added', SBool(z3.ForAll([x], z3.Implies(z3.And(z3.Select(m1.has, x), x != toint(name)),
                                                                              z3.Select(m0.has, x))))))
        kept = self.kept(old, name)
        r = res.value
        out.append(('kept-name-returned-exactly-as-written', implies(kept, val_eq(r, name))))
        out.append(('renamed-name-gets-its-map-entry', implies(NOT(kept), AND(m1.contains(name), val_eq(r, m1.get(name))))))
        out.append(('generated-name-is-not-reserved-or-kept',
                    implies(NOT(kept), AND(NOT(SBool(N.inP(toint(r)))),
                                           NOT(AND(NOT(K.st.heap[self.obj.id]['_names_to_keep'].isnone), SBool(N.inK(toint(r)))))))))
        # the injectivity statement of the property, over the post-state: two different names that are kept or mapped get
        # different outputs (kept/kept, renamed/renamed, and one of each)
        p, q = V.fresh_int('p'), V.fresh_int('q')

        def seen(v):
            return OR(self.kept(K, v), m1.contains(v))

        def outp(v):
            return ite(self.kept(K, v), v, m1.get(v))
        out.append(('different-names-get-different-output-names',
                    implies(AND(seen(p), seen(q), NOT(val_eq(p, q))), NOT(val_eq(outp(p), outp(q))))))
        return out

    # --- modelling hooks ----------------------------------------------------------------------------------------
    def contains_model(self, ex, cont, item, st):
        N = self.N
        if isinstance(cont, (set, frozenset)):
            return SBool(N.inP(toint(item)))             # the only set constant of the class: PRESERVED_NAMES
        if isinstance(cont, SOpt) and cont.val == 'KEEPSET':
            return SBool(N.inK(toint(item)))
        if cont == 'KEEPSET':
            return SBool(N.inK(toint(item)))
        return None

    def call_hook(self, ex, node, f, args, kw, st):
        if isinstance(f, BoundMethod) and f.qual == FACTORY + '._name_for_id':
            k = args[0]
            ex.oblige(st, k >= 0, 'call:_name_for_id/pre(id >= 0)', node)
            return SInt(self.N.nameof(toint(k)))
        if isinstance(f, SeqMethod) and f.name == 'format':
            return OpaqueStr()
        return NotImplemented

    def method_model(self, ex, recv, name, A, kw, st, node):
        # a pure method of a name (e.g. .lower(), .strip()) is some function of the name: uninterpreted, name -> name
        if isinstance(recv, (SInt, int)) and not A and not kw:
            f = z3.Function('name.' + name, z3.IntSort(), z3.IntSort())
            ex.assumptions.add('bytes.%s() on a name is modelled as an uninterpreted function name -> name' % name)
            return SInt(f(toint(recv)))
        return NotImplemented

    def map_store(self, ex, m, k, v, st):
        return m.store(k, v, id=SInt(self.N.gid(toint(v))))

    @property
    def loops(self):
        def inv(ctx, k):
            nxt = ctx.get('self._next_name_id')
            nxt0 = ctx.entry.heap[self.obj.id]['_next_name_id']
            return [('next-id-only-grows', nxt >= nxt0)]
        return {1: LoopSpec(inv=inv, modifies=['self'], shapes={'new_name': lambda: V.fresh_int('new_name')})}


CONTRACTS = [NameForId(), GetShortName()]
