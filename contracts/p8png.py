"""C16 / C04: the .p8.png steganography against PngSpec (2 bits per A,R,G,B channel; upper six bits = label)."""
import z3

from pyvc.contract import Contract
from pyvc.loops import LoopSpec
from pyvc import values as V
from pyvc.values import (E, SInt, SBool, SSeq, SOpt, AND, OR, NOT, implies, iff, ite, val_eq, seq_eq, seq_of,
                         forall, toint, vite)
from specs import p8spec as P

W, H, PLANES = 160, 205, 4        # geometry of every PICO-8 cart image (RGBA8)
ROWLEN = W * PLANES


def image(name, rows=None):
    """Arbitrary RGBA8 image as pypng delivers it: a list of rows, each a sequence of W*4 bytes."""
    PIX = z3.Function(E.fresh(name), V.isort(), V.isort(), z3.BitVecSort(8))
    if rows is None:
        rows = SInt(V.ivar(E.fresh(name + '.rows')))
        E.axioms.append(z3.And(rows.t >= 0, rows.t <= 4096))
        E.var_bounds[rows.t.get_id()] = (0, 4096)
        E.size_hints.append(lambda b: rows.t <= b)
    return SSeq(rows, lambda y: SSeq(ROWLEN, lambda x: SInt(z3.ZeroExt(V.WIDTH - 8, PIX(toint(y), toint(x)))), 'bytes'), 'list')


class Unpack(Contract):
    """get_picodata_from_pngdata: byte at offset y*160+x = (A&3)<<6 | (R&3)<<4 | (G&3)<<2 | (B&3) of pixel (x, y)."""
    target = 'pico8.game.formatter.p8png:get_picodata_from_pngdata'
    mode = 'bv'
    property_ids = ('C16', 'C04')

    def setup(self, K):
        a = {'width': W, 'height': H, 'pngdata': image('png', H), 'attrs': {'planes': PLANES}}
        self.a = a
        return a

    def model(self, png, nrows=H, cols_of_last=None):
        def byte(i):
            y, x = i // W, i % W
            filled = i < nrows * W if cols_of_last is None else i < nrows * W + cols_of_last
            return vite(filled, lambda: P.png_byte(png.get(y), x), lambda: 0)
        return seq_of(W * H, byte, 'list')

    def result(self, K, a):
        return K.list(self.model(a['pngdata']))

    def ensures(self, K, a, old, res):
        if not res.returned:
            return [('no-exception', False)]
        return [('bytes-are-PngSpec' + s, c) for s, c in V.split_eq(K.seq(res.value), self.model(a['pngdata']))]

    @property
    def loops(self):
        png = self.a['pngdata']

        def row_cases(ctx, k):
            return None

        def col_cases(ctx, k):
            if k is None or isinstance(k, int):
                return None
            at = ctx['row_i'] * W + (k - 1)
            return lambda i: ([at], NOT(i == at))
        return {1: LoopSpec(defs=lambda ctx, k: {'picodata': self.model(png, k), 'row_i': k}),
                2: LoopSpec(defs=lambda ctx, k: {'picodata': self.model(png, ctx['row_i'], k)},
                            cases={'picodata': col_cases})}


class Pack(Contract):
    """get_pngdata_from_picodata: every channel keeps the label's upper six bits and carries two cart bits;
    pixels beyond the data are copied verbatim."""
    target = 'pico8.game.formatter.p8png:get_pngdata_from_picodata'
    mode = 'bv'
    property_ids = ('C16', 'C04')

    def setup(self, K):
        a = {'picodata': K.bytes('picodata'), 'pngdata': image('label'), 'attrs': {'planes': PLANES}}
        E.axioms.append(a['picodata'].n.t <= 0x10000)
        E.var_bounds[a['picodata'].n.t.get_id()] = (0, 0x10000)
        self.a = a
        return a

    def elem(self, a, y, x):
        pico, png = a['picodata'], a['pngdata']
        off = y * W + x // 4
        orig = png.get(y).get(x)
        ch = x % 4
        b = pico.get(off)
        new = ite(ch == 0, P.png_channel(orig, b, 0), ite(ch == 1, P.png_channel(orig, b, 1),
                  ite(ch == 2, P.png_channel(orig, b, 2), P.png_channel(orig, b, 3))))
        return ite(off < pico.n, new, orig)

    def model(self, a, nrows=None):
        n = a['pngdata'].n if nrows is None else nrows
        return seq_of(n, lambda y: seq_of(ROWLEN, lambda x: self.elem(a, y, x), 'bytes'), 'list')

    def result(self, K, a):
        return K.list(self.model(a))

    def ensures(self, K, a, old, res):
        if not res.returned:
            return [('no-exception', False)]
        return [('pixels-are-PngSpec' + s, c) for s, c in V.split_eq(K.seq(res.value), self.model(a))]

    @property
    def loops(self):
        a = self.a
        return {1: LoopSpec(defs=lambda ctx, k: {'new_rows': self.model(a, k)}),
                2: LoopSpec(defs=lambda ctx, k: {'new_row': seq_of(
                    ROWLEN, lambda x: ite(x < k * 4, self.elem(a, ctx['row_i'], x), 0), 'bytes')})}


CONTRACTS = [Unpack(), Pack()]
