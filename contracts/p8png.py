"""C16 / C04: the .p8.png steganography against PngSpec (2 bits per A,R,G,B channel; upper six bits = label)."""
import z3

from pyvc.contract import Contract
from pyvc.loops import LoopSpec
from pyvc import values as V
from pyvc.values import (E, SInt, SBool, SSeq, SOpt, AND, OR, NOT, implies, iff, ite, val_eq, seq_eq, seq_of,
                         forall, toint, vite)
from specs import p8spec as P

W, H, PLANES = 160, 205, 4        # geometry of every PICO-8 cart image (RGBA8)
ROWLEN = W * PLANES


def image(name, rows=None):
    """Arbitrary RGBA8 image as pypng delivers it: a list of rows, each a sequence of W*4 bytes."""
    PIX = z3.Function(E.fresh(name), V.isort(), V.isort(), z3.BitVecSort(8))
    if rows is None:
        rows = SInt(V.ivar(E.fresh(name + '.rows')))
        E.axioms.append(z3.And(rows.t >= 0, rows.t <= 4096))
        E.var_bounds[rows.t.get_id()] = (0, 4096)
        E.size_hints.append(lambda b: rows.t <= b)
    return SSeq(rows, lambda y: SSeq(ROWLEN, lambda x: SInt(z3.ZeroExt(V.WIDTH - 8, PIX(toint(y), toint(x)))), 'bytes'), 'list')


class Unpack(Contract):
    """get_picodata_from_pngdata: byte at offset y*160+x = (A&3)<<6 | (R&3)<<4 | (G&3)<<2 | (B&3) of pixel (x, y)."""
    target = 'pico8.game.formatter.p8png:get_picodata_from_pngdata'
    mode = 'bv'
    property_ids = ('C16', 'C04')

    def setup(self, K):
        a = {'width': W, 'height': H, 'pngdata': image('png', H), 'attrs': {'planes': PLANES}}
        self.a = a
        return a

    def model(self, png, nrows=H, cols_of_last=None):
        def byte(i):
            y, x = i // W, i % W
            filled = i < nrows * W if cols_of_last is None else i < nrows * W + cols_of_last
            return vite(filled, lambda: P.png_byte(png.get(y), x), lambda: 0)
        return seq_of(W * H, byte, 'list')

    def result(self, K, a):
        return K.list(self.model(a['pngdata']))

    def ensures(self, K, a, old, res):
        if not res.returned:
            return [('no-exception', False)]
        return [('bytes-are-PngSpec' + s, c) for s, c in V.split_eq(K.seq(res.value), self.model(a['pngdata']))]

    @property
    def loops(self):
        png = self.a['pngdata']

        def row_cases(ctx, k):
            return None

        def col_cases(ctx, k):
            if k is None or isinstance(k, int):
                return None
            at = ctx['row_i'] * W + (k - 1)
            return lambda i: ([at], NOT(i == at))
        return {1: LoopSpec(defs=lambda ctx, k: {'picodata': self.model(png, k), 'row_i': k}),
                2: LoopSpec(defs=lambda ctx, k: {'picodata': self.model(png, ctx['row_i'], k)},
                            cases={'picodata': col_cases})}


class Pack(Contract):
    """get_pngdata_from_picodata: every channel keeps the label's upper six bits and carries two cart bits;
    pixels beyond the data are copied verbatim."""
    target = 'pico8.game.formatter.p8png:get_pngdata_from_picodata'
    mode = 'bv'
    property_ids = ('C16', 'C04')

    def setup(self, K):
        a = {'picodata': K.bytes('picodata'), 'pngdata': image('label'), 'attrs': {'planes': PLANES}}
        E.axioms.append(a['picodata'].n.t <= 0x10000)
        E.var_bounds[a['picodata'].n.t.get_id()] = (0, 0x10000)
        self.a = a
        return a

    def elem(self, a, y, x):
        pico, png = a['picodata'], a['pngdata']
        off = y * W + x // 4
        orig = png.get(y).get(x)
        ch = x % 4
        b = pico.get(off)
        new = ite(ch == 0, P.png_channel(orig, b, 0), ite(ch == 1, P.png_channel(orig, b, 1),
                  ite(ch == 2, P.png_channel(orig, b, 2), P.png_channel(orig, b, 3))))
        return ite(off < pico.n, new, orig)

    def model(self, a, nrows=None):
        n = a['pngdata'].n if nrows is None else nrows
        return seq_of(n, lambda y: seq_of(ROWLEN, lambda x: self.elem(a, y, x), 'bytes'), 'list')

    def result(self, K, a):
        return K.list(self.model(a))

    def ensures(self, K, a, old, res):
        if not res.returned:
            return [('no-exception', False)]
        return [('pixels-are-PngSpec' + s, c) for s, c in V.split_eq(K.seq(res.value), self.model(a))]

    @property
    def loops(self):
        a = self.a
        return {1: LoopSpec(defs=lambda ctx, k: {'new_rows': self.model(a, k)}),
                2: LoopSpec(defs=lambda ctx, k: {'new_row': seq_of(
                    ROWLEN, lambda x: ite(x < k * 4, self.elem(a, ctx['row_i'], x), 0), 'bytes')})}



CODE_AREA = 0x8000 - 0x4300


class GetBytesFromCode(Contract):
    abstract_result = True
    """get_bytes_from_code(code): the 0x3d00-byte code area -- compressed (':c:' header + stream) iff that is
    shorter than the text, else the raw text; zero padded; NEVER truncated or grown: code that does not fit is refused."""
    target = 'pico8.game.formatter.p8png:get_bytes_from_code'
    mode = 'lia'
    property_ids = ('C04', 'C05')
    raises_in_ensures = ('InvalidP8PNGError',)
    subclass_of = {'InvalidP8PNGError': ('InvalidP8DataError', 'Error', 'Exception')}
    # nothing about the stream content is needed here (only that compress_code returns a bytearray)
    assume_clauses = {'pico8.game.compress:compress_code': ()}

    variants = (None, 'huge')
    example_budget_s = 400          # compressing a 64 KiB example with the real brute-force compressor takes minutes
    implicit_raises = ('ValueError',)
    raises_in_ensures = ('InvalidP8PNGError', 'ValueError')

    def setup(self, K, variant=None):
        a = {'code': K.bytes('code')}
        self.a = a
        self.variant = variant
        return a

    def requires(self, K, a, variant=None):
        # 'huge': text whose length does not fit the two-byte length header -- it can never fit the cart
        if getattr(self, 'variant', None) == 'huge':
            return SSeq.of(a['code']).n > 0xffff
        return SSeq.of(a['code']).n <= 0xffff

    def call_hook(self, ex, node, f, args, kw, st):
        from pyvc.execu import FuncVal, ModVal
        import ast
        if getattr(self, 'variant', None) == 'huge' and ast.unparse(node.func) == 'compress.compress_code':
            # nothing about the stream is needed: ANY byte string may come back (over-approximation)
            ex.abstract_calls = True
            return st.alloc(V.byte_seq('compressed'), 'bytearray')
        return NotImplemented

    def witness(self, K, variant=None):
        if variant == 'huge':
            return {'code': SSeq.of(b'print("hello")\n' * 4400)}
        return {'code': SSeq.of(b'print("hello") print("hello") print("hello")\n')}

    def examples(self, rnd, variant=None):
        import hashlib
        if variant == 'huge':
            yield {'code': SSeq.of(b'a' * 0x10000)}
            yield {'code': SSeq.of(b'print("hello")\n' * 4400)}
            return
        yield {'code': SSeq.of(b'')}
        yield {'code': SSeq.of(b'a')}
        yield {'code': SSeq.of(b'x=1\n')}
        for n in (CODE_AREA - 1, CODE_AREA, CODE_AREA + 1, CODE_AREA + 500):
            buf, i = b'', 0                    # incompressible text of exactly n bytes (no NUL)
            while len(buf) < n:
                buf += hashlib.sha256(str((n, i)).encode()).digest().replace(b'\0', b'\1')
                i += 1
            yield {'code': SSeq.of(buf[:n])}
        for _ in range(20):
            n = rnd.randint(0, 300)
            yield {'code': SSeq.of(bytes(rnd.choice(b'abc =\n()\x80') for _ in range(n)))}

    def result(self, K, a):
        return K.bytearray('code_area')

    def ensures(self, K, a, old, res):
        code = SSeq.of(a['code'])
        loc = K.st.locals
        if getattr(self, 'variant', None) == 'huge':
            # never written truncated: a text of 64 KiB or more must be refused, whichever way
            return [('text-that-cannot-fit-is-refused-with-an-error', res.raised())]
        if 'compressed_bytes' not in loc:
            # call site / judging a real run: only what does not depend on the (deterministic but abstract) compressor
            if res.raised():
                return [('refused-only-if-the-raw-text-does-not-fit', code.n > CODE_AREA)] if '__observed__' in loc else []
            r = K.seq(res.value)
            return [('area-size', r.n == CODE_AREA)]
        if res.raised('ValueError'):
            return [('ValueError-only-for-huge-text', False)]
        comp = K.seq(loc['compressed_bytes'])
        use_c = comp.n < code.n
        size = ite(use_c, comp.n + 8, code.n)
        if res.raised():
            return [('refused-only-when-it-does-not-fit', size > CODE_AREA)]
        r = K.seq(res.value)
        hdr = [58, 99, 58, 0, code.n // 256, code.n % 256, 0, 0]
        want = seq_of(CODE_AREA, lambda i: ite(i >= size, 0, ite(use_c, ite(i < 8, SSeq.of(hdr, 'list').get(i), comp.get(i - 8)),
                                                                 code.get(i))), 'bytes')
        return [('fits', size <= CODE_AREA), ('area-size(never truncated, never grown)', r.n == CODE_AREA),
                ('layout(header+stream or raw text, zero padded)', seq_eq(r, want))]


class GetCodeFromBytes(Contract):
    """get_code_from_bytes(codedata, version): raw NUL-terminated text (+ the newline the reader appends), or the
    decompressed text; CR normalised to space."""
    target = 'pico8.game.formatter.p8png:get_code_from_bytes'
    mode = 'lia'
    property_ids = ('C04', 'C05')

    variants = ('raw', 'compressed')

    @property
    def ghost_args(self):
        a = self.a
        return {'pico8.game.compress:decompress_code': lambda ex, st, bound: {k: v for k, v in a.items() if k.startswith('__')}}

    def setup(self, K, variant):
        from contracts.compress import Stream, stream_of
        if variant == 'raw':
            cd = V.byte_seq('codedata', CODE_AREA, 'list')
            a = {'codedata': cd, 'version': K.int('version', 0, 255)}
        else:
            a = Stream.fresh(K)
            st = stream_of(a)
            a['__hl'] = K.int('hl', 0, 0xffff)
            hl = a['__hl']
            pad = V.byte_seq('pad')
            hdr = [58, 99, 58, 0, hl // 256, hl % 256, 0, 0]

            def cdf(i):
                r = ite(i < 8 + st.n, st.S.get(i - 8), pad.get(i))
                for k in range(7, -1, -1):
                    r = ite(i == k, hdr[k], r)
                return r
            a['codedata'] = SSeq(CODE_AREA, cdf, 'list')
            a['version'] = K.int('version', 0, 255)
        self.a = a
        return a

    def witness(self, K, variant):
        if variant == 'raw':
            return {'codedata': SSeq.of(list(b'x=1\r\ny=2') + [0] * (CODE_AREA - 9), 'list'), 'version': 5}
        from contracts.compress import Decompress
        a = Decompress().witness(K)
        cd = SSeq.of(a['codedata'])
        a['codedata'] = SSeq.of([cd.get(i) for i in range(cd.n)] + [0] * (CODE_AREA - cd.n), 'list')
        a['version'] = 8
        return a

    def is_compressed(self, a):
        cd = SSeq.of(a['codedata'])
        # the header alone decides (a cart of any version written by picotool may be compressed)
        return AND(cd.get(0) == 58, cd.get(1) == 99, cd.get(2) == 58, cd.get(3) == 0)

    def requires(self, K, a):
        cd = SSeq.of(a['codedata'])
        if '__S' in a:
            from contracts.compress import Decompress
            return AND(cd.n == CODE_AREA, Decompress().requires(K, a))
        return AND(cd.n == CODE_AREA, NOT(self.is_compressed(a)))

    def ensures(self, K, a, old, res):
        if not res.returned:
            return [('no-exception', False)]
        cd = SSeq.of(a['codedata'])
        clen, code, csize = res.value
        code = SSeq.of(code)
        if '__S' in a:
            from contracts.compress import stream_of
            from specs import cspec
            st = stream_of(a)
            n = cspec.unsuffix_len(st.T, a['__hl'])
            return [('text-is-CSpec-text(CR->space)', seq_eq(code, seq_of(n, lambda i: ite(st.T.get(i) == 13, 32, st.T.get(i)), 'bytes'))),
                    ('code_length', val_eq(clen, a['__hl']))]
        # raw: up to the first NUL (whole area if there is none), plus the newline the reader appends
        return [('length-is-first-NUL', AND(clen >= 0, clen <= CODE_AREA, forall(0, clen, lambda i: NOT(cd.get(i) == 0)),
                                            OR(clen == CODE_AREA, cd.get(clen) == 0))),
                ('text-is-raw-prefix+newline(CR->space)', seq_eq(code, seq_of(
                    clen + 1, lambda i: ite(i == clen, 10, ite(cd.get(i) == 13, 32, cd.get(i))), 'bytes'))),
                ('not-compressed', SOptNone(csize))]


def SOptNone(v):
    from pyvc.values import SOpt
    return v is None or (isinstance(v, SOpt) and v.isnone)


CONTRACTS = [Unpack(), Pack(), GetBytesFromCode(), GetCodeFromBytes()]
