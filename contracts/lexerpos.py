"""C07: the position counters of the lexer.  Region contract for the loop that ends Lexer._process_token:

        for c in s[:i]:
            if c == b'\\n'[0]: self._cur_lineno += 1; self._cur_charno = 0
            else: self._cur_charno += 1

Post (from the statement: "the correct line/column for each token"): after consuming the first i bytes of the chunk, the
line counter has grown by the number of newline bytes among them and the column counter is the number of bytes after the
last of those newlines (the old column plus i if there is none) -- for every chunk, every i, every starting position."""
import ast
import z3

from pyvc.loops import LoopSpec
from pyvc.contract import Contract, Kit
from pyvc import values as V, source
from pyvc.values import E, SInt, SBool, SSeq, SymErr, AND, OR, NOT, implies, ite, val_eq, toint, forall
from pyvc.execu import Exec, State

LEXER = 'pico8.lua.lexer:Lexer'


def position_obligations():
    E.reset('lia')
    fn = source.find_function(LEXER + '._process_token')
    loops = [s for s in fn.node.body if isinstance(s, ast.For) and ast.unparse(s.iter) == 's[:i]']
    if len(loops) != 1 or fn.node.body.index(loops[0]) != len(fn.node.body) - 2 or ast.unparse(fn.node.body[-1]) != 'return i':
        raise SymErr('the position-counting loop was not found at the end of Lexer._process_token')
    loop = loops[0]
    c = Contract()
    c.target = LEXER + '._process_token'
    st = State()
    K = Kit(st)
    s = K.bytes('s')
    i = K.int('i', 0)
    st.assume(i <= s.n)
    line0, col0 = K.int('line0', 0), K.int('col0', 0)
    obj = K.obj(LEXER, _cur_lineno=line0, _cur_charno=col0)
    st.locals.update({'self': obj, 's': s, 'i': i})
    I = z3.IntSort()
    CNT = z3.Function('newlines_before', I, I)          # number of newline bytes among s[0..k)
    LAST = z3.Function('last_newline_before', I, I)     # index of the last newline byte among s[0..k), -1 if none
    k = z3.Int(E.fresh('k'))
    sk = toint(s.get(SInt(k)))
    E.axioms.append(z3.And(CNT(0) == 0, LAST(0) == -1))
    E.axioms.append(z3.ForAll([k], z3.Implies(k >= 0, z3.And(CNT(k + 1) == CNT(k) + z3.If(sk == 10, 1, 0),
                                                             LAST(k + 1) == z3.If(sk == 10, k, LAST(k)))), patterns=[CNT(k + 1)]))

    def spec_col(n):
        lastn = SInt(LAST(toint(n)))
        return ite(lastn < 0, col0 + n, n - 1 - lastn)
    obls = []
    ex = Exec(fn, c, {}, obls, prefix=LEXER + '._process_token[position counters]')
    ordn = ex.loop_ord[id(loop)]

    def inv(ctx, kk):
        return [('line-counter', val_eq(ctx.get('self._cur_lineno'), line0 + SInt(CNT(toint(kk))))),
                ('column-counter', val_eq(ctx.get('self._cur_charno'), spec_col(kk)))]
    c.loops = {ordn: LoopSpec(inv=inv, modifies=['self'])}
    outs = ex.block([loop], st)
    for o in outs:
        if o.kind != 'normal':
            raise SymErr('the position loop leaves the region (%s)' % o.kind)
        rec = o.st.heap[obj.id]
        ex.oblige(o.st, val_eq(rec['_cur_lineno'], line0 + SInt(CNT(toint(i)))), 'post.line == old line + number of newlines consumed', loop)
        ex.oblige(o.st, val_eq(rec['_cur_charno'], spec_col(i)), 'post.column == bytes consumed after the last newline (old column + i if none)', loop)
    return obls, list(E.axioms), fn
