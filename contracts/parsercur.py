"""C08 (cursor primitives of the recursive-descent parser): Parser._accept / _expect / _assert against their
specification, and the short-if fence computed inside Parser._stat.

Tokens are abstract: token i of the list is the value TOK(i); `tok.matches(pattern)` is the uninterpreted predicate
M(tok) (for the pattern of this call), the three trivia classes are uninterpreted predicates of the token."""
import ast
import z3

from pyvc.contract import Contract
from pyvc.loops import LoopSpec
from pyvc import values as V
from pyvc.values import E, SInt, SBool, SSeq, SOpt, Ref, SymErr, AND, OR, NOT, implies, ite, val_eq, toint, tobool, forall
from pyvc.execu import BoundMethod, BuiltinVal, ClassVal, RaisedValue, OpaqueStr

PARSER = 'pico8.lua.parser:Parser'


class _Tokens:
    def __init__(self, K):
        I, B = z3.IntSort(), z3.BoolSort()
        self.M = z3.Function('matches_pattern', I, B)
        self.SP = z3.Function('is_space', I, B)
        self.NL = z3.Function('is_newline', I, B)
        self.CM = z3.Function('is_comment', I, B)
        self.n = K.int('ntokens', 0)
        # token i IS the value i (identity coding: tokens are only inspected through the predicates above)
        self.tokens = SSeq(self.n, lambda i: i if isinstance(i, int) else SInt(toint(i)), 'list')

    def trivia(self, i):
        t = toint(i)
        return OR(SBool(self.SP(t)), SBool(self.NL(t)), SBool(self.CM(t)))

    def matches(self, i):
        return SBool(self.M(toint(i)))


class _CursorContract(Contract):
    mode = 'lia'
    property_ids = ('C08', 'C09')

    def parser_obj(self, K):
        self.T = _Tokens(K)
        T = self.T
        pos = K.int('pos', 0)
        K.st.assume(pos <= T.n)
        mx = K.opt('max_pos.none', K.int('max_pos'))
        self.pos0, self.max = pos, mx
        self.toklist = K.st.alloc(T.tokens, 'list')
        self.obj = K.obj(PARSER, _tokens=self.toklist, _pos=pos, _max_pos=mx)
        return self.obj

    def pos(self, K):
        return K.st.heap[self.obj.id]['_pos']

    def call_hook(self, ex, node, f, args, kw, st):
        txt = ast.unparse(node.func)
        T = self.T
        if txt == 'self._peek':
            pos = st.heap[self.obj.id]['_pos']
            return SOpt(pos >= T.n, pos)
        if isinstance(f, BuiltinVal) and f.name == 'isinstance' and len(args) == 2 and isinstance(args[1], ClassVal):
            v = args[0]
            v = v.val if isinstance(v, SOpt) else v
            name = args[1].qual.split(':')[1]
            fn = {'TokSpace': T.SP, 'TokNewline': T.NL, 'TokComment': T.CM}.get(name)
            if fn is None:
                return NotImplemented
            return SBool(fn(toint(v)))
        return NotImplemented

    def method_model(self, ex, recv, name, A, kw, st, node):
        if name == 'matches':
            if isinstance(recv, SOpt):
                ex.oblige(st, NOT(recv.isnone), 'no-AttributeError(None.matches)', node)
                recv = recv.val
            return self.T.matches(recv)
        return NotImplemented


class Accept(_CursorContract):
    """_accept(pattern): skips only trivia that does not itself match; returns the first non-trivia-or-matching token iff it
    matches and lies before the short-if fence, leaving the cursor just after it; otherwise returns None with the cursor
    where it was."""
    target = PARSER + '._accept'

    def setup(self, K):
        return {'self': self.parser_obj(K), 'tok_pattern': K.int('pattern')}

    def modifies(self, K, a):
        return [self.obj]

    def scan_end(self, j):
        """j is where the scan stops: everything in [pos0, j) is trivia that does not match, and j is the end of the
        list or a token that matches or is not trivia."""
        T = self.T
        return AND(j >= self.pos0, j <= T.n,
                   forall(self.pos0, j, lambda i: AND(T.trivia(i), NOT(T.matches(i)))),
                   OR(j == T.n, T.matches(j), NOT(T.trivia(j))))

    def ensures(self, K, a, old, res):
        if not res.returned:
            return [('no-exception', False)]
        T = self.T
        r = res.value
        r = r if isinstance(r, SOpt) else SOpt.of(r)
        pos1 = self.pos(K)
        j = V.fresh_int('j')
        fence_ok = OR(self.max.isnone, j < self.max.val)
        hit = AND(j < T.n, T.matches(j), fence_ok)
        return [('a returned token is the first token after trivia, it matches, lies before the fence, and the cursor is just after it',
                 implies(NOT(r.isnone), AND(self.scan_end(r.val), T.matches(r.val), r.val < T.n,
                                            OR(self.max.isnone, r.val < self.max.val), val_eq(pos1, r.val + 1)))),
                ('None is returned exactly when that token does not match or is fenced off, and the cursor is restored',
                 implies(self.scan_end(j), AND(V.iff(r.isnone, NOT(hit)), implies(NOT(hit), val_eq(pos1, self.pos0)))))]

    @property
    def loops(self):
        T = self.T

        def inv(ctx, k):
            pos = ctx.get('self._pos')
            return [('scanned-prefix-is-non-matching-trivia',
                     AND(pos >= self.pos0, pos <= T.n, forall(self.pos0, pos, lambda i: AND(T.trivia(i), NOT(T.matches(i))))))]
        return {1: LoopSpec(inv=inv, modifies=['self'], variant=lambda ctx: T.n - ctx.get('self._pos'),
                            shapes={'cur_tok': lambda: SOpt(V.fresh_bool('cur.none'), V.fresh_int('cur'))})}


CONTRACTS = [Accept()]


# ------------------------------------------------------------------------------------------------ short-if fence

def shortif_fence_obligations():
    """Obligations for the region of Parser._stat that computes the short-if fence:
           then_end_pos = exp._end_token_pos
           while then_end_pos < len(self._tokens) and not self._tokens[then_end_pos].matches(lexer.TokNewline): then_end_pos += 1
       Post: then_end_pos is the index of the FIRST newline token at or after the end of the condition (the end of the
       token list if there is none) -- the short-if body may reach exactly to the end of its line, comments included.
    Returns (obligations, axioms, function source) ; raises SymErr if the region is not found."""
    from pyvc import source
    from pyvc.execu import Exec, State, Obligation
    from pyvc.loops import LoopSpec
    from pyvc.contract import Kit
    E.reset('lia')
    fn = source.find_function(PARSER + '._stat')
    region = None
    for n in ast.walk(fn.node):
        body = getattr(n, 'body', None)
        if isinstance(body, list):
            for i, s in enumerate(body[:-1]):
                if isinstance(s, ast.Assign) and ast.unparse(s.targets[0]) == 'then_end_pos' and isinstance(body[i + 1], ast.While):
                    region = (s, body[i + 1], body[i + 2] if i + 2 < len(body) else None)
    if region is None:
        raise SymErr('the short-if fence computation was not found in Parser._stat')
    assign, loop, after = region
    c = _CursorContract()
    c.target = PARSER + '._stat'
    st = State()
    K = Kit(st)
    obj = c.parser_obj(K)
    T = c.T
    e = K.int('exp_end', 0)
    st.assume(e <= T.n)
    exp = st.alloc({'_end_token_pos': e}, 'pico8.lua.parser:ExpValue')
    st.locals.update({'self': obj, 'exp': exp})
    obls = []
    ex = Exec(fn, c, {}, obls, prefix=PARSER + '._stat[short-if fence]')

    def method_model(ex_, recv, name, A, kw, st_, node):
        # tokens[i].matches(lexer.TokNewline): a class pattern -> isinstance
        if name == 'matches' and A and isinstance(A[0], ClassVal) and A[0].qual.endswith(':TokNewline'):
            return SBool(T.NL(toint(recv)))
        return NotImplemented
    c.method_model = method_model
    ordn = ex.loop_ord[id(loop)]

    def inv(ctx, k):
        p = ctx['then_end_pos']
        return [('no-newline-so-far', AND(p >= e, p <= T.n, forall(e, p, lambda i: NOT(SBool(T.NL(toint(i)))))))]
    c.loops = {ordn: LoopSpec(inv=inv, variant=lambda ctx: T.n - ctx['then_end_pos'])}
    outs = ex.block([assign, loop], st)
    for o in outs:
        if o.kind != 'normal':
            raise SymErr('the fence computation leaves the region (%s)' % o.kind)
        p = o.st.locals['then_end_pos']
        ex.oblige(o.st, AND(p >= e, p <= T.n, forall(e, p, lambda i: NOT(SBool(T.NL(toint(i))))), OR(p == T.n, SBool(T.NL(toint(p))))),
                  'post.fence-is-the-first-newline-token-at-or-after-the-condition (or the end of the code)', loop)
    # shape of what follows: the fence is installed for the body and always removed
    shape_ok = isinstance(after, ast.Try) and after.finalbody and [ast.unparse(s) for s in after.finalbody] == ['self._max_pos = None'] and \
        ast.unparse(after.body[0]) == 'self._max_pos = then_end_pos'
    return obls, list(E.axioms), fn, shape_ok
