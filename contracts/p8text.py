"""C16 (and C03): the .p8 section text codecs against P8Spec, both directions against the SAME independent
format description, so a mistake shared by writer and reader fails both."""
import z3

from pyvc.contract import Contract
from pyvc.loops import LoopSpec
from pyvc import values as V
from pyvc.values import (E, SInt, SBool, SSeq, SOpt, AND, OR, NOT, implies, iff, ite, val_eq, seq_eq, seq_of,
                         forall, toint)
from pyvc.execu import ClassVal
from specs import p8spec as P
from contracts.sections import GFX, MAP, GFF, SFX, MUSIC

UTIL_INLINE = ('pico8.util:bytes_to_hex', 'pico8.util:BaseSection.__init__')


def hex_lines(name, width, maxcount=4096, mask=None, literal=None):
    """Arbitrary list of in-format text rows: `width` characters followed by a newline; character j is a hex
    digit (either case) whose value is limited to mask(j) (default 15), or the literal byte literal(j).
    In-format BY CONSTRUCTION (no quantified axiom): digit (i, j) is built from an arbitrary function N as the
    hex digit with value N & mask, upper case iff bit 4 of N is set -- every allowed character is reached."""
    n = SInt(V.ivar(E.fresh(name + '.count')))
    bv = E.mode == 'bv'
    N = z3.Function(E.fresh(name + '.ch'), V.isort(), V.isort(), z3.BitVecSort(5) if bv else z3.IntSort())
    E.axioms.append(z3.And(n.t >= 0, n.t <= maxcount))
    E.var_bounds[n.t.get_id()] = (0, maxcount)
    E.size_hints.append(lambda b: n.t <= b)

    def ch(r, c):
        if not isinstance(c, int) and (mask is not None or literal is not None):
            raise V.SymErr('rows with per-column digit limits are read at concrete columns only')
        if isinstance(c, int) and c == width:
            return 10
        if isinstance(c, int) and literal is not None and literal(c) is not None:
            return literal(c)
        raw = N(toint(r), toint(c))
        m = 15 if mask is None else mask(c)
        if bv:
            v = SInt(z3.ZeroExt(V.WIDTH - 4, z3.Extract(3, 0, raw) & z3.BitVecVal(m, 4)))
            upper = SBool(z3.Extract(4, 4, raw) == 1)
        else:
            v = SInt(raw % (m + 1))              # masks are 2^k - 1
            upper = SBool((raw / 16) % 2 == 1)
        digit = ite(v < 10, v + 48, ite(upper, v + 55, v + 87))
        return digit if isinstance(c, int) else ite(c == width, 10, digit)
    return SSeq(n, lambda r: SSeq(width + 1, lambda c: ch(r, c), 'bytes'), 'list')


class ToLines(Contract):
    """Section.to_lines(): the yielded rows are exactly the P8Spec text of the region bytes."""
    mode = 'bv'
    generator = True
    property_ids = ('C16', 'C03')
    inline = UTIL_INLINE
    cls = size = None

    def setup(self, K, variant=None):
        a = {'self': K.obj(self.cls, _data=K.bytearray('data', self.size))}
        self.a, self.d0 = a, K.data(a['self'])
        return a

    def requires(self, K, a):
        return K.data(a['self']).n == self.size

    def rows(self, d):
        raise NotImplementedError

    def result(self, K, a):
        return self.rows(K.data(a['self']))

    def ensures(self, K, a, old, res):
        if not res.returned:
            return [('no-exception', False)]
        return [('text-is-P8Spec' + suf, cl) for suf, cl in V.split_eq(K.seq(res.value), self.rows(old.data(a['self'])))] + [
                ('memory-unchanged', seq_eq(K.data(a['self']), old.data(a['self'])))]

    @property
    def loops(self):
        rows = self.rows(self.d0)
        return {1: LoopSpec(defs=lambda ctx, k: {'__yielded__': seq_of(k, rows.get, 'list')})}


class BaseToLines(ToLines):
    target = 'pico8.util:BaseSection.to_lines'
    variants = ('map', 'gff')

    def setup(self, K, variant):
        self.cls, self.size = {'map': (MAP, 4096), 'gff': (GFF, 256)}[variant]
        return ToLines.setup(self, K)

    def requires(self, K, a):
        return OR(K.data(a['self']).n == 4096, K.data(a['self']).n == 256)

    def rows(self, d):
        return P.hex_rows(d, 128)


class GfxToLines(ToLines):
    target = 'pico8.gfx.gfx:Gfx.to_lines'
    cls, size = GFX, 8192

    def rows(self, d):
        return P.gfx_rows(d)


class SfxToLines(ToLines):
    target = 'pico8.sfx.sfx:Sfx.to_lines'
    cls, size = SFX, 4352

    def rows(self, d):
        return P.sfx_rows(d)


class MusicToLines(ToLines):
    target = 'pico8.music.music:Music.to_lines'
    cls, size = MUSIC, 256

    def rows(self, d):
        return P.music_rows(d)


class FromLines(Contract):
    """Section.from_lines(): in-format rows are read to exactly the bytes P8Spec prescribes."""
    mode = 'bv'
    result_is_object = True
    property_ids = ('C16', 'C03')
    inline = UTIL_INLINE
    cls = None
    width = None

    def setup(self, K, variant=None):
        a = {'cls': ClassVal(self.cls), 'lines': hex_lines('lines', self.width), 'version': K.int('version', 0, 255)}
        self.a = a
        return a

    def data(self, lines):
        raise NotImplementedError

    def result(self, K, a):
        return K.obj(self.cls, _data=K.st.alloc(self.data(a['lines']), 'bytearray'), _version=a['version'])

    def ensures(self, K, a, old, res):
        if not res.returned:
            return [('no-exception', False)]
        return [('bytes-are-P8Spec', seq_eq(K.data(res.value), self.data(a['lines'])))]


class BaseFromLines(FromLines):
    target = 'pico8.util:BaseSection.from_lines'
    cls, width = GFF, 256

    def data(self, lines):
        return P.bytes_of_hex_rows(lines, 128)


class GfxFromLines(FromLines):
    target = 'pico8.gfx.gfx:Gfx.from_lines'
    cls, width = GFX, 128

    def data(self, lines):
        return P.bytes_of_gfx_rows(lines)

    @property
    def loops(self):
        lines = self.a['lines']
        return {1: LoopSpec(defs=lambda ctx, k: {'datastrs': seq_of(
            k, lambda r: seq_of(64, lambda i: P.hexv(lines.get(r).get(2 * i)) + P.hexv(lines.get(r).get(2 * i + 1)) * 16,
                                'bytes'), 'list')})}



def sfx_default(i):
    """Bytes of an empty sfx region as PICO-8 initialises it: speed 1 for pattern 0, 16 for the others."""
    return ite(i % 68 == 65, ite(i // 68 == 0, 1, 16), 0)


class SfxEmpty(Contract):
    target = 'pico8.sfx.sfx:Sfx.empty'
    mode = 'bv'
    result_is_object = True
    property_ids = ('C16', 'C03')
    inline = UTIL_INLINE

    def setup(self, K):
        return {'cls': ClassVal(SFX), 'version': K.int('version', 0, 255)}

    def result(self, K, a):
        return K.obj(SFX, _data=K.st.alloc(seq_of(4352, sfx_default, 'bytes'), 'bytearray'), _version=a['version'])

    def ensures(self, K, a, old, res):
        if not res.returned:
            return [('no-exception', False)]
        return [('bytes-are-defaults', seq_eq(K.data(res.value), seq_of(4352, sfx_default, 'bytes')))]

    loops = {1: LoopSpec(defs=lambda ctx, k: {'result._data': seq_of(
        4352, lambda i: ite(AND(i % 68 == 65, i // 68 <= k), ite(i // 68 == 0, 1, 16), 0), 'bytes')})}


def sfx_digit_mask(j):
    if j < 8:
        return 15
    d = (j - 8) % 5
    return {0: 3, 1: 15, 2: 15, 3: 7, 4: 7}[d]       # pitch 00..3f, waveform 0..f, volume 0..7, effect 0..7


def sfx_bytes(lines):
    """Memory bytes of the sfx region read from n <= 64 in-format rows (remaining patterns keep their defaults)."""
    def byte(i):
        p, o = i // 68, i % 68
        row = lines.get(p)

        def h(c):
            return P.hexv(row.get(c))
        note = o // 2
        alts = []
        # o < 64: note `note`, low (o even) or high byte of its word; the column of a note's digits is 8 + 5*note
        val = 0
        for nt in range(32):
            c0 = 8 + 5 * nt
            w = M_fields_word(h(c0) * 16 + h(c0 + 1), h(c0 + 2), h(c0 + 3), h(c0 + 4))
            val = ite(note == nt, ite(o % 2 == 0, w % 256, w // 256), val)
        head = 0
        for hb in range(4):
            head = ite(o == 64 + hb, h(2 * hb) * 16 + h(2 * hb + 1), head)
        return ite(p < lines.n, ite(o < 64, val, head), sfx_default(i))
    return seq_of(4352, byte, 'bytes')


def M_fields_word(pitch, wf, vol, eff):
    from specs.models import fields_word
    return fields_word(pitch, wf, vol, eff)


class SfxFromLines(FromLines):
    target = 'pico8.sfx.sfx:Sfx.from_lines'
    cls, width = SFX, 168
    mode = 'lia'        # no bit operation in this function; index arithmetic with // 68 and % 68 is linear here

    def setup(self, K, variant=None):
        a = {'cls': ClassVal(self.cls), 'lines': hex_lines('lines', 168, 64, sfx_digit_mask),
             'version': K.int('version', 0, 255)}
        self.a = a
        return a

    def data(self, lines):
        return sfx_bytes(lines)

    @property
    def loops(self):
        lines = self.a['lines']

        def partial(k):
            return sfx_bytes(SSeq(k, lines.get, 'list'))

        def cases(ctx, k):
            if k is None or isinstance(k, int):
                return None
            # hint: the 68 bytes of the pattern being read one by one; every other byte in one go
            cur = k - 1      # `k` is the number of rows read AFTER the body, the row just read is k - 1
            return lambda i: ([cur * 68 + c for c in range(68)], OR(i < cur * 68, i >= cur * 68 + 68))
        return {1: LoopSpec(defs=lambda ctx, k: {'result._data': partial(k), 'id': k}, cases={'result._data': cases})}


def music_mask(j):
    return {0: 0, 1: 7, 3: 7, 5: 7, 7: 7, 9: 7}.get(j, 15)      # flags 00..07, channel bytes 00..7f


def music_bytes(lines):
    def byte(i):
        p, c = i // 4, i % 4
        row = lines.get(p)

        def h(col):
            return P.hexv(row.get(col))
        flags = h(0) * 16 + h(1)
        val = 0
        for ch in range(4):
            cb = h(3 + 2 * ch) * 16 + h(4 + 2 * ch)
            fb = (flags // (1 << ch)) % 2 if ch < 3 else 0     # bit0 begin -> chan0, bit1 end -> chan1, bit2 stop -> chan2
            val = ite(c == ch, cb + fb * 128, val)
        return val
    return seq_of(lines.n * 4, byte, 'bytes')


class MusicFromLines(FromLines):
    target = 'pico8.music.music:Music.from_lines'
    cls, width = MUSIC, 11

    def setup(self, K, variant=None):
        a = {'cls': ClassVal(self.cls), 'version': K.int('version', 0, 255),
             'lines': hex_lines('lines', 11, 64, music_mask, lambda j: 32 if j == 2 else None)}
        self.a = a
        return a

    def data(self, lines):
        return music_bytes(lines)

    @property
    def loops(self):
        lines = self.a['lines']
        return {1: LoopSpec(defs=lambda ctx, k: {'data': music_bytes(SSeq(k, lines.get, 'list'))})}


CONTRACTS = [BaseToLines(), GfxToLines(), SfxToLines(), MusicToLines(), BaseFromLines(), GfxFromLines(),
             SfxEmpty(), SfxFromLines(), MusicFromLines()]
