"""C15: P8SCII <-> Unicode.  The real converters against the real tables:
  * p8scii_to_unicode(bs) is the concatenation of the table spellings T[b] (symbolic execution of the body);
  * unicode_to_p8scii(s) returns bs for EVERY s that is such a concatenation (loop invariant over the real loop),
    using three facts about the tables that the GROUND back end proves on the real tables on every run:
       (W)  UNICODE_CHAR_WIDTHS[T[b][0]] == len(T[b])            for all 256 b
       (C)  UNICODE_TO_P8SCII[T[b]] == b                          for all 256 b
       (L)  1 <= len(T[b]) <= 2                                   for all 256 b
"""
import z3

from pyvc.contract import Contract
from pyvc.loops import LoopSpec
from pyvc import values as V, source
from pyvc.values import (E, SInt, SBool, SSeq, AND, OR, NOT, implies, ite, val_eq, seq_eq, seq_of, forall, toint)
from pyvc.execu import TableRow
from pyvc.calls import concat_model, CONCATS

LUA = 'pico8.lua.lua'


def tables():
    c = source.module_info(LUA)['consts']
    return c['P8SCII_CHARSET'], c['UNICODE_CHAR_WIDTHS'], c['UNICODE_TO_P8SCII']


def spelling(b):
    return TableRow(tables()[0], b).field('p8string')


class P2U(Contract):
    target = LUA + ':p8scii_to_unicode'
    mode = 'lia'
    property_ids = ('C15', 'C03')

    def setup(self, K):
        return {'bs': K.bytes('bs')}

    def ensures(self, K, a, old, res):
        if not res.returned:
            return [('no-exception', False)]
        hit = CONCATS.get(id(res.value))
        if hit is None:
            return [('result-is-a-concatenation', False)]
        _, pieces, _ = hit
        bs = a['bs']
        return [('one-piece-per-byte', val_eq(pieces.n, bs.n)),
                ('piece-k-is-the-table-spelling-of-byte-k',
                 forall(0, bs.n, lambda k: val_eq(SSeq.of(pieces.get(k)), spelling(bs.get(k)))))]


class U2P(Contract):
    target = LUA + ':unicode_to_p8scii'
    mode = 'lia'
    property_ids = ('C15', 'C03')

    def setup(self, K):
        bs = K.bytes('bs')                                    # ghost: the bytes the text was made from
        pieces = SSeq(bs.n, lambda k: spelling(bs.get(k)), 'list')
        s = concat_model(pieces, 'str')                       # s = T[bs[0]] ++ T[bs[1]] ++ ...
        self.bs, self.s, self.OFF = bs, s, CONCATS[id(s)][2]
        self.table_lemmas()
        return {'s': s}

    # abstract views of the two dicts + the GROUND-proved facts (W), (C), (L) as axioms
    def table_lemmas(self):
        I = V.isort()
        self.WIDTHOF = z3.Function('widthof', I, I)
        self.INW = z3.Function('in_widths', I, z3.BoolSort())
        self.CODE = z3.Function('code', I, I, I, I)
        self.INC = z3.Function('in_codes', I, I, I, z3.BoolSort())
        b = V.ivar(E.fresh('b'))
        sp = spelling(SInt(b))
        ln, c0, c1 = toint(sp.n), toint(sp.get(0)), toint(sp.get(1))
        k1 = z3.If(ln >= 2, c1, V.iconst(0))
        E.axioms.append(z3.ForAll([b], z3.Implies(z3.And(b >= 0, b <= 255), z3.And(
            ln >= 1, ln <= 2,                                                    # (L)
            self.INW(c0), self.WIDTHOF(c0) == ln,                                # (W)
            self.INC(ln, c0, k1), self.CODE(ln, c0, k1) == b)),                  # (C)
            patterns=[ln]))

    def dict_model(self, ex, d, key, st, node):
        _, widths, codes = tables()
        key = SSeq.of(key)
        if d is widths:
            ex.oblige(st, key.n == 1, 'model-domain:width lookup with a one-character key', node)
            cp = toint(key.get(0))
            ex.oblige(st, SBool(self.INW(cp)), 'no-KeyError(UNICODE_CHAR_WIDTHS)', node)
            return SInt(self.WIDTHOF(cp))
        if d is codes:
            ln = toint(key.n)
            c0 = toint(key.get(0))
            c1 = z3.If(ln >= 2, toint(key.get(1)), V.iconst(0))
            ex.oblige(st, AND(key.n >= 1, key.n <= 2, SBool(self.INC(ln, c0, c1))), 'no-KeyError(UNICODE_TO_P8SCII)', node)
            return SInt(self.CODE(ln, c0, c1))
        return NotImplemented

    def ensures(self, K, a, old, res):
        if not res.returned:
            return [('no-exception', False)]
        return [('decodes-to-the-original-bytes', seq_eq(K.seq(res.value), self.bs))]

    @property
    def loops(self):
        bs, s, OFF = self.bs, self.s, self.OFF

        def inv(ctx, k):
            kk = ctx['result'].n
            return [('at-glyph-boundary', AND(kk >= 0, kk <= bs.n, ctx['idx'] == SInt(OFF(toint(kk))))),
                    ('decoded-prefix', seq_eq(ctx['result'], SSeq(kk, bs.get, 'list')))]

        def lemmas(ctx):
            kk = ctx['result'].n
            sp = spelling(bs.get(kk))
            base = SInt(OFF(toint(kk)))
            return [('more-bytes-left', kk < bs.n),
                    ('next-boundary', SInt(OFF(toint(kk) + 1)) == base + sp.n),
                    ('first-code-point', s.get(base + 0) == sp.get(0)),
                    ('second-code-point', implies(sp.n >= 2, s.get(base + 1) == sp.get(1))),
                    ('glyph-fits', SInt(OFF(toint(kk) + 1)) <= s.n)]
        return {1: LoopSpec(inv=inv, modifies=['result'], lemmas=lemmas,
                            shapes={'result': lambda: V.int_seq('result', kind='list')},
                            variant=lambda ctx: s.n - ctx['idx'])}


CONTRACTS = [P2U(), U2P()]
